#!/bin/sh
# prints the registered rules (property, id, text): the source of DESIGN.md §9.3d
exec /verif/bin/sipsp-sa list
