#!/usr/bin/env python3
"""mkmut.py <prop> <name> <file> <<< JSON [old,new]  — writes sa/mutants/<prop>/<name>.patch replacing old by new (first occurrence) in /repo/<file>."""
import sys,subprocess,os,shutil,tempfile,json
prop,name,fn=sys.argv[1:4]
old,new=json.load(sys.stdin)
T=tempfile.mkdtemp(); os.mkdir(T+'/a'); os.mkdir(T+'/b')
s=open('/repo/'+fn).read()
if s.count(old)<1:
    import difflib
    print("NOT FOUND:",repr(old[:80])); sys.exit(1)
open(T+'/a/'+fn,'w').write(s); open(T+'/b/'+fn,'w').write(s.replace(old,new,1))
r=subprocess.run(['diff','-u','a/'+fn,'b/'+fn],cwd=T,capture_output=True,text=True)
os.makedirs('/verif/sa/mutants/%s'%prop,exist_ok=True)
open('/verif/sa/mutants/%s/%s.patch'%(prop,name),'w').write(r.stdout); shutil.rmtree(T)
