// mutgen: enumerates classic single-point mutants of the non-test sources of a Go package directory.
// Output: one JSON object per line {file, start, end, repl, op, line}. Development aid for auditing the checker.
package main

import (
	"encoding/json"
	"go/ast"
	"go/parser"
	"go/token"
	"os"
	"path/filepath"
	"strconv"
	"strings"
)

type mut struct {
	File  string `json:"file"`
	Start int    `json:"start"`
	End   int    `json:"end"`
	Repl  string `json:"repl"`
	Op    string `json:"op"`
	Line  int    `json:"line"`
}

func main() {
	dir := os.Args[1]
	files, _ := filepath.Glob(filepath.Join(dir, "*.go"))
	enc := json.NewEncoder(os.Stdout)
	for _, fn := range files {
		if strings.HasSuffix(fn, "_test.go") {
			continue
		}
		fset := token.NewFileSet()
		src, _ := os.ReadFile(fn)
		f, err := parser.ParseFile(fset, fn, src, 0)
		if err != nil {
			continue
		}
		emit := func(s, e token.Pos, repl, op string) {
			enc.Encode(mut{filepath.Base(fn), fset.Position(s).Offset, fset.Position(e).Offset, repl, op, fset.Position(s).Line})
		}
		inInit := false
		ast.Inspect(f, func(n ast.Node) bool {
			switch x := n.(type) {
			case *ast.FuncDecl:
				inInit = x.Name.Name == "init" || x.Name.Name == "String"
			case *ast.GenDecl:
				if x.Tok == token.CONST || x.Tok == token.VAR || x.Tok == token.IMPORT || x.Tok == token.TYPE {
					return false // tables and constants are covered by table rules; keep the campaign on code
				}
			case *ast.BinaryExpr:
				if inInit {
					return true
				}
				rel := map[token.Token]string{token.LSS: "<=", token.LEQ: "<", token.GTR: ">=", token.GEQ: ">", token.EQL: "!=", token.NEQ: "=="}
				if r, ok := rel[x.Op]; ok {
					emit(x.OpPos, x.OpPos+token.Pos(len(x.Op.String())), r, "rel")
				}
				switch x.Op {
				case token.LAND:
					emit(x.OpPos, x.OpPos+2, "||", "logic")
				case token.LOR:
					emit(x.OpPos, x.OpPos+2, "&&", "logic")
				case token.ADD:
					if _, isStr := x.X.(*ast.BasicLit); !isStr {
						emit(x.OpPos, x.OpPos+1, "-", "arith")
					}
				case token.SUB:
					emit(x.OpPos, x.OpPos+1, "+", "arith")
				}
			case *ast.BasicLit:
				if inInit || x.Kind != token.INT {
					return true
				}
				if v, err := strconv.ParseInt(x.Value, 0, 64); err == nil && v >= 0 && v < 100000 {
					emit(x.Pos(), x.End(), strconv.FormatInt(v+1, 10), "const")
					if v > 0 {
						emit(x.Pos(), x.End(), strconv.FormatInt(v-1, 10), "const")
					}
				}
			case *ast.IfStmt:
				if inInit {
					return true
				}
				emit(x.Cond.Pos(), x.Cond.End(), "!("+string(src[fset.Position(x.Cond.Pos()).Offset:fset.Position(x.Cond.End()).Offset])+")", "negate")
			case *ast.ExprStmt:
				if inInit {
					return true
				}
				if call, ok := x.X.(*ast.CallExpr); ok {
					s := string(src[fset.Position(call.Pos()).Offset:fset.Position(call.End()).Offset])
					if !strings.HasPrefix(s, "DBG") && !strings.HasPrefix(s, "panic") && !strings.HasPrefix(s, "Log.") {
						emit(x.Pos(), x.End(), "{}", "delcall")
					}
				}
			case *ast.AssignStmt:
				if inInit || len(x.Lhs) != 1 || x.Tok != token.ASSIGN {
					return true
				}
				// delete stores through selectors / indexes (state and field updates); locals would not compile
				switch x.Lhs[0].(type) {
				case *ast.SelectorExpr, *ast.IndexExpr, *ast.StarExpr:
					emit(x.Pos(), x.End(), "{}", "delstore")
				}
			case *ast.IncDecStmt:
				if inInit {
					return true
				}
				if _, ok := x.X.(*ast.SelectorExpr); ok {
					emit(x.Pos(), x.End(), "{}", "delstore")
				}
			}
			return true
		})
	}
}
