#!/bin/sh
# usage: mut.sh <patch-file> <Cxx> [--tests]
# Applies one patch to a scratch copy of /repo (outside /repo and /verif), optionally runs the
# repository's own tests there, runs the analyser on the copy and removes it.
# exit 0 = analyser reported a violation on the mutant (caught); 1 = missed; 2 = patch/test problem
export GOFLAGS=-mod=mod GOPROXY=off GOSUMDB=off GOTOOLCHAIN=local
unset GOWORK
P=$(readlink -f "$1"); PROP=$2
D=$(mktemp -d /tmp/sipsp-mut.XXXXXX)
trap 'rm -rf "$D"' EXIT
rsync -a --exclude .git /repo/ "$D/"
(cd "$D" && patch -s -p1 < "$P") || { echo "PATCH-FAILED $P"; exit 2; }
T=""
if [ "$3" = "--tests" ]; then
  (cd "$D" && go build ./... 2>/dev/null) || { echo "BUILD-FAIL $P"; exit 2; }
  if (cd "$D" && go test -vet=off -count=1 ./... >/dev/null 2>&1); then T="[survives tests]"; else T="[killed by tests]"; fi
fi
OUT=$(/verif/bin/sipsp-sa check "$PROP" --repo "$D" --no-evidence 2>&1)
RC=$?
if [ $RC -eq 1 ]; then echo "CAUGHT $T $PROP $(basename $P): $(echo "$OUT" | grep '^FAIL' | head -2 | cut -c1-220)"; exit 0; fi
echo "MISSED $T $PROP $(basename $P) (rc=$RC)"; echo "$OUT" | tail -3
exit 1
