#!/usr/bin/env python3
"""Regenerates /verif/MANIFEST.json from the table below (claimed properties) and properties.jsonl."""
import json, os
V = os.path.dirname(os.path.dirname(os.path.abspath(__file__)))
ids = [json.loads(l)['id'] for l in open(os.path.join(V, 'properties.jsonl'))]

ENV = "export GOFLAGS=-mod=mod GOPROXY=off GOSUMDB=off GOTOOLCHAIN=local; unset GOWORK; "
COMMON_NOTE = ("Trusted base: go/packages+go/types+go/ssa+go/cfg of x/tools v0.29.0 and the analyser's own rule code; "
  "API preconditions offs>=0 and 'resume with the returned offset on the same object'; trusted summaries for "
  "bytescase.{Prefix,CmpEq,ByteToLower} (dependency pinned at v1.0.2, pin checked) and bytes.{Equal,IndexByte}. "
  "The check decides the structural necessary conditions named in 'text', not the behavioural property as a whole. ")

claimed = {
 "C16": dict(
   text="Static table/hash/comparator argument: (H1) the header-name table is exactly the 19 pairs of the property, lower-case, duplicate-free, and every method constant has a unique upper-case RFC name; (H2) insert and lookup share one hash that reads only the folded first byte and the length and is masked below the bucket array; (H3) buckets are searched with CmpEq / bytes.Equal over the whole name, miss = Other; (H4) the first-byte read is guarded against the empty name; (H5) name lookup by number is range-guarded; (T1) the header parser stores exactly GetHdrType(name) on both colon paths. Together these give 'known type iff name equals a table name' for every input without enumerating inputs.",
   note="Not decided: the extent of the name the header parser classifies (C07).",
   technique="constant-table extraction + AST/type-resolved pattern rules + SSA guard dominance (E-TAB, E-LIN)", ref="DESIGN.md §2 C16"),
}
try:
    exec(open(os.path.join(V, 'tools', 'claims.py')).read())
except FileNotFoundError:
    pass

NA_DEFAULT = "rule designed (DESIGN.md §2) but its checker is not built yet; nothing is claimed for it"
na_reasons = {}

checks = []
for i in ids:
    if i in claimed:
        c = claimed[i]
        checks.append({
            "property_id": i,
            "quick_cmd": "/verif/bin/run.sh %s quick" % i,
            "thorough_cmd": "/verif/bin/run.sh %s thorough" % i,
            "evidence_file": "/verif/evidence/%s.json" % i,
            "replay_cmd_template": "cat {path}",
            "engine": "sipsp-sa",
            "level_claimed": {"category": "other", "text": c["text"], "design_ref": c["ref"]},
            "level_note": COMMON_NOTE + c["note"],
            "technique": "static analysis: " + c["technique"],
        })
m = {
 "version": 1,
 "setup_cmd": ENV + "cd /verif/sa && go build -o /verif/bin/sipsp-sa .",
 "hooks": {"guard": "verif", "enable": "none needed: the analyser reads /repo's source as it is (no hooks, no instrumentation)",
           "baseline_off_cmd": ENV + "cd /repo && go test -vet=off -count=1 ./...",
           "source_commits": [], "add_only": True},
 "engines": [{"name": "sipsp-sa", "path": "/verif/sa", "serves_properties": sorted(claimed.keys()),
              "kind_free_text": "repository-specific static analyser (Go, x/tools v0.29.0): type-checked AST rules, go/ssa dataflow, guard dominance, constant tables; loads /repo's working tree on every run; calls to functions that the pinned tree does not have are first inlined back into their callers (vendored x/tools refactoring inliner, source to source, scratch copy under the temp directory removed on exit)"}],
 "checks": checks,
 "not_applicable": [{"property_id": i, "reason": na_reasons.get(i, NA_DEFAULT)} for i in ids if i not in claimed],
 "notes": "All claims are level 'other': structural necessary conditions decided from source; see DESIGN.md for what each check does not decide. quick = default build config; thorough = the same rules also under -tags nodebug and under GOARCH=386 (32-bit int for the type checker), plus a self-audit of the checker (catalogued mutants and independently seeded changes must be reported, behaviour-preserving rewrites must stay silent; on scratch copies outside /repo and /verif, removed at once).",
}
json.dump(m, open(os.path.join(V, 'MANIFEST.json'), 'w'), indent=1)
print("claimed:", sorted(claimed.keys()))
