#!/usr/bin/env python3
"""mutcampaign.py <mutants.jsonl> <outfile> [jobs]  — for every single-point mutant: scratch copy of /repo, apply, build,
run the repository's tests (30 s timeout); for the mutants that survive the tests run `sipsp-sa checkall` and record which
properties' checks report it. Development aid (audits the checker; executes no check verdict)."""
import sys,os,json,subprocess,tempfile,shutil,concurrent.futures,hashlib
muts=[json.loads(l) for l in open(sys.argv[1])]
out=sys.argv[2]; jobs=int(sys.argv[3]) if len(sys.argv)>3 else 6
env=dict(os.environ,GOFLAGS='-mod=mod',GOPROXY='off',GOSUMDB='off',GOTOOLCHAIN='local'); env.pop('GOWORK',None)
done=set()
if os.path.exists(out):
    for l in open(out):
        try: done.add(json.loads(l)['id'])
        except Exception: pass
def mid(m): return '%s:%d:%d:%s'%(m['file'],m['start'],m['end'],hashlib.md5(m['repl'].encode()).hexdigest()[:6])
def run(m):
    i=mid(m)
    D=tempfile.mkdtemp(prefix='sipsp-mc.')
    try:
        subprocess.run(['rsync','-a','--exclude','.git','/repo/',D+'/'],check=True)
        p=D+'/'+m['file']; s=open(p,'rb').read()
        s=s[:m['start']]+m['repl'].encode()+s[m['end']:]
        open(p,'wb').write(s)
        r=subprocess.run('go build ./... && go vet -vettool=/bin/true ./... 2>/dev/null; go build ./...',shell=True,cwd=D,env=env,capture_output=True,text=True)
        if r.returncode!=0: return dict(id=i,m=m,status='nobuild')
        try:
            r=subprocess.run('go test -vet=off -count=1 ./...',shell=True,cwd=D,env=env,capture_output=True,text=True,timeout=40)
        except subprocess.TimeoutExpired:
            return dict(id=i,m=m,status='killed-timeout')
        if r.returncode!=0: return dict(id=i,m=m,status='killed')
        r=subprocess.run(['/verif/bin/sipsp-sa','checkall','--repo',D],capture_output=True,text=True,timeout=600)
        fails=[l.split()[1]+':'+' '.join(l.split()[3:])[:80] for l in r.stdout.splitlines() if l.startswith('FAILS')]
        return dict(id=i,m=m,status='survived',caught=bool(fails),by=fails[:8])
    except Exception as e:
        return dict(id=i,m=m,status='error',err=str(e)[:200])
    finally:
        shutil.rmtree(D,ignore_errors=True)
todo=[m for m in muts if mid(m) not in done]
print(len(todo),'to do',file=sys.stderr)
with concurrent.futures.ThreadPoolExecutor(jobs) as ex, open(out,'a') as fo:
    for r in ex.map(run,todo):
        fo.write(json.dumps(r)+'\n'); fo.flush()
