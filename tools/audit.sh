#!/bin/sh
# audit.sh [Cxx...] : runs every catalogued mutant (sa/mutants/<Cxx>/*.patch) and every kept seed
# (seeded/<Cxx>-*/patch.diff) against that property's check on a scratch copy (6 at a time); prints a summary.
export GOFLAGS=-mod=mod GOPROXY=off GOSUMDB=off GOTOOLCHAIN=local; unset GOWORK
if [ "$1" = "--one" ]; then
  c=$2; p=$3
  D=$(mktemp -d /tmp/sipsp-aud.XXXXXX); rsync -a --exclude .git /repo/ $D/
  if ! (cd $D && patch -s -p1 < $p >/dev/null 2>&1); then echo "STALE  $c $(echo $p | sed 's|/verif/||')"; rm -rf $D; exit 0; fi
  /verif/bin/sipsp-sa check $c --repo $D --no-evidence >/dev/null 2>&1; rc=$?
  if [ $rc = 1 ]; then echo "CAUGHT $c $(echo $p | sed 's|/verif/||')"; else
    # seeds may be caught by a sibling property's check (recorded in meta.json)
    alt=""; m=$(dirname $p)/meta.json
    if [ -f "$m" ]; then for q in $(python3 -c "import json,sys;print(' '.join(json.load(open('$m')).get('other_property_checks',{}).keys()))"); do /verif/bin/sipsp-sa check $q --repo $D --no-evidence >/dev/null 2>&1; [ $? = 1 ] && alt="$alt$q "; done; fi
    if [ -n "$alt" ]; then echo "SIBLING $c $(echo $p | sed 's|/verif/||') caught by $alt"; else echo "MISSED $c $(echo $p | sed 's|/verif/||')"; fi
  fi
  rm -rf $D
  exit 0
fi
PROPS="$@"; [ -z "$PROPS" ] && PROPS="C01 C02 C03 C04 C05 C06 C07 C08 C09 C10 C11 C12 C13 C14 C15 C16 C17 C18 C19 C20"
OUT=$(for c in $PROPS; do for p in /verif/sa/mutants/$c/*.patch /verif/seeded/$c-*/patch.diff; do [ -f "$p" ] && echo "$c $p"; done; done | xargs -P 6 -n 2 "$0" --one)
echo "$OUT" | grep -v "^CAUGHT" | sort
tot=$(echo "$OUT" | grep -c .); caught=$(echo "$OUT" | grep -c "^CAUGHT\|^SIBLING")
echo "audit: $caught / $tot caught"
