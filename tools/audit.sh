#!/bin/sh
# audit.sh [Cxx...] : runs every catalogued mutant (sa/mutants/<Cxx>/*.patch) and every kept seed
# (seeded/<Cxx>-*/patch.diff) against that property's check on a scratch copy; prints a summary.
export GOFLAGS=-mod=mod GOPROXY=off GOSUMDB=off GOTOOLCHAIN=local; unset GOWORK
PROPS="$@"; [ -z "$PROPS" ] && PROPS=$(ls /verif/sa/mutants | sort)
tot=0; caught=0
for c in $PROPS; do
  for p in /verif/sa/mutants/$c/*.patch /verif/seeded/$c-*/patch.diff; do
    [ -f "$p" ] || continue
    tot=$((tot+1))
    D=$(mktemp -d /tmp/sipsp-aud.XXXXXX); rsync -a --exclude .git /repo/ $D/
    if ! (cd $D && patch -s -p1 < $p >/dev/null 2>&1); then echo "STALE  $c $(echo $p | sed 's|/verif/||')"; rm -rf $D; continue; fi
    /verif/bin/sipsp-sa check $c --repo $D --no-evidence >/dev/null 2>&1; rc=$?
    if [ $rc = 1 ]; then caught=$((caught+1)); else
      # seeds may be caught by a sibling property's check (recorded in meta.json)
      alt=""; m=$(dirname $p)/meta.json
      if [ -f "$m" ]; then for q in $(python3 -c "import json,sys;print(' '.join(json.load(open('$m')).get('other_property_checks',{}).keys()))"); do /verif/bin/sipsp-sa check $q --repo $D --no-evidence >/dev/null 2>&1; [ $? = 1 ] && alt="$alt$q "; done; fi
      if [ -n "$alt" ]; then caught=$((caught+1)); echo "SIBLING $c $(echo $p | sed 's|/verif/||') caught by $alt"; else echo "MISSED $c $(echo $p | sed 's|/verif/||')"; fi
    fi
    rm -rf $D
  done
done
echo "audit: $caught / $tot caught"
