#!/bin/sh
# neutral.sh [patch...] : applies each behaviour-preserving rewrite to a scratch copy and requires every check to stay silent.
# Patches are processed 6 at a time (each in its own scratch copy under /tmp, removed afterwards).
export GOFLAGS=-mod=mod GOPROXY=off GOSUMDB=off GOTOOLCHAIN=local; unset GOWORK
if [ "$1" = "--one" ]; then
  p=$2; rc=0
  D=$(mktemp -d /tmp/sipsp-neu.XXXXXX); rsync -a --exclude .git /repo/ $D/
  (cd $D && patch -s -p1 < $p) || { echo "PATCHFAIL $p"; rm -rf $D; exit 1; }
  (cd $D && go build ./... && go test -vet=off -count=1 ./... >/dev/null 2>&1) || echo "NOTE tests fail on $(basename $p)"
  for c in C01 C03 C04 C05 C06 C07 C08 C09 C10 C11 C12 C13 C14 C15 C16 C17 C18 C19 C20; do
    /verif/bin/sipsp-sa check $c --repo $D --no-evidence > $D.out 2>&1 || { echo "FALSE ALARM $c on $(basename $p): $(grep '^FAIL' $D.out | head -2 | cut -c1-200)"; rc=1; }
  done
  rm -rf $D $D.out
  exit $rc
fi
P="$@"; [ -z "$P" ] && P=$(ls /verif/sa/neutral/*.patch)
if echo $P | tr ' ' '\n' | xargs -P 6 -n 1 "$0" --one; then echo "all silent"; exit 0; fi
exit 1
