#!/usr/bin/env python3
"""keepseed.py <prop> <srcdir> <seed-id> "<needs>"  — re-verifies an agent-written seeded change in a scratch copy
(pristine+demo passes; patched: existing tests pass, demo fails), runs the property's check on the patched copy,
and stores it as /verif/seeded/<seed-id>/{patch.diff,demo_test.go,meta.json}."""
import sys,os,subprocess,tempfile,shutil,json
prop,src,sid,needs=sys.argv[1:5]
also=sys.argv[5].split(',') if len(sys.argv)>5 else []
env=dict(os.environ,GOFLAGS='-mod=mod',GOPROXY='off',GOSUMDB='off',GOTOOLCHAIN='local'); env.pop('GOWORK',None)
def run(cmd,cwd):
    r=subprocess.run(cmd,shell=True,cwd=cwd,env=env,capture_output=True,text=True); return r.returncode,(r.stdout+r.stderr)
D=tempfile.mkdtemp(prefix='sipsp-seed.')
try:
    subprocess.run(['rsync','-a','--exclude','.git','/repo/',D+'/'],check=True)
    shutil.copy(src+'/demo_test.go',D+'/zz_seed_demo_test.go')
    rc0,o0=run("go test -vet=off -count=1 -run TestSeedDemo .",D)
    rc,o=run("patch -s -p1 < %s/patch.diff"%src,D)
    if rc!=0: print("PATCH FAILED",o); sys.exit(2)
    rcb,ob=run("go build ./... && go build -tags nodebug ./...",D)
    os.rename(D+'/zz_seed_demo_test.go',D+'/zz_seed_demo_test.go.off')
    rc1,o1=run("go test -vet=off -count=1 ./...",D)
    os.rename(D+'/zz_seed_demo_test.go.off',D+'/zz_seed_demo_test.go')
    rc2,o2=run("go test -vet=off -count=1 -run TestSeedDemo .",D)
    os.remove(D+'/zz_seed_demo_test.go')
    rc3,o3=run("/verif/bin/sipsp-sa check %s --repo %s --no-evidence"%(prop,D),'/verif')
    fails=[l for l in o3.splitlines() if l.startswith('FAIL')]
    other={}
    for q in also:
        rcq,oq=run("/verif/bin/sipsp-sa check %s --repo %s --no-evidence"%(q,D),'/verif')
        other[q]=dict(exit=rcq,reports=[l for l in oq.splitlines() if l.startswith('FAIL')][:4])
    res=dict(pristine_demo_passes=rc0==0,patched_builds=rcb==0,patched_suite_passes=rc1==0,patched_demo_fails=rc2!=0,
             check_exit=rc3,check_reports=fails[:6])
    print(json.dumps(res,indent=1)[:1500])
    if not (rc0==0 and rcb==0 and rc1==0 and rc2!=0):
        print("NOT KEPT: does not meet the seeding contract"); sys.exit(1)
    out='/verif/seeded/'+sid; os.makedirs(out,exist_ok=True)
    shutil.copy(src+'/patch.diff',out+'/patch.diff'); shutil.copy(src+'/demo_test.go',out+'/demo_test.go')
    readme=open(src+'/README.txt').read() if os.path.exists(src+'/README.txt') else ''
    meta=dict(property=prop,breaks=readme[:1500],needs_to_manifest=needs,
      ran=["scratch copy of /repo + demo: go test -run TestSeedDemo -> pass","+patch: go build (default and -tags nodebug) -> ok","+patch: go test ./... (existing suite) -> pass","+patch: go test -run TestSeedDemo -> FAIL","+patch: sipsp-sa check %s --repo <copy> -> exit %d"%(prop,rc3)],
      caught_by_check=(rc3==1),check_reports=fails[:6],other_property_checks=other,caught_by_any=(rc3==1 or any(v['exit']==1 for v in other.values())),written_by="independent sub-agent given only the property text")
    json.dump(meta,open(out+'/meta.json','w'),indent=1)
    print("KEPT",out,"caught" if rc3==1 else ("caught-by-"+",".join(q for q,v in other.items() if v['exit']==1) if any(v['exit']==1 for v in other.values()) else "MISSED"))
finally:
    shutil.rmtree(D)
