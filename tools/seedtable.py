# seedtable.py <glob>: prints the DESIGN.md catch table (markdown) for the kept seeds matching the glob, from meta.json
import json,glob,os,re,sys
pat=sys.argv[1] if len(sys.argv)>1 else 'C??-*'
def key(d):
    b=os.path.basename(d); p,n=b.split('-'); return (p,int(n))
own=sib=miss=0
print('| seed | what it breaks (first line of the author\'s note) | caught by | rule |')
print('|---|---|---|---|')
for d in sorted(glob.glob('/verif/seeded/'+pat),key=key):
    m=json.load(open(d+'/meta.json'))
    first=next((l.strip() for l in m.get('breaks','').splitlines() if l.strip() and not set(l.strip())<=set('=-')),'')
    first=re.sub(r'\s+',' ',first).replace('|','/')[:110]
    props=[]; rule=''
    if m.get('caught_by_check'):
        props.append(m['property'])
        r=m.get('check_reports') or ['']
        mm=re.match(r'FAIL (\w+):',r[0]); rule=mm.group(1) if mm else ''
    for q,v in m.get('other_property_checks',{}).items():
        if v.get('exit')==1:
            props.append(q)
            if not rule:
                mm=re.match(r'FAIL (\w+):',(v.get('reports') or [''])[0]); rule=q+'-'+(mm.group(1) if mm else '?')
    if m.get('caught_by_check'): own+=1
    elif props: sib+=1
    else: miss+=1
    print('| %s | %s | %s | %s |'%(os.path.basename(d),first,', '.join(props) or '**none**',rule))
print()
print('own=%d sibling-only=%d missed=%d'%(own,sib,miss))
