# refreshseeds.py [glob] [extra,sibling,props]: re-measures kept seeds (tests, demo, checks) and rewrites meta.json
import json,glob,os,subprocess,tempfile,shutil,sys,concurrent.futures
pat=sys.argv[1] if len(sys.argv)>1 else 'C??-*'
extra=sys.argv[2].split(',') if len(sys.argv)>2 else []
ids=sorted(os.path.basename(d) for d in glob.glob('/verif/seeded/'+pat))
def run(sid):
    d='/verif/seeded/'+sid
    m=json.load(open(d+'/meta.json'))
    T=tempfile.mkdtemp(prefix='seedsrc.')
    try:
        shutil.copy(d+'/patch.diff',T); shutil.copy(d+'/demo_test.go',T)
        open(T+'/README.txt','w').write(m.get('breaks',''))
        sibs=list(m.get('other_property_checks',{}).keys())
        for x in extra:
            if x not in sibs and x!=m['property']: sibs.append(x)
        sib=','.join(sibs)
        r=subprocess.run(['python3','/verif/tools/keepseed.py',m['property'],T,sid,m.get('needs_to_manifest','see README'),sib],capture_output=True,text=True)
        last=[l for l in r.stdout.splitlines() if l.startswith('KEPT') or 'NOT KEPT' in l or 'PATCH FAILED' in l]
        keep={k:m[k] for k in ('note','rebase_note') if k in m}
        if keep:
            m2=json.load(open(d+'/meta.json')); m2.update(keep); json.dump(m2,open(d+'/meta.json','w'),indent=1)
        return sid+' '+(last[-1] if last else 'ERR '+r.stdout[-200:])
    finally:
        shutil.rmtree(T,ignore_errors=True)
with concurrent.futures.ThreadPoolExecutor(8) as ex:
    for s in ex.map(run,ids): print(s,flush=True)
