#!/bin/sh
# usage: run.sh <Cxx> <quick|thorough>   — rebuilds the analyser if needed and analyses /repo's working tree.
set -e
export GOFLAGS=-mod=mod GOPROXY=off GOSUMDB=off GOTOOLCHAIN=local
unset GOWORK
V=/verif
BIN=$V/bin/sipsp-sa
if [ ! -x "$BIN" ] || [ -n "$(find $V/sa -name '*.go' -newer "$BIN" 2>/dev/null | head -1)" ] || [ $V/sa/go.mod -nt "$BIN" ]; then
  (cd $V/sa && go build -o "$BIN" .) >&2
fi
PROP=$1
TIER=${2:-quick}
REPO=${SIPSP_REPO:-/repo}
if [ "$TIER" = thorough ]; then
  exec "$BIN" check "$PROP" --tier thorough --repo "$REPO"
fi
exec "$BIN" check "$PROP" --tier quick --repo "$REPO"
