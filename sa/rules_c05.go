package main

import (
	"fmt"
	"go/ast"
	"go/token"
	"golang.org/x/tools/go/ssa"
	"sort"
	"strings"
)

type hdrDispatch struct {
	hdrType, state, getter, parser, valSrc string
	pos                                    token.Pos
}

// dispatchTables extracts (a) the first-call table of the parseBody closure and (b) the resume table of ParseHdrLine.
func dispatchTables(c *Ctx) (first, resume []hdrDispatch) {
	fd := c.Decls["ParseHdrLine"]
	if fd == nil {
		return
	}
	hN := fd.Type.Params.List[2].Names[0].Name
	hbN := fd.Type.Params.List[3].Names[0].Name
	extract := func(body []ast.Stmt, d *hdrDispatch) {
		for _, s := range body {
			ast.Inspect(s, func(n ast.Node) bool {
				switch x := n.(type) {
				case *ast.AssignStmt:
					if len(x.Lhs) == 1 && len(x.Rhs) == 1 {
						l := c.src(x.Lhs[0])
						if l == hN+".state" && d.state == "" {
							d.state = c.src(x.Rhs[0])
						}
						if l == hN+".Val" {
							d.valSrc = c.src(x.Rhs[0])
						}
						if call, ok := x.Rhs[0].(*ast.CallExpr); ok && strings.HasPrefix(c.src(call.Fun), hbN+".Get") {
							d.getter = strings.TrimPrefix(c.src(call.Fun), hbN+".") + "->" + l
						}
					}
					if len(x.Lhs) == 2 && len(x.Rhs) == 1 {
						if call, ok := x.Rhs[0].(*ast.CallExpr); ok && strings.HasPrefix(c.calleeName(call), "Parse") {
							d.parser = c.calleeName(call) + "(" + c.src(call.Args[len(call.Args)-1]) + ")"
						}
					}
				}
				return true
			})
		}
	}
	ast.Inspect(fd.Body, func(n ast.Node) bool {
		sw, ok := n.(*ast.SwitchStmt)
		if !ok || sw.Tag == nil {
			return true
		}
		tag := c.src(sw.Tag)
		for _, cc := range sw.Body.List {
			cl := cc.(*ast.CaseClause)
			if len(cl.List) != 1 {
				continue
			}
			name := c.constName(cl.List[0])
			if tag == hN+".Type" && strings.HasPrefix(name, "Hdr") {
				d := hdrDispatch{hdrType: name, pos: cl.Pos()}
				extract(cl.Body, &d)
				first = append(first, d)
			}
			if tag == hN+".state" && strings.HasPrefix(name, "h") && len(name) > 1 && name[1] >= 'A' && name[1] <= 'Z' {
				d := hdrDispatch{state: name, pos: cl.Pos()}
				saved := d.state
				extract(cl.Body, &d)
				d.state = saved
				if d.parser != "" {
					resume = append(resume, d)
				}
			}
		}
		return true
	})
	return
}

// V2 / R3: writer = reader for the per-header dispatch.
func ruleV2(c *Ctx) {
	first, resume := dispatchTables(c)
	c.check(len(first) == 8 && len(resume) == 8, "V2", "tables", token.NoPos, fmt.Sprintf("%d typed first-call branches and %d resume cases extracted", len(first), len(resume)))
	byState := map[string]hdrDispatch{}
	for _, r := range resume {
		byState[r.state] = r
	}
	for _, f := range first {
		r, ok := byState[f.state]
		key := f.hdrType + ":" + f.state
		c.check(ok, "V2", "resume-case:"+key, f.pos, "the state stored on the first call has a resume case")
		if !ok {
			continue
		}
		c.check(f.getter == r.getter && f.parser == r.parser, "V2", "same-parser:"+key, r.pos, fmt.Sprintf("resume uses the same getter and parser as the first call (%s, %s vs %s, %s)", f.getter, f.parser, r.getter, r.parser))
		c.check(f.valSrc == r.valSrc && f.valSrc != "", "V2", "same-val:"+key, r.pos, fmt.Sprintf("Hdr.Val is copied from the same value field (%s vs %s)", f.valSrc, r.valSrc))
		// the value field belongs to the object that was passed to the parser
		obj := ""
		if i := strings.Index(f.getter, "->"); i >= 0 {
			obj = f.getter[i+2:]
		}
		c.check(obj != "" && strings.HasPrefix(f.valSrc, obj+".") && strings.HasSuffix(f.parser, "("+obj+")"), "V2", "own-object:"+key, f.pos, "the header's Val comes from the very object its parser filled ("+obj+")")
	}
	// expected pairing header type -> getter/parser (the property's list)
	want := map[string]string{"HdrFrom": "GetFrom", "HdrTo": "GetTo", "HdrCallID": "GetCallID", "HdrCSeq": "GetCSeq", "HdrCLen": "GetCLen", "HdrContact": "GetContacts", "HdrExpires": "GetExpires", "HdrPAI": "GetPAIs"}
	for _, f := range first {
		c.check(strings.HasPrefix(f.getter, want[f.hdrType]+"->"), "V2", "getter:"+f.hdrType, f.pos, "header type "+f.hdrType+" is parsed into "+want[f.hdrType]+"()")
	}
}

// V3: nesting by sibling agreement on the completing exits of the name-addr and CSeq automata.
func ruleV3(c *Ctx) {
	r := fsmOf(c, "ParseNameAddrPVal")
	if r == nil || r.head == nil {
		c.fail("V3", "ParseNameAddrPVal:fsm", token.NoPos, "state machine could not be extracted")
		return
	}
	argOf := func(t fsmTrans, prefix string) (string, bool) {
		last, ok := "", false
		for _, cl := range t.Calls {
			if strings.HasPrefix(cl, prefix) {
				last = strings.TrimSuffix(strings.TrimPrefix(cl, prefix), ")")
				ok = true
			}
		}
		return last, ok
	}
	n := 0
	for _, t := range append(r.grouped(r.trans), r.grouped(r.post)...) {
		if !(t.Exit == "return" && r.name(t.To) == "fbFIN" && (t.Verd.has(0) || t.Verd.has(4))) || r.name(t.From) == "fbFIN" {
			continue
		}
		key := r.name(t.From) + ":" + t.Bytes.String() + ":" + strings.Join(t.Conds, "&")
		if pe, ok := argOf(t, "Params.Extend("); ok {
			n++
			ve, okv := argOf(t, "V.Extend(")
			c.check(okv && ve == pe, "V3", "params-in-value:"+key, t.RetPos, "an exit that extends Params to "+pe+" extends the whole value V to the same end (params nest inside the value)")
		}
		if us, ok := argOf(t, "URI.Set("); ok {
			n++
			end := us[strings.LastIndex(us, ",")+1:]
			ve, okv := argOf(t, "V.Extend(")
			c.check(okv && ve == end, "V3", "uri-in-value:"+key, t.RetPos, "an exit that closes the URI at "+end+" extends V to the same end")
		}
	}
	c.check(n >= 15, "V3", "exits", token.NoPos, fmt.Sprintf("%d extent pairs on completing exits checked (frozen minimum 15)", n))
	// the tag lies inside the parameters: Tag.Set only in setFromParamVal with (vstart, vend)
	if fd := c.Decls["setFromParamVal"]; fd != nil {
		c.check(patIn(c.src(fd.Body), "@p.Tag.Set(@p.vstart, @p.vend)"), "V3", "tag-span", fd.Pos(), "the tag is the parameter value span (vstart, vend)")
	}
	// CSeq: number and method inside V
	rc := fsmOf(c, "ParseCSeqVal")
	if rc != nil && rc.head != nil {
		m := 0
		for _, t := range append(rc.grouped(rc.trans), rc.grouped(rc.post)...) {
			key := rc.name(t.From) + ":" + t.Bytes.String()
			if a, ok := argOf(t, "CSeq.Set("); ok {
				m++
				v, okv := argOf(t, "V.Set(")
				c.check(okv && v == a, "V3", "cseq-number:"+key, t.RetPos, "the CSeq number span starts the whole value V ("+a+")")
			}
			if a, ok := argOf(t, "Method.Set("); ok {
				m++
				end := a[strings.LastIndex(a, ",")+1:]
				v, okv := argOf(t, "V.Extend(")
				c.check(okv && v == end, "V3", "cseq-method:"+key, t.RetPos, "the method span ends the whole value V ("+end+")")
			}
		}
		c.check(m >= 3, "V3", "cseq-sites", token.NoPos, fmt.Sprintf("%d CSeq extent pairs checked", m))
	}
}

// fsmIndexName: source name of the scan index of an extracted automaton (the loop-head phi compared with len(buf)).
func fsmIndexName(r *fsmResult) string {
	if r == nil || r.head == nil {
		return ""
	}
	iff, ok := r.head.Instrs[len(r.head.Instrs)-1].(*ssa.If)
	if !ok {
		return ""
	}
	bo, ok := iff.Cond.(*ssa.BinOp)
	if !ok {
		return ""
	}
	for _, v := range []ssa.Value{bo.X, bo.Y} {
		if ph, ok := v.(*ssa.Phi); ok && ph.Block() == r.head {
			return ph.Comment
		}
	}
	return ""
}

// V5: trimming survives a suspension. A state that a more-bytes exit leaves in the object together with an offset
// the whitespace skipper already advanced ("resume after the blanks seen so far") is re-entered with the scan index
// past trailing blanks; in such a state no transition taken on a whitespace byte (or at buffer end) may close a span at the bare scan index (X.Extend(i),
// X.Set(a, i), *end = i): the blanks skipped before the suspension would become part of the value.
func ruleV5(c *Ctx) {
	nStates, nTrans := 0, 0
	for _, fn := range []string{"ParseNameAddrPVal", "ParseCSeqVal", "ParseCallIDVal", "ParseUIntVal", "ParseTokenParam"} {
		r := fsmOf(c, fn)
		if r == nil || r.head == nil || r.capped {
			c.fail("V5", fn+":fsm", token.NoPos, "state machine could not be extracted")
			continue
		}
		idx := fsmIndexName(r)
		if idx == "" {
			c.fail("V5", fn+":index", token.NoPos, "scan index not identified")
			continue
		}
		mb, _ := c.namedConstInt("ErrHdrMoreBytes")
		all := append(r.grouped(r.trans), r.grouped(r.post)...)
		adv := map[int64]token.Pos{}
		for _, t := range all {
			if t.Exit == "return" && t.Verd.has(mb) && strings.Contains(t.RetOffs, "()#0") && t.To >= 0 {
				adv[t.To] = t.RetPos
			}
		}
		var states []int64
		for k := range adv {
			states = append(states, k)
		}
		sort.Slice(states, func(i, j int) bool { return states[i] < states[j] })
		bare := "+" + idx
		for _, st := range states {
			nStates++
			var bad []string
			pos := adv[st]
			for _, t := range all {
				if t.From != st {
					continue
				}
				// only where the index can differ between a one-shot and a resumed parse: on a whitespace byte
				// (one-shot: always the first blank of the run; resumed: possibly a later one) or with the buffer
				// exhausted. On any other byte the index is that byte's position in both.
				if t.Bytes != nil && !(t.Bytes.has(' ') || t.Bytes.has('\t') || t.Bytes.has('\r') || t.Bytes.has('\n')) {
					continue
				}
				nTrans++
				for _, cl := range t.Calls {
					op := strings.Index(cl, "(")
					if op < 0 || !strings.HasSuffix(cl, ")") {
						continue
					}
					name, args := cl[:op], strings.Split(cl[op+1:len(cl)-1], ",")
					if (strings.HasSuffix(name, ".Extend") || strings.HasSuffix(name, ".Set")) && strings.TrimSpace(args[len(args)-1]) == bare && !(len(args) == 2 && strings.TrimSpace(args[0]) == bare) {
						bad = append(bad, t.Bytes.String()+": "+cl)
						pos = t.AtPos
						if !pos.IsValid() {
							pos = t.RetPos
						}
					}
				}
				for _, sto := range t.Stores {
					if eq := strings.Index(sto, "="); eq > 0 && strings.HasSuffix(strings.ToLower(sto[:eq]), "end") && sto[eq+1:] == bare {
						bad = append(bad, t.Bytes.String()+": "+sto)
						pos = t.AtPos
					}
				}
			}
			sort.Strings(bad)
			if len(bad) > 3 {
				bad = bad[:3]
			}
			c.check(len(bad) == 0, "V5", fn+":"+r.name(st)+":no-span-end-at-resumed-index", pos, fmt.Sprintf("state %s can be resumed with the scan index %s already past trailing whitespace (a more-bytes exit returns the skipper's offset); no transition from it closes a span at the bare index %v", r.name(st), idx, bad))
		}
	}
	c.check(nStates >= 15, "V5", "states", token.NoPos, fmt.Sprintf("%d advance-on-suspend states, %d transitions from them inspected (frozen minimum 15 states)", nStates, nTrans))
}

// V1: framing views (shared with C06).
func ruleV1(c *Ctx) {
	t := &Ctx{Prog: c.Prog, Prop: c.Prop}
	ruleF1(t)
	ruleF4(t)
	var keys []string
	for _, o := range t.obls {
		if o.Rule == "V1" || strings.Contains(o.Key, "msg.offs") {
			o.Key = "V1:" + strings.TrimPrefix(strings.TrimPrefix(o.Key, "V1:"), "F4:")
			o.Rule = "V1"
			c.obls = append(c.obls, o)
			keys = append(keys, o.Key)
		}
	}
	sort.Strings(keys)
	c.expectMin("V1", 12)
}

func init() {
	register(&PropDef{
		ID: "C05",
		Rules: []Rule{
			{"V1", "framing views are the returned offset: on every definitive return of ParseSIPMsg the body starts where the headers ended and is extended to the returned offset, Buf = buf[0:ret], RawMsg = Buf[msg.offs:ret]; msg.offs is stored once, in state Init, from the offs parameter", ruleV1},
			{"V2", "Hdr.Val comes from the value object of the same header: the 8 typed branches of the first call and the 8 resume cases of ParseHdrLine use the same getter, the same parser and copy the same value field, which belongs to the object passed to the parser", ruleV2},
			{"V5", "trimming survives a suspension: in every state of the 5 extracted automata that a more-bytes exit persists together with an offset already advanced by the whitespace skipper, no transition taken on a whitespace byte or at buffer end closes a span at the bare scan index (Extend(i) / Set(a,i) / *end=i) — after a resume the index is past the trailing blanks and they would become part of the value", ruleV5},
			{"V3", "nesting by sibling agreement on the completing exits of the extracted automata: an exit that extends Params (or closes the URI) extends the whole value V to the same end; the tag is the parameter value span; the CSeq number starts V and the method ends it", ruleV3},
		},
		Assumptions: []string{"field end arguments are positions <= len(buf) (C04-P2)"},
		NotDecided:  "containment, ordering and non-overlap of fields and trimming as values; in particular the observed defect that the Hdr.Val of a second Contact / P-Asserted-Identity header spans back to the first one (LastHVal keyed on the per-message value counter) is not decided by any rule here",
	})
}
