package main

import (
	"regexp"
	"fmt"
	"go/ast"
	"go/token"
	"go/types"
	"golang.org/x/tools/go/ssa"
	"sort"
	"strings"
)

type hdrDispatch struct {
	hdrType, state, getter, parser, valSrc string
	pos                                    token.Pos
}

// dispatchTables extracts (a) the first-call table of the parseBody closure and (b) the resume table of ParseHdrLine.
func dispatchTables(c *Ctx) (first, resume []hdrDispatch) {
	fd := c.Decls["ParseHdrLine"]
	if fd == nil {
		return
	}
	hN := fd.Type.Params.List[2].Names[0].Name
	hbN := fd.Type.Params.List[3].Names[0].Name
	extract := func(body []ast.Stmt, d *hdrDispatch) {
		for _, s := range body {
			ast.Inspect(s, func(n ast.Node) bool {
				switch x := n.(type) {
				case *ast.AssignStmt:
					if len(x.Lhs) == 1 && len(x.Rhs) == 1 {
						l := c.src(x.Lhs[0])
						if l == hN+".state" && d.state == "" {
							d.state = c.src(x.Rhs[0])
						}
						if l == hN+".Val" {
							d.valSrc = c.src(x.Rhs[0])
						}
						if call, ok := x.Rhs[0].(*ast.CallExpr); ok && strings.HasPrefix(c.src(call.Fun), hbN+".Get") {
							d.getter = strings.TrimPrefix(c.src(call.Fun), hbN+".") + "->" + l
						}
					}
					if len(x.Lhs) == 2 && len(x.Rhs) == 1 {
						if call, ok := x.Rhs[0].(*ast.CallExpr); ok && strings.HasPrefix(c.calleeName(call), "Parse") {
							d.parser = c.calleeName(call) + "(" + c.src(call.Args[len(call.Args)-1]) + ")"
						}
					}
				}
				return true
			})
		}
	}
	ast.Inspect(fd.Body, func(n ast.Node) bool {
		sw, ok := n.(*ast.SwitchStmt)
		if !ok || sw.Tag == nil {
			return true
		}
		tag := c.src(sw.Tag)
		for _, cc := range sw.Body.List {
			cl := cc.(*ast.CaseClause)
			if len(cl.List) != 1 {
				continue
			}
			name := c.constName(cl.List[0])
			if tag == hN+".Type" && strings.HasPrefix(name, "Hdr") {
				d := hdrDispatch{hdrType: name, pos: cl.Pos()}
				extract(cl.Body, &d)
				first = append(first, d)
			}
			if tag == hN+".state" && strings.HasPrefix(name, "h") && len(name) > 1 && name[1] >= 'A' && name[1] <= 'Z' {
				d := hdrDispatch{state: name, pos: cl.Pos()}
				saved := d.state
				extract(cl.Body, &d)
				d.state = saved
				if d.parser != "" {
					resume = append(resume, d)
				}
			}
		}
		return true
	})
	return
}

// V2 / R3: writer = reader for the per-header dispatch.
func ruleV2(c *Ctx) {
	first, resume := dispatchTables(c)
	c.check(len(first) == 8 && len(resume) == 8, "V2", "tables", token.NoPos, fmt.Sprintf("%d typed first-call branches and %d resume cases extracted", len(first), len(resume)))
	byState := map[string]hdrDispatch{}
	for _, r := range resume {
		byState[r.state] = r
	}
	for _, f := range first {
		r, ok := byState[f.state]
		key := f.hdrType + ":" + f.state
		c.check(ok, "V2", "resume-case:"+key, f.pos, "the state stored on the first call has a resume case")
		if !ok {
			continue
		}
		c.check(f.getter == r.getter && f.parser == r.parser, "V2", "same-parser:"+key, r.pos, fmt.Sprintf("resume uses the same getter and parser as the first call (%s, %s vs %s, %s)", f.getter, f.parser, r.getter, r.parser))
		c.check(f.valSrc == r.valSrc && f.valSrc != "", "V2", "same-val:"+key, r.pos, fmt.Sprintf("Hdr.Val is copied from the same value field (%s vs %s)", f.valSrc, r.valSrc))
		// the value field belongs to the object that was passed to the parser
		obj := ""
		if i := strings.Index(f.getter, "->"); i >= 0 {
			obj = f.getter[i+2:]
		}
		c.check(obj != "" && strings.HasPrefix(f.valSrc, obj+".") && strings.HasSuffix(f.parser, "("+obj+")"), "V2", "own-object:"+key, f.pos, "the header's Val comes from the very object its parser filled ("+obj+")")
	}
	// expected pairing header type -> getter/parser (the property's list)
	want := map[string]string{"HdrFrom": "GetFrom", "HdrTo": "GetTo", "HdrCallID": "GetCallID", "HdrCSeq": "GetCSeq", "HdrCLen": "GetCLen", "HdrContact": "GetContacts", "HdrExpires": "GetExpires", "HdrPAI": "GetPAIs"}
	for _, f := range first {
		c.check(strings.HasPrefix(f.getter, want[f.hdrType]+"->"), "V2", "getter:"+f.hdrType, f.pos, "header type "+f.hdrType+" is parsed into "+want[f.hdrType]+"()")
	}
}

// V3: nesting by sibling agreement on the completing exits of the name-addr and CSeq automata.
func ruleV3(c *Ctx) {
	r := fsmOf(c, "ParseNameAddrPVal")
	if r == nil || r.head == nil {
		c.fail("V3", "ParseNameAddrPVal:fsm", token.NoPos, "state machine could not be extracted")
		return
	}
	argOf := func(t fsmTrans, prefix string) (string, bool) {
		last, ok := "", false
		for _, cl := range t.Calls {
			if strings.HasPrefix(cl, prefix) {
				last = strings.TrimSuffix(strings.TrimPrefix(cl, prefix), ")")
				ok = true
			}
		}
		return last, ok
	}
	n := 0
	for _, t := range append(r.grouped(r.trans), r.grouped(r.post)...) {
		if !(t.Exit == "return" && r.name(t.To) == "fbFIN" && (t.Verd.has(0) || t.Verd.has(4))) || r.name(t.From) == "fbFIN" {
			continue
		}
		key := r.name(t.From) + ":" + t.Bytes.String() + ":" + strings.Join(t.Conds, "&")
		if pe, ok := argOf(t, "Params.Extend("); ok {
			n++
			ve, okv := argOf(t, "V.Extend(")
			c.check(okv && ve == pe, "V3", "params-in-value:"+key, t.RetPos, "an exit that extends Params to "+pe+" extends the whole value V to the same end (params nest inside the value)")
		}
		if us, ok := argOf(t, "URI.Set("); ok {
			n++
			end := us[strings.LastIndex(us, ",")+1:]
			ve, okv := argOf(t, "V.Extend(")
			c.check(okv && ve == end, "V3", "uri-in-value:"+key, t.RetPos, "an exit that closes the URI at "+end+" extends V to the same end")
		}
	}
	// ... and wherever the URI is closed before the value ends (the '>' of <uri>, the blank after a bare URI): the
	// same transition extends the whole value to the URI's end, or one past it to take in the closing bracket
	m := 0
	for _, t := range r.grouped(r.trans) {
		if t.Exit == "return" {
			continue
		}
		if us, ok := argOf(t, "URI.Set("); ok {
			m++
			end := us[strings.LastIndex(us, ",")+1:]
			ve, okv := argOf(t, "V.Extend(")
			key := r.name(t.From) + ":" + t.Bytes.String() + ":" + strings.Join(t.Conds, "&")
			c.check(okv && (ve == end || ve == end+"+1"), "V3", "uri-in-value-open:"+key, t.AtPos, "a transition that closes the URI at "+end+" extends V to the same end or one past it (closing bracket); V.Extend("+ve+")")
		}
	}
	c.check(m >= 2, "V3", "uri-closings", token.NoPos, fmt.Sprintf("%d non-exit transitions that close the URI checked (frozen minimum 2)", m))
	c.check(n >= 15, "V3", "exits", token.NoPos, fmt.Sprintf("%d extent pairs on completing exits checked (frozen minimum 15)", n))
	// the tag lies inside the parameters: Tag.Set only in setFromParamVal with (vstart, vend)
	if fd := c.Decls["setFromParamVal"]; fd != nil {
		c.check(patIn(c.src(fd.Body), "@p.Tag.Set(@p.vstart, @p.vend)"), "V3", "tag-span", fd.Pos(), "the tag is the parameter value span (vstart, vend)")
	}
	// CSeq: number and method inside V
	rc := fsmOf(c, "ParseCSeqVal")
	if rc != nil && rc.head != nil {
		m := 0
		for _, t := range append(rc.grouped(rc.trans), rc.grouped(rc.post)...) {
			key := rc.name(t.From) + ":" + t.Bytes.String()
			if a, ok := argOf(t, "CSeq.Set("); ok {
				m++
				v, okv := argOf(t, "V.Set(")
				c.check(okv && v == a, "V3", "cseq-number:"+key, t.RetPos, "the CSeq number span starts the whole value V ("+a+")")
			}
			if a, ok := argOf(t, "Method.Set("); ok {
				m++
				end := a[strings.LastIndex(a, ",")+1:]
				v, okv := argOf(t, "V.Extend(")
				c.check(okv && v == end, "V3", "cseq-method:"+key, t.RetPos, "the method span ends the whole value V ("+end+")")
			}
		}
		c.check(m >= 3, "V3", "cseq-sites", token.NoPos, fmt.Sprintf("%d CSeq extent pairs checked", m))
	}
}

// V4: a running per-header extent restarts per header. A list parser that keeps a running extent (a PField of the
// list object that it restarts from the element just parsed and otherwise extends; it is what the header-line
// parser copies into Hdr.Val) must decide "restart" from header-scoped state: the branch that selects the restart
// store tests a counter of the same object that the header-line parser advances when it enters a new header.
// Deciding it from the per-message value counter alone makes the value of a second header of the same type span
// back to the first one.
func ruleV4(c *Ctx) {
	// header counters: int fields of a struct T incremented by a function other than T's own value parsers
	type fld struct {
		t string
		i int
	}
	incBy := map[fld][]*ssa.Function{}
	var names []string
	for k := range c.SFuncs {
		names = append(names, k)
	}
	sort.Strings(names)
	structOf := func(v ssa.Value) (string, bool) {
		pt, ok := v.Type().Underlying().(*types.Pointer)
		if !ok {
			return "", false
		}
		nt, ok := pt.Elem().(*types.Named)
		if !ok {
			return "", false
		}
		if _, ok := nt.Underlying().(*types.Struct); !ok {
			return "", false
		}
		return nt.Obj().Name(), true
	}
	for _, k := range names {
		fn := c.SFuncs[k]
		for _, b := range fn.Blocks {
			for _, ins := range b.Instrs {
				st, ok := ins.(*ssa.Store)
				if !ok {
					continue
				}
				fa, ok := st.Addr.(*ssa.FieldAddr)
				if !ok {
					continue
				}
				bo, ok := st.Val.(*ssa.BinOp)
				if !ok || bo.Op != token.ADD {
					continue
				}
				ld, ok := bo.X.(*ssa.UnOp)
				one, isC := constIntOf(bo.Y)
				if !ok || !isC || one != 1 || ld.Op != token.MUL {
					continue
				}
				if fa2, ok := ld.X.(*ssa.FieldAddr); ok && fa2.Field == fa.Field && sameAddr(fa2.X, fa.X) {
					if tn, ok := structOf(fa.X); ok {
						incBy[fld{tn, fa.Field}] = append(incBy[fld{tn, fa.Field}], fn)
					}
				}
			}
		}
	}
	n := 0
	for _, k := range names {
		fn := c.SFuncs[k]
		var cds map[*ssa.BasicBlock][]ctrlDep
		for _, b := range fn.Blocks {
			for _, ins := range b.Instrs {
				st, ok := ins.(*ssa.Store)
				if !ok {
					continue
				}
				fa, ok := st.Addr.(*ssa.FieldAddr)
				if !ok || typeShort(st.Val.Type()) != "PField" {
					continue
				}
				if _, isParam := fa.X.(*ssa.Parameter); !isParam {
					continue
				}
				src, ok := st.Val.(*ssa.UnOp)
				if !ok || src.Op != token.MUL {
					continue
				}
				if sfa, ok := src.X.(*ssa.FieldAddr); !ok || sameAddr(sfa.X, fa.X) {
					continue // not copied from another object (the element just parsed)
				}
				tn, ok := structOf(fa.X)
				if !ok {
					continue
				}
				// running extent: the same field is extended on the other arm of the branch that selects this store
				if cds == nil {
					cds = controlDeps(fn)
				}
				extended := false
				for _, b2 := range fn.Blocks {
					for _, i2 := range b2.Instrs {
						if call, ok := i2.(*ssa.Call); ok && len(call.Call.Args) > 0 {
							if cal := call.Call.StaticCallee(); cal != nil && cal.Name() == "Extend" {
								if r, ok := call.Call.Args[0].(*ssa.FieldAddr); ok && r.Field == fa.Field && sameAddr(r.X, fa.X) {
									for _, d1 := range cds[b] {
										for _, d2 := range cds[b2] {
											if d1.branch == d2.branch && d1.idx != d2.idx {
												extended = true
											}
										}
									}
								}
							}
						}
					}
				}
				if !extended {
					continue
				}
				// header counters of this object advanced elsewhere
				var counters []int
				for f2, fns := range incBy {
					if f2.t != tn {
						continue
					}
					for _, g := range fns {
						if g != fn {
							counters = append(counters, f2.i)
							break
						}
					}
				}
				sort.Ints(counters)
				n++
				key := k + ":" + fieldCell(fa) + ":restart"
				if len(counters) == 0 {
					c.fail("V4", key, st.Pos(), "no header counter found: no other function advances an int field of "+tn)
					continue
				}
				if cds == nil {
					cds = controlDeps(fn)
				}
				// transitive control dependence of the store's block
				seen := map[*ssa.BasicBlock]bool{}
				work := []*ssa.BasicBlock{b}
				tested := false
				for len(work) > 0 {
					x := work[0]
					work = work[1:]
					for _, cd := range cds[x] {
						if seen[cd.branch] {
							continue
						}
						seen[cd.branch] = true
						work = append(work, cd.branch)
						iff := cd.branch.Instrs[len(cd.branch.Instrs)-1].(*ssa.If)
						var ops []*ssa.Value
						if ci, ok := iff.Cond.(ssa.Instruction); ok {
							ops = ci.Operands(ops)
						}
						for _, o := range ops {
							if ld, ok := (*o).(*ssa.UnOp); ok && ld.Op == token.MUL {
								if cfa, ok := ld.X.(*ssa.FieldAddr); ok && sameAddr(cfa.X, fa.X) {
									for _, ci := range counters {
										if cfa.Field == ci {
											tested = true
										}
									}
								}
							}
						}
					}
				}
				// the restart is taken for EVERY new header: the test marker != counter is not itself guarded by the
				// value counter being zero (`N == 0 && marker != counter` would restart for the first header only),
				// and the restart records the header it was made for (marker = counter), else every later value
				// of the same header would restart again
				if tested {
					markerOK, guardOK, foundTest := false, true, false
					for _, i2 := range b.Instrs {
						if st2, ok := i2.(*ssa.Store); ok {
							if fa2, ok := st2.Addr.(*ssa.FieldAddr); ok && sameAddr(fa2.X, fa.X) {
								if ld, ok := st2.Val.(*ssa.UnOp); ok && ld.Op == token.MUL {
									if cfa, ok := ld.X.(*ssa.FieldAddr); ok && sameAddr(cfa.X, fa.X) {
										for _, ci := range counters {
											if cfa.Field == ci && fa2.Field != ci {
												markerOK = true
											}
										}
									}
								}
							}
						}
					}
					for tb := range seen {
						iff := tb.Instrs[len(tb.Instrs)-1].(*ssa.If)
						bo, ok := iff.Cond.(*ssa.BinOp)
						if !ok {
							continue
						}
						readsCounter := false
						for _, o := range []ssa.Value{bo.X, bo.Y} {
							if ld, ok := o.(*ssa.UnOp); ok && ld.Op == token.MUL {
								if cfa, ok := ld.X.(*ssa.FieldAddr); ok && sameAddr(cfa.X, fa.X) {
									for _, ci := range counters {
										if cfa.Field == ci {
											readsCounter = true
										}
									}
								}
							}
						}
						if !readsCounter {
							continue
						}
						foundTest = true
						// what selects the header test itself?
						for _, cd := range cds[tb] {
							i3 := cd.branch.Instrs[len(cd.branch.Instrs)-1].(*ssa.If)
							if b3, ok := i3.Cond.(*ssa.BinOp); ok && b3.Op == token.EQL {
								if k, isC := constIntOf(b3.Y); isC && k == 0 && cd.idx == 0 {
									guardOK = false // reached only when some count == 0
								}
							}
						}
					}
					c.check(markerOK && guardOK && foundTest, "V4", key+":every-header", st.Pos(), fmt.Sprintf("the header-counter test is reached whatever the value count is (not only when it is 0: %v) and the restart records the header it was made for (marker = counter stored with it: %v)", guardOK, markerOK))
				}
				c.check(tested, "V4", key, st.Pos(), "the running extent "+fieldCell(fa)+" (restarted here from the element just parsed, extended otherwise) restarts under a test of the object's header counter — the field the header-line parser advances on entering a new header — not of the per-message value count alone")
			}
		}
	}
	c.check(n >= 2, "V4", "extents", token.NoPos, fmt.Sprintf("%d running per-header extents found (frozen minimum 2)", n))
}

// fsmIndexName: source name of the scan index of an extracted automaton (the loop-head phi compared with len(buf)).
func fsmIndexName(r *fsmResult) string {
	if r == nil || r.head == nil {
		return ""
	}
	iff, ok := r.head.Instrs[len(r.head.Instrs)-1].(*ssa.If)
	if !ok {
		return ""
	}
	bo, ok := iff.Cond.(*ssa.BinOp)
	if !ok {
		return ""
	}
	for _, v := range []ssa.Value{bo.X, bo.Y} {
		if ph, ok := v.(*ssa.Phi); ok && ph.Block() == r.head {
			return phiName(ph)
		}
	}
	return ""
}

// V5: trimming survives a suspension. A state that a more-bytes exit leaves in the object together with an offset
// the whitespace skipper already advanced ("resume after the blanks seen so far") is re-entered with the scan index
// past trailing blanks; in such a state no transition taken on a whitespace byte (or at buffer end) may close a span at the bare scan index (X.Extend(i),
// X.Set(a, i), *end = i): the blanks skipped before the suspension would become part of the value.
func ruleV5(c *Ctx) {
	nStates, nTrans := 0, 0
	for _, fn := range []string{"ParseNameAddrPVal", "ParseCSeqVal", "ParseCallIDVal", "ParseUIntVal", "ParseTokenParam"} {
		r := fsmOf(c, fn)
		if r == nil || r.head == nil || r.capped {
			c.fail("V5", fn+":fsm", token.NoPos, "state machine could not be extracted")
			continue
		}
		idx := fsmIndexName(r)
		if idx == "" {
			c.fail("V5", fn+":index", token.NoPos, "scan index not identified")
			continue
		}
		mb, _ := c.namedConstInt("ErrHdrMoreBytes")
		all := append(r.grouped(r.trans), r.grouped(r.post)...)
		adv := map[int64]token.Pos{}
		for _, t := range all {
			if t.Exit == "return" && t.Verd.has(mb) && strings.Contains(t.RetOffs, "()#0") && t.To >= 0 {
				adv[t.To] = t.RetPos
			}
		}
		var states []int64
		for k := range adv {
			states = append(states, k)
		}
		sort.Slice(states, func(i, j int) bool { return states[i] < states[j] })
		bare := "+" + idx
		for _, st := range states {
			nStates++
			var bad []string
			pos := adv[st]
			for _, t := range all {
				if t.From != st {
					continue
				}
				// only where the index can differ between a one-shot and a resumed parse: on a whitespace byte
				// (one-shot: always the first blank of the run; resumed: possibly a later one) or with the buffer
				// exhausted. On any other byte the index is that byte's position in both.
				if t.Bytes != nil && !(t.Bytes.has(' ') || t.Bytes.has('\t') || t.Bytes.has('\r') || t.Bytes.has('\n')) {
					continue
				}
				nTrans++
				for _, cl := range t.Calls {
					op := strings.Index(cl, "(")
					if op < 0 || !strings.HasSuffix(cl, ")") {
						continue
					}
					name, args := cl[:op], strings.Split(cl[op+1:len(cl)-1], ",")
					if (strings.HasSuffix(name, ".Extend") || strings.HasSuffix(name, ".Set")) && strings.TrimSpace(args[len(args)-1]) == bare && !(len(args) == 2 && strings.TrimSpace(args[0]) == bare) {
						bad = append(bad, t.Bytes.String()+": "+cl)
						pos = t.AtPos
						if !pos.IsValid() {
							pos = t.RetPos
						}
					}
				}
				for _, sto := range t.Stores {
					if eq := strings.Index(sto, "="); eq > 0 && strings.HasSuffix(strings.ToLower(sto[:eq]), "end") && sto[eq+1:] == bare {
						bad = append(bad, t.Bytes.String()+": "+sto)
						pos = t.AtPos
					}
				}
			}
			sort.Strings(bad)
			if len(bad) > 3 {
				bad = bad[:3]
			}
			c.check(len(bad) == 0, "V5", fn+":"+r.name(st)+":no-span-end-at-resumed-index", pos, fmt.Sprintf("state %s can be resumed with the scan index %s already past trailing whitespace (a more-bytes exit returns the skipper's offset); no transition from it closes a span at the bare index %v", r.name(st), idx, bad))
		}
	}
	c.check(nStates >= 15, "V5", "states", token.NoPos, fmt.Sprintf("%d advance-on-suspend states, %d transitions from them inspected (frozen minimum 15 states)", nStates, nTrans))
}


// V7: saved-end pairing. A "blank after X" state closes the span of X, when the value ends there, at an end that was
// saved before the blanks (X.Extend(obj.cell)). The cell read when leaving such a state must be the one every entry to
// the state wrote: reading the sibling cell (the name end in the after-value state) closes Params and V at a stale
// position, so the tag or the last parameter value falls outside the value.
var savedCellArg = regexp.MustCompile(`^\+[A-Za-z_]\w*\.(?:\w+\.)*(\w+)$`)

func ruleV7(c *Ctx) {
	n := 0
	for _, fn := range []string{"ParseNameAddrPVal", "ParseCSeqVal", "ParseCallIDVal", "ParseUIntVal", "ParseTokenParam", "ParseURI"} {
		r := fsmOf(c, fn)
		if r == nil || r.head == nil || r.capped {
			c.fail("V7", fn+":fsm", token.NoPos, "state machine could not be extracted")
			continue
		}
		all := append(r.grouped(r.trans), r.grouped(r.post)...)
		type use struct {
			st   int64
			cell string
		}
		uses := map[use]token.Pos{}
		for _, t := range all {
			for _, cl := range t.Calls {
				op := strings.Index(cl, "(")
				if op < 0 || !strings.HasSuffix(cl, ")") || !(strings.HasSuffix(cl[:op], ".Extend") || strings.HasSuffix(cl[:op], ".Set")) {
					continue
				}
				as := strings.Split(cl[op+1:len(cl)-1], ",")
				for _, a := range as[len(as)-1:] { // the end argument only
					if m := savedCellArg.FindStringSubmatch(strings.TrimSpace(a)); m != nil && m[1] != "Offs" && m[1] != "Len" {
						pos := t.AtPos
						if !pos.IsValid() {
							pos = t.RetPos
						}
						uses[use{t.From, m[1]}] = pos
					}
				}
			}
		}
		var us []use
		for u := range uses {
			us = append(us, u)
		}
		sort.Slice(us, func(i, j int) bool {
			if us[i].st != us[j].st {
				return us[i].st < us[j].st
			}
			return us[i].cell < us[j].cell
		})
		for _, u := range us {
			var bad []string
			entries := 0
			for _, t := range all {
				if t.To != u.st || t.From == u.st {
					continue
				}
				entries++
				wrote := false
				for _, sto := range t.Stores {
					if eq := strings.Index(sto, "="); eq > 0 && (sto[:eq] == u.cell || strings.HasSuffix(sto[:eq], "."+u.cell)) {
						wrote = true
					}
				}
				if !wrote {
					bad = append(bad, r.name(t.From)+" on "+t.Bytes.String())
				}
			}
			sort.Strings(bad)
			if len(bad) > 3 {
				bad = bad[:3]
			}
			n++
			c.check(len(bad) == 0 && entries > 0, "V7", fn+":"+r.name(u.st)+":"+u.cell, uses[u], fmt.Sprintf("state %s closes a span at the saved end %s; each of the %d transitions entering the state stores that cell (entries that do not: %v)", r.name(u.st), u.cell, entries, bad))
		}
	}
	c.check(n >= 4, "V7", "instances", token.NoPos, fmt.Sprintf("%d (state, saved end) pairs (frozen minimum 4)", n))
}

// V1: framing views (shared with C06).
func ruleV1(c *Ctx) {
	t := &Ctx{Prog: c.Prog, Prop: c.Prop}
	ruleF1(t)
	ruleF4(t)
	var keys []string
	for _, o := range t.obls {
		// V1 is read off F1's path table: a path F1 could not decide (unknown predicate, unexpected row) leaves the
		// views of that path undecided too, and undecided fails
		if o.Rule == "V1" || strings.Contains(o.Key, "msg.offs") || (o.Status == "fail" && o.Rule == "F1") {
			o.Key = "V1:" + strings.TrimPrefix(strings.TrimPrefix(o.Key, "V1:"), "F4:")
			o.Rule = "V1"
			c.obls = append(c.obls, o)
			keys = append(keys, o.Key)
		}
	}
	sort.Strings(keys)
	c.expectMin("V1", 12)
}

// V6: every completed Contact / P-Asserted-Identity value updates the running per-header extent (shared with the
// must-pass analysis of C13-K3): no completion path skips the restart-or-extend of LastHVal, which ParseHdrLine
// copies into Hdr.Val.
func ruleV6(c *Ctx) {
	t := &Ctx{Prog: c.Prog, Prop: c.Prop}
	ruleK3path(t, "V6", "ParseAllContactValues ParseAllPAIValues")
	for _, o := range t.obls {
		if strings.Contains(o.Key, "LastHVal") {
			c.obls = append(c.obls, o)
		}
	}
	c.expectMin("V6", 2)
}

func init() {
	register(&PropDef{
		ID: "C05",
		Rules: []Rule{
			{"V1", "framing views are the returned offset: on every definitive return of ParseSIPMsg the body starts where the headers ended and is extended to the returned offset, Buf = buf[0:ret], RawMsg = Buf[msg.offs:ret]; msg.offs is stored once, in state Init, from the offs parameter", ruleV1},
			{"V2", "Hdr.Val comes from the value object of the same header: the 8 typed branches of the first call and the 8 resume cases of ParseHdrLine use the same getter, the same parser and copy the same value field, which belongs to the object passed to the parser", ruleV2},
			{"V4", "a running per-header extent (LastHVal of the Contact / P-Asserted-Identity lists: restarted from the element just parsed, extended otherwise, copied into Hdr.Val) restarts under a test of the header counter that the header-line parser advances on a new header, so the value of a repeated header never spans back to the previous header of that type", ruleV4},
			{"V6", "every completion path of ParseAllContactValues / ParseAllPAIValues (verdict 0 or more-values) passes the restart-or-extend of LastHVal before the next value / the return (SSA must-pass), so Hdr.Val of the header always covers the value just completed", ruleV6},
			{"V5", "trimming survives a suspension: in every state of the 5 extracted automata that a more-bytes exit persists together with an offset already advanced by the whitespace skipper, no transition taken on a whitespace byte or at buffer end closes a span at the bare scan index (Extend(i) / Set(a,i) / *end=i) — after a resume the index is past the trailing blanks and they would become part of the value", ruleV5},
			{"V7", "saved-end pairing in the extracted automata: a state that closes a span at an end saved in the object before trailing blanks (X.Extend(obj.cell) / X.Set(a, obj.cell)) reads the cell that every transition entering the state stored, not a sibling saved end", ruleV7},
			{"V8", "the extents of generic header names and values (Hdr.Name, Hdr.Val: where they are opened, extended and closed, per state and byte class) are those of the reviewed ParseHdrLine automaton (ref/ParseHdrLine.txt, shared with C07-T8): a new way of finding the value end shows up as rows that are not in the table", func(c *Ctx) { fsmRefRule(c, "V8", "ParseHdrLine") }},
			{"V3", "nesting by sibling agreement on the completing exits of the extracted automata: an exit that extends Params (or closes the URI) extends the whole value V to the same end; the tag is the parameter value span; the CSeq number starts V and the method ends it", ruleV3},
		},
		Assumptions: []string{"field end arguments are positions <= len(buf) (C04-P2)"},
		NotDecided:  "containment, ordering and non-overlap of fields and trimming as values",
	})
}
