package main

import (
	"golang.org/x/tools/go/ssa"
)

// Post-dominators and control dependence on the SSA CFG.

type pdomInfo struct {
	fn    *ssa.Function
	ipdom map[*ssa.BasicBlock]*ssa.BasicBlock // immediate post-dominator (nil = virtual exit)
	order []*ssa.BasicBlock
}

// computePostDom: iterative post-dominator sets (functions are small).
func computePostDom(fn *ssa.Function) map[*ssa.BasicBlock]map[*ssa.BasicBlock]bool {
	all := map[*ssa.BasicBlock]bool{}
	for _, b := range fn.Blocks {
		all[b] = true
	}
	pd := map[*ssa.BasicBlock]map[*ssa.BasicBlock]bool{}
	for _, b := range fn.Blocks {
		if len(b.Succs) == 0 {
			pd[b] = map[*ssa.BasicBlock]bool{b: true}
		} else {
			m := map[*ssa.BasicBlock]bool{}
			for k := range all {
				m[k] = true
			}
			pd[b] = m
		}
	}
	changed := true
	for changed {
		changed = false
		for i := len(fn.Blocks) - 1; i >= 0; i-- {
			b := fn.Blocks[i]
			if len(b.Succs) == 0 {
				continue
			}
			var inter map[*ssa.BasicBlock]bool
			for _, s := range b.Succs {
				if inter == nil {
					inter = map[*ssa.BasicBlock]bool{}
					for k := range pd[s] {
						inter[k] = true
					}
				} else {
					for k := range inter {
						if !pd[s][k] {
							delete(inter, k)
						}
					}
				}
			}
			inter[b] = true
			if len(inter) != len(pd[b]) {
				pd[b] = inter
				changed = true
			}
		}
	}
	return pd
}

type ctrlDep struct {
	branch *ssa.BasicBlock // block ending in the If
	idx    int             // successor index taken
}

// controlDeps: block B is control dependent on edge (D -> D.Succs[i]) iff B post-dominates that
// successor (or is it) and B does not strictly post-dominate D.
func controlDeps(fn *ssa.Function) map[*ssa.BasicBlock][]ctrlDep {
	pd := computePostDom(fn)
	out := map[*ssa.BasicBlock][]ctrlDep{}
	for _, d := range fn.Blocks {
		if _, ok := d.Instrs[len(d.Instrs)-1].(*ssa.If); !ok || len(d.Succs) != 2 {
			continue
		}
		for i, s := range d.Succs {
			for _, b := range fn.Blocks {
				if pd[s][b] && !(pd[d][b] && b != d) {
					out[b] = append(out[b], ctrlDep{d, i})
				}
			}
		}
	}
	return out
}
