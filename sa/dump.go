package main

import (
	"fmt"
	"sort"

	"golang.org/x/tools/go/ssa"
)

// dumpErrSets prints the verdict sets (debug aid: `sipsp-sa errsets`).
func dumpErrSets(repo string) {
	p, err := loadProg(repo, "debug")
	if err != nil {
		fmt.Println(err)
		return
	}
	e := newErrAnalysis(p)
	var ks []string
	for k := range p.SFuncs {
		ks = append(ks, k)
	}
	sort.Strings(ks)
	for _, k := range ks {
		f := p.SFuncs[k]
		i := errResultIndex(f)
		if i < 0 {
			continue
		}
		tn := isErrType(f.Signature.Results().At(i).Type())
		fmt.Printf("%-28s %s\n", k, e.setName(tn, e.ret[f][i]))
	}
}

// dumpFSM prints the extracted table of one automaton (debug aid: `sipsp-sa fsm <func>`).
func dumpFSM(repo, fnName string) {
	p, err := loadProg(repo, "debug")
	if err != nil {
		fmt.Println(err)
		return
	}
	c := &Ctx{Prog: p}
	e := newErrAnalysis(p)
	spec, ok := fsmSpecFor(c, fnName)
	if !ok {
		fmt.Println("no spec for", fnName)
		return
	}
	res := extractFSM(c, e, spec)
	fmt.Printf("%s: %d states, %d transitions, %d post paths, %d steps capped=%v\n", fnName, len(res.states), len(res.trans), len(res.post), res.steps, res.capped)
	for _, t := range res.grouped(res.trans) {
		to := res.name(t.To)
		if t.Exit != "" {
			to = "RETURN " + e.setName(errTypeOf(spec.fn), t.Verd) + " offs=" + t.RetOffs + " (state " + res.name(t.To) + ")"
		}
		fmt.Printf("  %-22s %-28s -> %-40s calls=%v conds=%v locals=%v stores=%v\n", res.name(t.From), t.Bytes.String(), to, t.Calls, t.Conds, t.Locals, t.Stores)
	}
	fmt.Println("POST (buffer exhausted):")
	for _, t := range res.grouped(res.post) {
		fmt.Printf("  %-22s -> RETURN %s (state %s) calls=%v conds=%v\n", res.name(t.From), e.setName(errTypeOf(spec.fn), t.Verd), res.name(t.To), t.Calls, t.Conds)
	}
}

func errTypeOf(f interface{ String() string }) string { return "ErrorHdr" }

// dumpLoopPhis lists the loop-head phis of every streaming function (debug aid).
func dumpLoopPhis(repo string) {
	p, err := loadProg(repo, "debug")
	if err != nil {
		fmt.Println(err)
		return
	}
	c := &Ctx{Prog: p}
	e := newErrAnalysis(p)
	for _, f := range streamingFuncs(c, e) {
		head, _ := mainLoop(f)
		if head == nil {
			fmt.Printf("%-24s (no main loop)\n", ssaKey(f))
			continue
		}
		var ps []string
		for _, ins := range head.Instrs {
			if ph, ok := ins.(*ssa.Phi); ok {
				carried := false
				for i, ed := range ph.Edges {
					if head.Dominates(head.Preds[i]) && ed != ssa.Value(ph) {
						carried = true
					}
				}
				ps = append(ps, fmt.Sprintf("%s(carried=%v)", ph.Comment, carried))
			}
		}
		fmt.Printf("%-24s %v\n", ssaKey(f), ps)
	}
}

func dumpHdrLineFSM(repo string) {
	p, _ := loadProg(repo, "debug")
	c := &Ctx{Prog: p}
	e := newErrAnalysis(p)
	f := c.SFuncs["ParseHdrLine"]
	sp := fsmSpec{fn: f, stateFld: "state", constName: stateConstsOf(c, "ParseHdrLine", "h")}
	for k, v := range sp.constName {
		if len(v) < 2 || !(v[1] >= 'A' && v[1] <= 'Z') {
			delete(sp.constName, k)
		}
	}
	r := extractFSM(c, e, sp)
	for _, t := range r.grouped(append(r.trans, r.post...)) {
		if t.Exit == "return" && r.name(t.To) == "hFIN" && t.Verd.has(3) {
			fmt.Printf("%s %s -> %s verd=%s calls=%v conds=%v\n", r.name(t.From), t.Bytes.String(), r.name(t.To), e.setName("ErrorHdr", t.Verd), t.Calls, t.Conds)
		}
	}
}
