package main

import (
	"fmt"
	"sort"
)

// dumpErrSets prints the verdict sets (debug aid: `sipsp-sa errsets`).
func dumpErrSets(repo string) {
	p, err := loadProg(repo, "debug")
	if err != nil {
		fmt.Println(err)
		return
	}
	e := newErrAnalysis(p)
	var ks []string
	for k := range p.SFuncs {
		ks = append(ks, k)
	}
	sort.Strings(ks)
	for _, k := range ks {
		f := p.SFuncs[k]
		i := errResultIndex(f)
		if i < 0 {
			continue
		}
		tn := isErrType(f.Signature.Results().At(i).Type())
		fmt.Printf("%-28s %s\n", k, e.setName(tn, e.ret[f][i]))
	}
}
