package main

import (
	"fmt"
	"sort"
)

// dumpErrSets prints the verdict sets (debug aid: `sipsp-sa errsets`).
func dumpErrSets(repo string) {
	p, err := loadProg(repo, "debug")
	if err != nil {
		fmt.Println(err)
		return
	}
	e := newErrAnalysis(p)
	var ks []string
	for k := range p.SFuncs {
		ks = append(ks, k)
	}
	sort.Strings(ks)
	for _, k := range ks {
		f := p.SFuncs[k]
		i := errResultIndex(f)
		if i < 0 {
			continue
		}
		tn := isErrType(f.Signature.Results().At(i).Type())
		fmt.Printf("%-28s %s\n", k, e.setName(tn, e.ret[f][i]))
	}
}

// dumpFSM prints the extracted table of one automaton (debug aid: `sipsp-sa fsm <func>`).
func dumpFSM(repo, fnName string) {
	p, err := loadProg(repo, "debug")
	if err != nil {
		fmt.Println(err)
		return
	}
	c := &Ctx{Prog: p}
	e := newErrAnalysis(p)
	spec, ok := fsmSpecFor(c, fnName)
	if !ok {
		fmt.Println("no spec for", fnName)
		return
	}
	res := extractFSM(c, e, spec)
	fmt.Printf("%s: %d states, %d transitions, %d post paths, %d steps capped=%v\n", fnName, len(res.states), len(res.trans), len(res.post), res.steps, res.capped)
	for _, t := range res.grouped(res.trans) {
		to := res.name(t.To)
		if t.Exit != "" {
			to = "RETURN " + e.setName(errTypeOf(spec.fn), t.Verd) + " offs=" + t.RetOffs + " (state " + res.name(t.To) + ")"
		}
		fmt.Printf("  %-22s %-28s -> %-40s calls=%v conds=%v locals=%v stores=%v\n", res.name(t.From), t.Bytes.String(), to, t.Calls, t.Conds, t.Locals, t.Stores)
	}
	fmt.Println("POST (buffer exhausted):")
	for _, t := range res.grouped(res.post) {
		fmt.Printf("  %-22s -> RETURN %s (state %s) calls=%v conds=%v\n", res.name(t.From), e.setName(errTypeOf(spec.fn), t.Verd), res.name(t.To), t.Calls, t.Conds)
	}
}

func errTypeOf(f interface{ String() string }) string { return "ErrorHdr" }
