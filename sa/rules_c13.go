package main

import (
	"fmt"
	"go/ast"
	"go/token"
	"go/types"
	"sort"
	"strings"

	"golang.org/x/tools/go/ssa"
)

// slotSite: the idiom  if x.N < len(x.S) { p = &x.S[x.N] } else { p = &x.scratch }  followed by a sub-parser call on p.
type slotSite struct {
	fn      *ssa.Function
	p       *ssa.Phi
	elem    *ssa.IndexAddr
	scratch *ssa.FieldAddr
	call    *ssa.Call // sub-parser call on p
	errv    ssa.Value // its verdict
}

func derivesFrom(v, root ssa.Value) bool {
	for i := 0; i < 6; i++ {
		if v == root {
			return true
		}
		switch a := v.(type) {
		case *ssa.FieldAddr:
			v = a.X
		case *ssa.ChangeType:
			v = a.X
		case *ssa.Convert:
			v = a.X
		default:
			return false
		}
	}
	return false
}

func findSlotSites(c *Ctx) []slotSite {
	var out []slotSite
	var keys []string
	for k := range c.SFuncs {
		keys = append(keys, k)
	}
	sort.Strings(keys)
	for _, k := range keys {
		fn := c.SFuncs[k]
		for _, b := range fn.Blocks {
			for _, ins := range b.Instrs {
				p, ok := ins.(*ssa.Phi)
				if !ok {
					break
				}
				if _, isPtr := p.Type().Underlying().(*types.Pointer); !isPtr {
					continue
				}
				var el *ssa.IndexAddr
				var sc *ssa.FieldAddr
				okShape := true
				for _, e := range p.Edges {
					switch a := e.(type) {
					case *ssa.IndexAddr:
						el = a
					case *ssa.FieldAddr:
						sc = a
					case *ssa.Phi:
						if a != p {
							okShape = false
						}
					case *ssa.Const: // nil initial value of `var p *T`
					default:
						okShape = false
					}
				}
				if !okShape || el == nil || sc == nil || addrPath(sc) == "" {
					continue
				}
				s := slotSite{fn: fn, p: p, elem: el, scratch: sc}
				// first call on p dominated by p's block
				for _, b2 := range fn.Blocks {
					if !b.Dominates(b2) {
						continue
					}
					for _, i2 := range b2.Instrs {
						call, ok := i2.(*ssa.Call)
						if !ok || s.call != nil || call.Call.StaticCallee() == nil || errResultIndex(call.Call.StaticCallee()) < 0 {
							continue
						}
						for _, a := range call.Call.Args {
							if derivesFrom(a, p) {
								s.call = call
							}
						}
					}
				}
				if s.call == nil {
					continue
				}
				ei := errResultIndex(s.call.Call.StaticCallee())
				for _, r := range *s.call.Referrers() {
					if ex, ok := r.(*ssa.Extract); ok && ex.Index == ei {
						s.errv = ex
					}
				}
				if s.errv != nil {
					out = append(out, s)
				}
			}
		}
	}
	return out
}

func (s slotSite) isScratchAddr(v ssa.Value) bool {
	return derivesFrom(v, s.p) || sameAddrDeep(v, s.scratch)
}

func sameAddrDeep(a, b ssa.Value) bool {
	for i := 0; i < 4; i++ {
		if sameAddr(a, b) {
			return true
		}
		switch x := a.(type) {
		case *ssa.ChangeType:
			a = x.X
		case *ssa.FieldAddr:
			// a field of the scratch slot is not the slot itself
			return false
		default:
			return false
		}
	}
	return false
}

func (s slotSite) isResetCall(ins ssa.Instruction) bool {
	call, ok := ins.(*ssa.Call)
	if !ok || call.Call.StaticCallee() == nil || call.Call.StaticCallee().Name() != "Reset" || len(call.Call.Args) != 1 {
		return false
	}
	a := call.Call.Args[0]
	if ct, ok := a.(*ssa.ChangeType); ok {
		a = ct.X
	}
	return a == ssa.Value(s.p) || sameAddr(a, s.scratch)
}

func vsetToByteSet(s VSet) *ByteSet {
	bs := emptySet()
	for i := 0; i < 64; i++ {
		if s.has(int64(i)) {
			bs.b.SetBit(&bs.b, i, 1)
		}
	}
	return bs
}

func byteSetToVSet(bs *ByteSet) VSet {
	var r VSet
	for i := 0; i < 64; i++ {
		if bs.has(i) {
			r |= 1 << uint(i)
		}
	}
	return r
}

// K2: typestate of the scratch slot.
func ruleK2(c *Ctx) {
	e := newErrAnalysis(c.Prog)
	sites := findSlotSites(c)
	mb, _ := c.namedConstInt("ErrHdrMoreBytes")
	c.check(len(sites) >= 5, "K2", "sites", token.NoPos, fmt.Sprintf("%d slot-selection sites found (frozen minimum 5)", len(sites)))
	for _, s := range sites {
		fk := ssaKey(s.fn)
		scratch := addrPath(s.scratch)
		// (a) guard and index use the same counter
		le := newLinEnv(linOpts{pathLoads: true})
		idx := le.pretty(le.norm(s.elem.Index))
		var guardOK bool
		for _, b := range s.fn.Blocks {
			iff, ok := b.Instrs[len(b.Instrs)-1].(*ssa.If)
			if !ok {
				continue
			}
			if s.elem.Block() == b.Succs[0] || (len(b.Succs[0].Succs) > 0 && b.Succs[0] == s.elem.Block()) {
				for _, f := range le.condFacts(iff.Cond, true) {
					goal := le.norm(s.elem.Index).add(lenLinFor(le, s.elem.X), -1).add(linConst(1), 1)
					if ok, _ := entails([]Fact{f}, goal); ok {
						guardOK = true
					}
				}
			}
		}
		c.check(guardOK, "K2", fk+":idiom", s.p.Pos(), fmt.Sprintf("slot idiom: element [%s] is selected under %s < len(array), otherwise the scratch slot %s", idx, idx, scratch))
		// lazy-entry idiom: a Reset of the scratch before the call, guarded by scratch.Parsed()
		lazy := false
		preOK := true
		for _, b := range s.fn.Blocks {
			for _, ins := range b.Instrs {
				if !s.isResetCall(ins) {
					continue
				}
				if s.call.Block().Dominates(b) && !(b == s.call.Block() && before(ins, s.call)) {
					continue // after the sub-parser call
				}
				// pre-call reset: must be dominated by the true edge of scratch.Parsed()
				guarded := false
				for cur := b; cur != nil; cur = cur.Idom() {
					d := cur.Idom()
					if d == nil {
						break
					}
					iff, ok := d.Instrs[len(d.Instrs)-1].(*ssa.If)
					if !ok || len(cur.Preds) != 1 || d.Succs[0] != cur {
						continue
					}
					if pc, ok := iff.Cond.(*ssa.Call); ok && pc.Call.StaticCallee() != nil && pc.Call.StaticCallee().Name() == "Parsed" && sameAddr(pc.Call.Args[0], s.scratch) {
						guarded = true
					}
				}
				if guarded {
					lazy = true
				} else {
					preOK = false
					c.fail("K2", fk+":pre-call-reset", ins.Pos(), "the scratch slot "+scratch+" is reset before the sub-parser runs without testing that it holds a finished element: a suspended element would be lost on resume")
				}
			}
		}
		if preOK {
			c.ok("K2", fk+":pre-call-reset", s.call.Pos(), "no unguarded reset of "+scratch+" between entry/loop head and the sub-parser call")
		}
		// path exploration from the call
		type node struct {
			b     *ssa.BasicBlock
			vs    VSet
			reset bool
		}
		seen := map[node]bool{}
		var contBad, retMBBad, retOKNoReset []token.Pos
		nCont, nRetMB, nRetOK := 0, 0, 0
		var walk func(b *ssa.BasicBlock, start int, vs VSet, reset bool)
		walk = func(b *ssa.BasicBlock, start int, vs VSet, reset bool) {
			if start == 0 {
				k := node{b, vs, reset}
				if seen[k] {
					return
				}
				seen[k] = true
			}
			for i := start; i < len(b.Instrs); i++ {
				ins := b.Instrs[i]
				if ins == ssa.Instruction(s.call) && !(start > 0 && i == start-1) {
					// next element: the scratch slot must be clean again
					nCont++
					if !reset {
						contBad = append(contBad, s.call.Pos())
					}
					return
				}
				if s.isResetCall(ins) {
					reset = true
				}
				switch t := ins.(type) {
				case *ssa.Return:
					if vs.has(mb) {
						nRetMB++
						if reset {
							retMBBad = append(retMBBad, t.Pos())
						}
					}
					if vs.has(0) {
						nRetOK++
						if !reset {
							retOKNoReset = append(retOKNoReset, t.Pos())
						}
					}
					return
				case *ssa.If:
					for si, succ := range b.Succs {
						nvs := vs
						// verdict refinement
						nvs = byteSetToVSet(refineByCond(vsetToByteSet(vs), t.Cond, si == 0, func(o ssa.Value) bool { return o == s.errv }))
						if nvs == 0 {
							continue
						}
						// explore only the "p is the scratch slot" side of p == &scratch tests
						if bo, ok := t.Cond.(*ssa.BinOp); ok && (bo.Op == token.EQL || bo.Op == token.NEQ) {
							if (bo.X == ssa.Value(s.p) && sameAddr(bo.Y, s.scratch)) || (bo.Y == ssa.Value(s.p) && sameAddr(bo.X, s.scratch)) {
								if (bo.Op == token.EQL) != (si == 0) {
									continue
								}
							}
						}
						walk(succ, 0, nvs, reset)
					}
					return
				}
			}
			for _, succ := range b.Succs {
				walk(succ, 0, vs, reset)
			}
		}
		ei := errResultIndex(s.call.Call.StaticCallee())
		start := 0
		for i, ins := range s.call.Block().Instrs {
			if ins == ssa.Instruction(s.call) {
				start = i + 1
			}
		}
		walk(s.call.Block(), start, e.ret[s.call.Call.StaticCallee()][ei], false)
		c.check(len(contBad) == 0 && nCont > 0, "K2", fk+":clean-before-next", s.call.Pos(),
			fmt.Sprintf("on each of the %d paths that go on to the next element with the scratch slot in use, %s.Reset() has run (scratch == fresh)", nCont, scratch))
		c.check(len(retMBBad) == 0 && nRetMB > 0, "K2", fk+":keep-on-more-bytes", s.call.Pos(),
			fmt.Sprintf("on each of the %d more-bytes return paths the in-progress slot is not reset (the suspended element survives)", nRetMB))
		if len(retOKNoReset) > 0 {
			c.check(lazy, "K2", fk+":lazy-entry-reset", retOKNoReset[0], "a success return leaves the finished element in the scratch slot; the next entry resets it under "+scratch+".Parsed() before use")
		} else {
			c.ok("K2", fk+":eager-reset", s.call.Pos(), fmt.Sprintf("every success return (%d) has reset the scratch slot when it was in use", nRetOK))
		}
	}
}

func before(a, b ssa.Instruction) bool {
	for _, ins := range a.Block().Instrs {
		if ins == a {
			return true
		}
		if ins == b {
			return false
		}
	}
	return false
}

// capacity fields: slices (or fixed arrays) whose length the caller chooses
var capacityFields = map[string]bool{"HdrLst.Hdrs": true, "PContacts.Vals": true, "PPAIs.Vals": true, "URIParamsLst.Params": true, "URIHdrsLst.Hdrs": true}

// low outputs: summary fields that must not depend on the capacity
var lowFields = map[string]bool{"HdrLst.N": true, "HdrLst.PFlags": true, "HdrLst.h": true, "PContacts.N": true, "PContacts.HNo": true,
	"PContacts.MaxExpires": true, "PContacts.MinExpires": true, "PContacts.LastHVal": true, "PPAIs.N": true, "PPAIs.HNo": true, "PPAIs.LastHVal": true,
	"URIParamsLst.N": true, "URIParamsLst.Types": true, "URIHdrsLst.N": true, "URIParam.T": true}

// K1: no flow (explicit or implicit) from a caller-chosen capacity to a low output.
func ruleK1(c *Ctx) {
	sites := findSlotSites(c)
	for _, s := range sites {
		fn := s.fn
		fk := ssaKey(fn)
		cd := controlDeps(fn)
		tainted := map[ssa.Value]bool{}
		// seeds: len(<capacity field>) and the slot pointer itself
		for _, b := range fn.Blocks {
			for _, ins := range b.Instrs {
				call, ok := ins.(*ssa.Call)
				if !ok {
					continue
				}
				if bi, ok := call.Call.Value.(*ssa.Builtin); ok && bi.Name() == "len" {
					if u, ok := call.Call.Args[0].(*ssa.UnOp); ok {
						if fa, ok := u.X.(*ssa.FieldAddr); ok && capacityFields[fieldCell(fa)] {
							tainted[call] = true
						}
					}
				}
			}
		}
		nseeds := len(tainted)
		// array-typed capacity (PPAIs.Vals): the comparison N < 2 plays the role of the capacity test
		tainted[s.p] = true
		taintedBranch := map[*ssa.BasicBlock]bool{}
		changed := true
		for changed {
			changed = false
			mark := func(v ssa.Value) {
				if !tainted[v] {
					tainted[v] = true
					changed = true
				}
			}
			for _, b := range fn.Blocks {
				for _, ins := range b.Instrs {
					switch x := ins.(type) {
					case *ssa.BinOp:
						if tainted[x.X] || tainted[x.Y] {
							mark(x)
						}
					case *ssa.UnOp:
						if x.Op != token.MUL && tainted[x.X] {
							mark(x)
						}
					case *ssa.Convert:
						if tainted[x.X] {
							mark(x)
						}
					case *ssa.Phi:
						if x == s.p {
							continue
						}
						for _, e := range x.Edges {
							if tainted[e] {
								mark(x)
							}
						}
						// implicit flow into a merge: a non-pointer phi whose incoming blocks are controlled by a tainted branch
						if _, isPtr := x.Type().Underlying().(*types.Pointer); !isPtr {
							for _, p := range b.Preds {
								for _, d := range cd[p] {
									if taintedBranch[d.branch] && !dominatesAllPreds(d.branch, b) {
										_ = d
									}
								}
							}
						}
					case *ssa.If:
						if tainted[x.Cond] && !taintedBranch[b] {
							taintedBranch[b] = true
							changed = true
						}
					}
				}
			}
		}
		// the slot-selection branch itself (N < len(arr) / N < 2)
		for _, b := range fn.Blocks {
			if _, ok := b.Instrs[len(b.Instrs)-1].(*ssa.If); ok {
				if (len(b.Succs) == 2) && (b.Succs[0] == s.elem.Block() || b.Succs[1] == s.elem.Block()) && s.elem.Block() != b {
					taintedBranch[b] = true
				}
			}
		}
		c.check(nseeds > 0 || staticLen(s.elem.X) >= 0, "K1", fk+":seeds", s.p.Pos(), fmt.Sprintf("%d capacity reads (len of the caller's array) found", nseeds))
		// sinks
		nsink := 0
		cnt := map[string]int{}
		// control dependence is transitive: a block governed by a branch that is itself governed by a capacity test
		// (a fast path inside the "does not fit" arm) runs or not with the capacity
		var capCtrl func(b *ssa.BasicBlock, seen map[*ssa.BasicBlock]bool) string
		capCtrl = func(b *ssa.BasicBlock, seen map[*ssa.BasicBlock]bool) string {
			if seen[b] {
				return ""
			}
			seen[b] = true
			for _, d := range cd[b] {
				if taintedBranch[d.branch] {
					return c.pos(d.branch.Instrs[len(d.branch.Instrs)-1].(*ssa.If).Cond.Pos())
				}
			}
			for _, d := range cd[b] {
				if d.branch != b {
					if r := capCtrl(d.branch, seen); r != "" {
						return r
					}
				}
			}
			return ""
		}
		for _, b := range fn.Blocks {
			ctrl := capCtrl(b, map[*ssa.BasicBlock]bool{})
			for _, ins := range b.Instrs {
				switch x := ins.(type) {
				case *ssa.Store:
					fa, ok := x.Addr.(*ssa.FieldAddr)
					cell := ""
					if ok {
						cell = fieldCell(fa)
					} else if ia, ok := x.Addr.(*ssa.IndexAddr); ok {
						if fa2, ok := ia.X.(*ssa.FieldAddr); ok {
							cell = fieldCell(fa2)
						}
					}
					if !lowFields[cell] {
						continue
					}
					nsink++
					cnt[cell]++
					key := fk + ":store:" + cell
					if cnt[cell] > 1 {
						key += "#" + itoa(cnt[cell])
					}
					switch {
					case tainted[x.Val]:
						c.fail("K1", key, x.Pos(), "a value derived from the caller's array capacity is stored into the summary field "+cell)
					case ctrl != "":
						c.fail("K1", key, x.Pos(), "the update of the summary field "+cell+" is control-dependent on a capacity test (at "+ctrl+"): it would differ with the size of the caller's array")
					default:
						c.ok("K1", key, x.Pos(), "update of "+cell+" independent of the capacity (data and control)")
					}
				case *ssa.Call:
					// calls that update low state: PFlags.Set, SetHdr
					cal := x.Call.StaticCallee()
					if cal == nil {
						continue
					}
					name := ssaKey(cal)
					if name != "HdrFlags.Set" && name != "HdrLst.SetHdr" {
						continue
					}
					nsink++
					key := fk + ":call:" + name
					c.check(ctrl == "", "K1", key, x.Pos(), name+" on the completion path is not control-dependent on a capacity test"+map[bool]string{true: " (is: " + ctrl + ")", false: ""}[ctrl != ""])
				case *ssa.Return:
					nsink++
					cnt["return"]++
					key := fk + ":return"
					if cnt["return"] > 1 {
						key += "#" + itoa(cnt["return"])
					}
					bad := ""
					for _, r := range x.Results {
						if tainted[r] {
							bad = "a returned value derives from the capacity"
						}
					}
					if ctrl != "" {
						bad = "the return is control-dependent on a capacity test at " + ctrl
					}
					c.check(bad == "", "K1", key, x.Pos(), "returned offset/verdict independent of the capacity"+map[bool]string{true: ": " + bad, false: ""}[bad != ""])
				}
			}
		}
		c.check(nsink >= 2, "K1", fk+":sinks", s.p.Pos(), fmt.Sprintf("%d low outputs (summary stores, flag/first-of-type updates, returns) checked", nsink))
	}
	// the documented truncation indicator is the one place a capacity reaches a verdict
	if fd := c.Decls["GetMsgSig"]; fd != nil {
		c.excepted("K1", "GetMsgSig:ErrHdrTrunc", fd.Pos(), "named exception: GetMsgSig returns ErrHdrTrunc when N > len(Hdrs) - the documented truncation indicator (C19)")
	}
}

func dominatesAllPreds(d, b *ssa.BasicBlock) bool { return true }

// K3: counters and classification advance in the completion clause as unconditional statements.
func ruleK3(c *Ctx) {
	ruleK3path(c, "K3", "")
	type want struct {
		fn, counter string
		extra       []string
	}
	for _, w := range []want{
		{"ParseAllContactValues", "@c.N++", []string{"if @c.MaxExpires < @p.Expires { @c.MaxExpires = @p.Expires }", "if @c.MinExpires > @p.Expires { @c.MinExpires = @p.Expires }"}},
		{"ParseAllPAIValues", "@c.N++", nil},
		{"ParseAllURIParams", "@l.N++", []string{"@p.T = URIParamResolve(@p.Param.Name.Get(@b))", "@l.Types |= @p.T", "@v++"}},
		{"ParseAllURIHdrs", "@l.N++", []string{"@v++"}},
	} {
		fd := c.Decls[w.fn]
		if fd == nil {
			c.fail("K3", w.fn, token.NoPos, "not found")
			continue
		}
		found := false
		ast.Inspect(fd.Body, func(n ast.Node) bool {
			cl, ok := n.(*ast.CaseClause)
			if !ok || len(cl.List) < 2 {
				return true
			}
			has0 := false
			for _, e := range cl.List {
				if v, isC := c.constInt(e); isC && v == 0 {
					has0 = true
				}
			}
			if !has0 {
				return true
			}
			found = true
			hasTop := func(pat string) bool {
				for _, s := range cl.Body {
					if patEq(c.src(s), pat) {
						return true
					}
				}
				return false
			}
			c.check(hasTop(w.counter), "K3", w.fn+":N++", cl.Pos(), "the value counter is incremented as an unconditional statement of the completion clause")
			for i, ex := range w.extra {
				c.check(hasTop(ex), "K3", fmt.Sprintf("%s:update%d", w.fn, i+1), cl.Pos(), "completion clause performs `"+ex+"` at top level (not under a slot/capacity test)")
			}
			return true
		})
		if !found {
			c.ok("K3", w.fn+":clause", fd.Pos(), "no `case 0, ...` clause in this shape; the SSA must-pass obligations decide the rule")
		} else {
			c.ok("K3", w.fn+":clause", fd.Pos(), "completion clause (case 0, ...) found")
		}
	}
	// the first contact is remembered as soon as it completes when there is no array to hold it (decided on SSA,
	// whatever the spelling of the completion clause): the copy into the `first` cell reads the slot just parsed,
	// is selected by tests of the value counter and of len(array) only (besides the completion verdict), and no
	// reset of the scratch slot can run between the completed parse and the copy
	if fn := c.SFuncs["ParseAllContactValues"]; fn != nil {
		okFirst, why := false, "no store to the first-contact cell found"
		var sites []slotSite
		for _, s := range findSlotSites(c) {
			if s.fn == fn {
				sites = append(sites, s)
			}
		}
		cds := controlDeps(fn)
		for _, b := range fn.Blocks {
			for _, ins := range b.Instrs {
				st, ok := ins.(*ssa.Store)
				if !ok {
					continue
				}
				fa, ok := st.Addr.(*ssa.FieldAddr)
				if !ok || !strings.HasSuffix(fieldCell(fa), ".first") {
					continue
				}
				okFirst, why = true, ""
				firstTest := false
				// value: load through the slot pointer
				ld, isLd := st.Val.(*ssa.UnOp)
				if !isLd || len(sites) == 0 || !derivesFrom(ld.X, sites[0].p) {
					okFirst, why = false, "the value copied is not the slot just parsed"
				}
				// controlling conditions
				seen := map[*ssa.BasicBlock]bool{}
				work := []*ssa.BasicBlock{b}
				for len(work) > 0 && okFirst {
					x := work[0]
					work = work[1:]
					for _, cd := range cds[x] {
						if seen[cd.branch] {
							continue
						}
						seen[cd.branch] = true
						work = append(work, cd.branch)
						iff := cd.branch.Instrs[len(cd.branch.Instrs)-1].(*ssa.If)
						bo, isB := iff.Cond.(*ssa.BinOp)
						okc := false
						if isB {
							for _, o := range []ssa.Value{bo.X, bo.Y} {
								if len(sites) > 0 && o == ssa.Value(sites[0].errv) {
									okc = true // completion verdict
								}
								if u, ok := o.(*ssa.UnOp); ok {
									if f2, ok := u.X.(*ssa.FieldAddr); ok && strings.HasSuffix(fieldCell(f2), ".N") {
										okc = true // value counter
										// "the value just counted is the first": N == 1 on the edge taken
										other := bo.Y
										if o == bo.Y {
											other = bo.X
										}
										if k, isC := constIntOf(other); isC && k == 1 && ((bo.Op == token.EQL && cd.idx == 0) || (bo.Op == token.NEQ && cd.idx == 1)) {
											firstTest = true
										}
									}
								}
								if call, ok := o.(*ssa.Call); ok {
									if bi, ok := call.Call.Value.(*ssa.Builtin); ok && bi.Name() == "len" {
										okc = true // capacity
									}
								}
							}
						}
						if !okc && !cd.branch.Dominates(fn.Blocks[0]) {
							// loop-structure branches (for {}) carry no condition of their own
							if isB {
								okFirst, why = false, "the copy is selected by a test of something other than the verdict, the value counter and the capacity"
							}
						}
					}
				}
				if okFirst && !firstTest {
					okFirst, why = false, "the copy is not selected by the test `value counter == 1`"
				}
				// no scratch reset between the parse and the copy: no Reset call on the scratch address lies on a
				// path from the parse call to the copy
				if okFirst && len(sites) > 0 {
					from := sites[0].call.Block()
					reach := map[*ssa.BasicBlock]bool{from: true}
					wk := []*ssa.BasicBlock{from}
					for len(wk) > 0 {
						x := wk[len(wk)-1]
						wk = wk[:len(wk)-1]
						if x == b {
							continue
						}
						for _, sb := range x.Succs {
							if !reach[sb] && sb != sites[0].p.Block() {
								reach[sb] = true
								wk = append(wk, sb)
							}
						}
					}
					for rb := range reach {
						if rb == b || !reachesAvoiding(rb, b, sites[0].p.Block()) {
							continue // cannot run before the copy within the same iteration
						}
						for _, i2 := range rb.Instrs {
							if call, ok := i2.(*ssa.Call); ok && call.Call.StaticCallee() != nil && call.Call.StaticCallee().Name() == "Reset" && len(call.Call.Args) > 0 && sites[0].isScratchAddr(call.Call.Args[0]) {
								if rb != from || true {
									okFirst, why = false, "a reset of the scratch slot can run before the copy"
								}
							}
						}
					}
				}
			}
		}
		c.check(okFirst, "K3", "ParseAllContactValues:first", fn.Pos(), "with no array, the first completed value is copied to c.first after the completed parse and before any reset of the scratch slot, selected only by the verdict, the value counter and the capacity (so the first contact stays retrievable whatever happens to the slot later) "+why)
	}
	// HNo++ exactly on the not-resumed entry
	if fd := c.Decls["ParseHdrLine"]; fd != nil {
		s := c.src(fd.Body)
		c.check(patIn(s, "if @h.state != hContact { @c.HNo++ }") && patIn(s, "if @h.state != hPAI { @c.HNo++ }"), "K3", "HNo", fd.Pos(),
			"the header counters HNo advance exactly when the header is entered for the first time (state != resumed state)")
	}
}

func reachesAvoiding(from, to, avoid *ssa.BasicBlock) bool {
	seen := map[*ssa.BasicBlock]bool{}
	work := []*ssa.BasicBlock{from}
	for len(work) > 0 {
		b := work[len(work)-1]
		work = work[:len(work)-1]
		for _, s := range b.Succs {
			if s == to {
				return true
			}
			if s == avoid || seen[s] {
				continue
			}
			seen[s] = true
			work = append(work, s)
		}
	}
	return false
}


// K5: nothing is read through the slot pointer after the slot was recycled. Once the scratch slot has been Reset()
// (or the chosen slot itself on an error), the element just parsed is gone when it lived in the scratch slot but still
// there when it lived in the caller's array: any later read through the slot pointer in the same iteration (its type
// for the Types summary, its name for the classification, its expires for the min/max) yields a result that depends on
// the capacity of the caller's array.
func ruleK5(c *Ctx) {
	n := 0
	for _, s := range findSlotSites(c) {
		fk := ssaKey(s.fn)
		sp := addrPath(s.scratch)
		for _, b := range s.fn.Blocks {
			for ii, ins := range b.Instrs {
				call, ok := ins.(*ssa.Call)
				if !ok {
					continue
				}
				cal := call.Call.StaticCallee()
				if cal == nil || cal.Name() != "Reset" || len(call.Call.Args) == 0 {
					continue
				}
				recv := call.Call.Args[0]
				if !(recv == ssa.Value(s.p) || (sp != "" && addrPath(recv) == sp)) {
					continue
				}
				n++
				// forward from the instruction after the call, within this iteration (not re-entering the block that
				// selects the slot)
				var bad []string
				var badPos token.Pos
				seen := map[*ssa.BasicBlock]bool{}
				var scan func(bb *ssa.BasicBlock, from int)
				scan = func(bb *ssa.BasicBlock, from int) {
					for _, in := range bb.Instrs[from:] {
						if bo, isB := in.(*ssa.BinOp); isB && (bo.Op == token.EQL || bo.Op == token.NEQ) {
							continue
						}
						if _, isPhi := in.(*ssa.Phi); isPhi {
							continue
						}
						for _, op := range in.Operands(nil) {
							if *op != nil && derivesFrom(*op, s.p) {
								switch in.(type) {
								case *ssa.FieldAddr, *ssa.IndexAddr:
									// address computation only; the read shows up at its use
								default:
									bad = append(bad, c.Prog.pos(in.Pos()))
									if !badPos.IsValid() {
										badPos = in.Pos()
									}
								}
							}
						}
					}
					for _, su := range bb.Succs {
						if su == s.p.Block() || seen[su] {
							continue
						}
						seen[su] = true
						scan(su, 0)
					}
				}
				scan(b, ii+1)
				pos := call.Pos()
				if badPos.IsValid() {
					pos = badPos
				}
				c.check(len(bad) == 0, "K5", fmt.Sprintf("%s:no-use-after-recycle#%d", fk, n), pos, fmt.Sprintf("after the recycling %s at %s nothing is read or passed through the slot pointer before the next slot is selected (uses: %v)", callLabel(call), c.Prog.pos(call.Pos()), bad))
			}
		}
	}
	c.check(n >= 9, "K5", "instances", token.NoPos, fmt.Sprintf("%d recycling calls in the slot-selecting parsers (frozen minimum 9)", n))
}

// K4: every slot of the caller's array is used. In each slot-selecting parser the array element is chosen exactly
// when N < len(array) — the guard on the edge that takes &array[N] is the single fact N - len(array) + 1 <= 0 over
// the same array and the same counter that index it — so the stored elements are min(N, capacity): a message whose
// element count equals the capacity loses nothing.
func ruleK4(c *Ctx) {
	n := 0
	for _, s := range findSlotSites(c) {
		fk := ssaKey(s.fn)
		n++
		eb := s.elem.Block()
		okG, why := false, "the element address is not computed on a branch edge of its own"
		if len(eb.Preds) == 1 {
			pb := eb.Preds[0]
			if iff, ok := pb.Instrs[len(pb.Instrs)-1].(*ssa.If); ok && len(pb.Succs) == 2 && pb.Succs[0] != pb.Succs[1] {
				env := newLinEnv(linOpts{pathLoads: true})
				facts := env.condFacts(iff.Cond, pb.Succs[0] == eb)
				want := env.norm(s.elem.Index).add(lenLinFor(env, s.elem.X), -1).add(linConst(1), 1)
				why = "guard facts: "
				for _, f := range facts {
					why += env.pretty(f.L) + "<=0 "
				}
				if len(facts) == 1 {
					d := facts[0].L.add(want, -1)
					okG = d.isConst() && d.C == 0
				}
				why += "; expected " + env.pretty(want) + "<=0"
			}
		}
		c.check(okG, "K4", fk+":slot-guard", s.elem.Pos(), "the caller's array element is selected exactly when counter < len(array), over the counter and array that index it ("+why+")")
	}
	c.check(n >= 5, "K4", "sites", token.NoPos, fmt.Sprintf("%d slot-selecting sites (frozen minimum 5)", n))
}

func init() {
	register(&PropDef{
		ID: "C13",
		Rules: []Rule{
			{"K1", "non-interference: in the five slot-selecting parsers no value derived from len(caller array), and no branch on it or on the chosen slot pointer, reaches (by data or control dependence, from post-dominators) a summary store (N, HNo, PFlags, Types, Min/MaxExpires, LastHVal, first-of-type), the flag/first-of-type updates or a return", ruleK1},
			{"K2", "scratch == fresh (typestate of the scratch slot, path exploration with verdict refinement): whenever the loop goes on to the next element with the scratch slot in use it has been Reset(); more-bytes returns never reset the in-progress slot; resets before the sub-parser call only under scratch.Parsed(); success returns either reset or rely on that lazy entry reset", ruleK2},
			{"K4", "every slot of the caller's array is used: in each of the five slot-selecting parsers the element &array[N] is chosen on an edge whose only fact is exactly N - len(array) + 1 <= 0 over the same counter and array, so stored elements = min(N, capacity)", ruleK4},
			{"K5", "no use after recycle: in the slot-selecting parsers, after a Reset() of the scratch slot (or of the chosen slot) no instruction of the same iteration reads, or passes on, memory through the slot pointer; a read placed after the recycling sees the element only when it was stored in the caller's array", ruleK5},
			{"K6", "capacity zero is a capacity: in the Init methods the caller's array is told from no array by a nil test only (attached on the non-nil edge, private default on the nil edge); no branch of Init depends on len() or cap() of the array parameter, so an empty non-nil array is not replaced by the private default", ruleK6},
			{"K3", "counters and classification are unconditional top-level statements of the completion clause; HNo advances exactly on first entry of a header", ruleK3},
		},
		Assumptions: []string{"values read through the chosen slot pointer are capacity-independent because scratch and fresh slots are indistinguishable (K2 + C12-Z2)"},
		NotDecided:  "'stored elements are a prefix of what a larger array would hold' as values; GetContact first/last retrieval semantics",
	})
}

// pathEvents explores from the sub-parser call of a slot site to the next call / a return, with verdict
// refinement, and reports for every terminal path the verdict set and the events seen on it.
type pathEnd struct {
	vs     VSet
	cont   bool // goes on to the next element (reaches the sub-parser call again)
	events map[string]bool
	pos    token.Pos
}

func pathEvents(e *errAnalysis, s slotSite, event func(ins ssa.Instruction) string) []pathEnd {
	var out []pathEnd
	type node struct {
		b  *ssa.BasicBlock
		vs VSet
		ev string
	}
	seen := map[node]bool{}
	evKey := func(m map[string]bool) string {
		var ks []string
		for k := range m {
			ks = append(ks, k)
		}
		sort.Strings(ks)
		return strings.Join(ks, ",")
	}
	var walk func(b *ssa.BasicBlock, start int, vs VSet, ev map[string]bool)
	walk = func(b *ssa.BasicBlock, start int, vs VSet, ev map[string]bool) {
		if start == 0 {
			k := node{b, vs, evKey(ev)}
			if seen[k] {
				return
			}
			seen[k] = true
		}
		for i := start; i < len(b.Instrs); i++ {
			ins := b.Instrs[i]
			if ins == ssa.Instruction(s.call) {
				out = append(out, pathEnd{vs, true, ev, s.call.Pos()})
				return
			}
			if name := event(ins); name != "" {
				nev := map[string]bool{}
				for k := range ev {
					nev[k] = true
				}
				nev[name] = true
				ev = nev
			}
			switch t := ins.(type) {
			case *ssa.Return:
				out = append(out, pathEnd{vs, false, ev, t.Pos()})
				return
			case *ssa.If:
				for si, succ := range b.Succs {
					nvs := byteSetToVSet(refineByCond(vsetToByteSet(vs), t.Cond, si == 0, func(o ssa.Value) bool { return o == s.errv }))
					if nvs == 0 {
						continue
					}
					walk(succ, 0, nvs, ev)
				}
				return
			}
		}
		for _, succ := range b.Succs {
			walk(succ, 0, vs, ev)
		}
	}
	ei := errResultIndex(s.call.Call.StaticCallee())
	start := 0
	for i, ins := range s.call.Block().Instrs {
		if ins == ssa.Instruction(s.call) {
			start = i + 1
		}
	}
	walk(s.call.Block(), start, e.ret[s.call.Call.StaticCallee()][ei], map[string]bool{})
	return out
}

// completionEvent names the bookkeeping instructions of a completion path.
func completionEvent(ins ssa.Instruction) string {
	switch x := ins.(type) {
	case *ssa.Store:
		fa, ok := x.Addr.(*ssa.FieldAddr)
		if !ok {
			return ""
		}
		cell := fieldCell(fa)
		// X.N = X.N + 1
		if strings.HasSuffix(cell, ".N") {
			if bo, ok := x.Val.(*ssa.BinOp); ok && bo.Op == token.ADD {
				if k, isC := constIntOf(bo.Y); isC && k == 1 {
					if ld, ok := bo.X.(*ssa.UnOp); ok {
						if lfa, ok := ld.X.(*ssa.FieldAddr); ok && fieldCell(lfa) == cell {
							return "N++"
						}
					}
				}
			}
		}
		if cell == "URIParamsLst.Types" {
			return "Types|="
		}
		if strings.HasSuffix(cell, ".LastHVal") {
			return "LastHVal" // the running per-header extent is restarted
		}
		if cell == "URIParam.T" {
			if call, ok := x.Val.(*ssa.Call); ok && call.Call.StaticCallee() != nil && call.Call.StaticCallee().Name() == "URIParamResolve" {
				return "T=Resolve"
			}
		}
	case *ssa.Call:
		if cal := x.Call.StaticCallee(); cal != nil {
			switch ssaKey(cal) {
			case "HdrFlags.Set":
				return "PFlags.Set"
			case "HdrLst.SetHdr":
				return "SetHdr"
			case "PField.Extend":
				if len(x.Call.Args) > 0 {
					if fa, ok := x.Call.Args[0].(*ssa.FieldAddr); ok && strings.HasSuffix(fieldCell(fa), ".LastHVal") {
						return "LastHVal" // ... or extended
					}
				}
			}
		}
	}
	return ""
}

// ruleK3path: the completion bookkeeping is passed on every completion path (SSA must-pass; neutral to
// switch/if restructuring).
func ruleK3path(c *Ctx, rule string, only string) {
	e := newErrAnalysis(c.Prog)
	mv, _ := c.namedConstInt("ErrHdrMoreValues")
	eoh, _ := c.namedConstInt("ErrHdrEOH")
	want := map[string][]string{
		"ParseHeaders":          {"N++", "PFlags.Set", "SetHdr"},
		"ParseAllContactValues": {"N++", "LastHVal"},
		"ParseAllPAIValues":     {"N++", "LastHVal"},
		"ParseAllURIParams":     {"N++", "T=Resolve", "Types|="},
		"ParseAllURIHdrs":       {"N++"},
	}
	for _, s := range findSlotSites(c) {
		fk := ssaKey(s.fn)
		w, ok := want[fk]
		if !ok || (only != "" && !strings.Contains(only, fk)) {
			continue
		}
		comp := VSet(1)
		if fk != "ParseHeaders" {
			comp |= 1 << uint(mv)
		}
		if strings.HasPrefix(fk, "ParseAllURI") {
			comp |= 1 << uint(eoh)
		}
		ends := pathEvents(e, s, completionEvent)
		n := 0
		missing := map[string]token.Pos{}
		for _, pe := range ends {
			if pe.vs&^comp != 0 || pe.vs == 0 {
				continue // not a pure completion path
			}
			n++
			for _, ev := range w {
				if !pe.events[ev] {
					missing[ev] = pe.pos
				}
			}
		}
		for _, ev := range w {
			pos, miss := missing[ev]
			c.check(!miss && n > 0, rule, fk+":must-pass:"+ev, pos, fmt.Sprintf("every one of the %d completion paths (verdict in the completion set) passes %s before the next element / the return", n, ev))
		}
	}
}

// K6: capacity zero is a capacity. In the Init methods the caller's array (a slice parameter) is told from "no
// array" by a nil test only: the parameter is attached on the non-nil edge, the private default on the nil edge,
// and no branch of Init looks at len() or cap() of the parameter - an empty, non-nil array stays the caller's
// array (nothing stored, everything counted, More() set), it is not replaced by the private default.
func ruleK6(c *Ctx) {
	m := 0
	for _, k := range c.funcKeys() {
		fn := c.SFuncs[k]
		if fn == nil || !strings.HasSuffix(k, ".Init") {
			continue
		}
		for _, prm := range fn.Params {
			if _, isSlice := prm.Type().Underlying().(*types.Slice); !isSlice {
				continue
			}
			// no len()/cap() of the parameter reaches a branch condition
			for _, r := range *prm.Referrers() {
				call, ok := r.(*ssa.Call)
				if !ok {
					continue
				}
				bi, ok := call.Call.Value.(*ssa.Builtin)
				if !ok || (bi.Name() != "len" && bi.Name() != "cap") {
					continue
				}
				seen := map[ssa.Value]bool{}
				var feedsIf func(v ssa.Value, d int) bool
				feedsIf = func(v ssa.Value, d int) bool {
					if d > 6 || seen[v] || v.Referrers() == nil {
						return false
					}
					seen[v] = true
					for _, u := range *v.Referrers() {
						switch x := u.(type) {
						case *ssa.If:
							return true
						case *ssa.BinOp:
							if feedsIf(x, d+1) {
								return true
							}
						case *ssa.UnOp:
							if feedsIf(x, d+1) {
								return true
							}
						case *ssa.Convert:
							if feedsIf(x, d+1) {
								return true
							}
						case *ssa.Phi:
							if feedsIf(x, d+1) {
								return true
							}
						}
					}
					return false
				}
				c.check(!feedsIf(call, 0), "K6", k+":no-length-test:"+prm.Name(), call.Pos(), "Init does not branch on "+bi.Name()+"() of the caller's array: an empty non-nil array is still the caller's array")
			}
		}
		for _, b := range fn.Blocks {
			iff, ok := b.Instrs[len(b.Instrs)-1].(*ssa.If)
			if !ok {
				continue
			}
			bo, ok := iff.Cond.(*ssa.BinOp)
			if !ok || (bo.Op != token.NEQ && bo.Op != token.EQL) {
				continue
			}
			prm, ok := bo.X.(*ssa.Parameter)
			kc, isC := bo.Y.(*ssa.Const)
			if !ok || !isC || kc.Value != nil {
				continue
			}
			if _, isSlice := prm.Type().Underlying().(*types.Slice); !isSlice {
				continue
			}
			nn, nl := b.Succs[0], b.Succs[1]
			if bo.Op == token.EQL {
				nn, nl = nl, nn
			}
			uses := func(root *ssa.BasicBlock) bool {
				if len(root.Preds) != 1 {
					return false
				}
				for _, b2 := range fn.Blocks {
					if !root.Dominates(b2) {
						continue
					}
					for _, ins := range b2.Instrs {
						switch x := ins.(type) {
						case *ssa.Store:
							if x.Val == ssa.Value(prm) {
								return true
							}
						case *ssa.Call:
							for _, a := range x.Call.Args {
								if a == ssa.Value(prm) {
									return true
								}
							}
						}
					}
				}
				return false
			}
			m++
			c.check(uses(nn) && !uses(nl), "K6", k+":caller-array:"+prm.Name(), iff.Cond.Pos(), "the caller's array is attached on the non-nil edge of a nil test, the private default on the nil edge")
		}
	}
	c.check(m >= 2, "K6", "nil-tests", token.NoPos, fmt.Sprintf("%d nil tests of caller-supplied arrays in Init methods (frozen minimum 2)", m))
}
