package main

import (
	"fmt"
	"go/token"
	"go/types"
	"math/big"
	"sort"

	"golang.org/x/tools/go/ssa"
)

// E-ACC: decimal accumulators and narrowing conversions.

type accStep struct {
	fn  *ssa.Function
	add *ssa.BinOp
	mul *ssa.BinOp
	x   ssa.Value // operand of *10
	dig ssa.Value // the other addend
	res ssa.Value // observable result (add, or the `- const` that follows it)
}

func findAccSteps(p *Prog) []accStep {
	var out []accStep
	var keys []string
	for k := range p.SFuncs {
		keys = append(keys, k)
	}
	sort.Strings(keys)
	for _, k := range keys {
		fn := p.SFuncs[k]
		for _, b := range fn.Blocks {
			for _, ins := range b.Instrs {
				add, ok := ins.(*ssa.BinOp)
				if !ok || add.Op != token.ADD || !isIntType(add.Type()) {
					continue
				}
				for side := 0; side < 2; side++ {
					m, o := add.X, add.Y
					if side == 1 {
						m, o = add.Y, add.X
					}
					mul, ok := m.(*ssa.BinOp)
					if !ok || mul.Op != token.MUL {
						continue
					}
					var x ssa.Value
					if k, ok := constIntOf(mul.Y); ok && k == 10 {
						x = mul.X
					} else if k, ok := constIntOf(mul.X); ok && k == 10 {
						x = mul.Y
					} else {
						continue
					}
					st := accStep{fn: fn, add: add, mul: mul, x: x, dig: o, res: add}
					// `x*10 + b - '0'`: the subtraction is the observable result
					if refs := add.Referrers(); refs != nil {
						var users []ssa.Instruction
						for _, r := range *refs {
							if _, dbg := r.(*ssa.DebugRef); !dbg {
								users = append(users, r)
							}
						}
						if len(users) == 1 {
							if sub, ok := users[0].(*ssa.BinOp); ok && sub.Op == token.SUB && sub.X == ssa.Value(add) {
								if _, isC := constIntOf(sub.Y); isC {
									st.res = sub
								}
							}
						}
					}
					out = append(out, st)
					break
				}
			}
		}
	}
	return out
}

// a2Guard: dominating `x > (MAX - d)/10` (false edge) => x*10 + d <= MAX.
// a2GuardBlock: the block whose If is the A2 pre-check of st (Succs[0] is the overflow edge), or nil.
var a2GuardBlock *ssa.BasicBlock

func a2Guard(st accStep, env *rangeEnv) (*big.Int, bool) {
	a2GuardBlock = nil
	b := st.add.Block()
	for cur := b; cur != nil; cur = cur.Idom() {
		d := cur.Idom()
		if d == nil {
			break
		}
		iff, ok := d.Instrs[len(d.Instrs)-1].(*ssa.If)
		if !ok || len(cur.Preds) != 1 || cur.Preds[0] != d || d.Succs[1] != cur {
			continue
		}
		c, ok := iff.Cond.(*ssa.BinOp)
		if !ok || c.Op != token.GTR || c.X != st.x {
			continue
		}
		q, ok := c.Y.(*ssa.BinOp)
		if !ok || q.Op != token.QUO {
			continue
		}
		if k, ok := constIntOf(q.Y); !ok || k != 10 {
			continue
		}
		s, ok := q.X.(*ssa.BinOp)
		if !ok || s.Op != token.SUB || s.Y != st.dig {
			continue
		}
		mc, ok := s.X.(*ssa.Const)
		if !ok || mc.Value == nil {
			continue
		}
		max, ok := new(big.Int).SetString(mc.Value.ExactString(), 10)
		if !ok {
			continue
		}
		// MAX - d must not wrap: d <= MAX
		_, dh := env.rng(st.dig, d)
		if dh.Cmp(max) > 0 {
			continue
		}
		a2GuardBlock = d
		return max, true
	}
	return nil, false
}

// a2Saturates: on the overflow edge of an A2 pre-check the number handed back cannot be mistaken for a small one:
// every return reached from that edge carries the all-ones maximum of the accumulator's type in the result slot of that
// type, or every caller uses the number only under a test that the error result is zero.
func a2Saturates(c *Ctx, st accStep, guard *ssa.BasicBlock) (bool, string) {
	fn := st.fn
	_, thi, _ := typeRange(st.res.Type())
	over := guard.Succs[0]
	seen := map[*ssa.BasicBlock]bool{}
	work := []*ssa.BasicBlock{over}
	nret := 0
	sat := true
	for len(work) > 0 {
		b := work[len(work)-1]
		work = work[:len(work)-1]
		if seen[b] || b == guard.Succs[1] {
			continue
		}
		seen[b] = true
		if ret, ok := b.Instrs[len(b.Instrs)-1].(*ssa.Return); ok {
			nret++
			okR := false
			for _, r := range ret.Results {
				if types.Identical(r.Type(), st.res.Type()) {
					if k, ok := r.(*ssa.Const); ok && k.Value != nil {
						if bi, ok := new(big.Int).SetString(k.Value.ExactString(), 10); ok && bi.Cmp(thi) == 0 {
							okR = true
						}
					}
				}
			}
			if !okR {
				sat = false
			}
			continue
		}
		work = append(work, b.Succs...)
	}
	if nret > 0 && sat {
		return true, fmt.Sprintf("the %d return(s) on the overflow edge carry the saturated maximum %s", nret, thi.String())
	}
	if nret == 0 {
		return true, "the overflow edge does not return a number (no return reached)"
	}
	// alternative: every caller looks at the number only after testing the error
	ei := errResultIndex(fn)
	if ei < 0 {
		return false, "the overflow edge returns a number that is not the saturated maximum, and the function reports no error"
	}
	ncall := 0
	for _, g := range c.SFuncs {
		for _, b := range g.Blocks {
			for _, ins := range b.Instrs {
				call, ok := ins.(*ssa.Call)
				if !ok || call.Call.StaticCallee() != fn {
					continue
				}
				ncall++
				var errv *ssa.Extract
				for _, r := range *call.Referrers() {
					if ex, ok := r.(*ssa.Extract); ok && ex.Index == ei {
						errv = ex
					}
				}
				for _, r := range *call.Referrers() {
					ex, ok := r.(*ssa.Extract)
					if !ok || ex.Index == ei || ex.Referrers() == nil {
						continue
					}
					for _, use := range *ex.Referrers() {
						if _, dbg := use.(*ssa.DebugRef); dbg {
							continue
						}
						guarded := false
						if errv != nil {
							for cur := use.Block(); cur != nil; cur = cur.Idom() {
								d := cur.Idom()
								if d == nil || len(cur.Preds) != 1 || cur.Preds[0] != d {
									continue
								}
								if iff, ok := d.Instrs[len(d.Instrs)-1].(*ssa.If); ok {
									if bo, ok := iff.Cond.(*ssa.BinOp); ok && bo.X == ssa.Value(errv) {
										if k, isC := constIntOf(bo.Y); isC && k == 0 && ((bo.Op == token.EQL && d.Succs[0] == cur) || (bo.Op == token.NEQ && d.Succs[1] == cur)) {
											guarded = true
										}
									}
								}
							}
						}
						if !guarded {
							return false, "the overflow edge returns a number that is not the saturated maximum, and " + ssaKey(g) + " uses the number at " + posStr(g, use.Pos()) + " without having tested the error"
						}
					}
				}
			}
		}
	}
	return ncall > 0, "callers use the number only under err == 0"
}

// relGuard: a dominating guard bounds the very same ideal expression
// (computed in a wider type from re-loads of the same cells).
func relGuard(st accStep, env *rangeEnv) (*big.Int, string, bool) {
	le := newLinEnv(linOpts{})
	le.structLoads = env
	goal := le.norm(st.res)
	if len(goal.T) == 0 {
		return nil, "", false
	}
	b := st.add.Block()
	for cur := b; cur != nil; cur = cur.Idom() {
		d := cur.Idom()
		if d == nil {
			break
		}
		iff, ok := d.Instrs[len(d.Instrs)-1].(*ssa.If)
		if !ok || len(cur.Preds) != 1 || cur.Preds[0] != d {
			continue
		}
		truth := d.Succs[0] == cur
		for _, f := range le.condFacts(iff.Cond, truth) {
			if !f.L.sameTerms(goal) {
				continue
			}
			// guard expression itself must be wrap-free in its own (wider) type
			genv := newRangeEnv(st.fn)
			if c, ok := iff.Cond.(*ssa.BinOp); ok {
				genv.rng(c.X, d)
				genv.rng(c.Y, d)
			}
			if len(genv.wraps) > 0 {
				continue
			}
			// straight line from the guard to the step: loads of local cells stay equal
			if !straightLineNoStore(d, b, st) {
				continue
			}
			bound := bigOf(goal.C - f.L.C)
			return bound, f.Src, true
		}
	}
	return nil, "", false
}

// straightLineNoStore: every block from `from` (exclusive) down to `to` has a single
// predecessor, and no store happens before the step's own loads.
func straightLineNoStore(from, to *ssa.BasicBlock, st accStep) bool {
	for cur := to; cur != from; {
		if len(cur.Preds) != 1 {
			return false
		}
		for _, ins := range cur.Instrs {
			if ins == ssa.Instruction(st.add) {
				break
			}
			switch ins.(type) {
			case *ssa.Store, *ssa.Call, *ssa.MapUpdate:
				return false
			}
		}
		cur = cur.Preds[0]
	}
	return true
}

func stepKey(st accStep) string {
	k := ssaKey(st.fn) + ":" + accName(st.x)
	return k
}

func accName(v ssa.Value) string {
	v = stripWiden(v)
	if p := valuePath(v); p != "" {
		return p
	}
	if ph, ok := v.(*ssa.Phi); ok && ph.Comment != "" {
		return phiName(ph)
	}
	if c, ok := v.(*ssa.Convert); ok {
		return "conv(" + accName(c.X) + ")"
	}
	if b, ok := v.(*ssa.BinOp); ok {
		return "(" + accName(b.X) + b.Op.String() + accName(b.Y) + ")"
	}
	if c, ok := v.(*ssa.Const); ok {
		return c.Value.String()
	}
	return "val"
}

// ruleA: every decimal accumulation step is wrap-free.
func ruleA(c *Ctx) {
	steps := findAccSteps(c.Prog)
	seen := map[string]int{}
	for _, st := range steps {
		key := stepKey(st)
		seen[key]++
		if seen[key] > 1 {
			key += "#" + itoa(seen[key])
		}
		env := newRangeEnv(st.fn)
		at := st.add.Block()
		_, thi, _ := typeRange(st.res.Type())
		lo, hi := env.rng(st.res, at)
		xl, xh := env.rng(st.x, at)
		dl, dh := env.rng(st.dig, at)
		detail := fmt.Sprintf("acc %s in %s, digit term %s, result %s in %s", rangeStr(xl, xh), typeShort(st.x.Type()), rangeStr(dl, dh), rangeStr(lo, hi), typeShort(st.res.Type()))
		if len(env.wraps) == 0 {
			c.ok("A", key, st.add.Pos(), "wrap-free by interval + guards: "+detail)
			continue
		}
		if max, ok := a2Guard(st, env); ok && max.Cmp(thi) <= 0 {
			c.ok("A", key, st.add.Pos(), "A2 pre-check x > (MAX-d)/10 dominates the step, MAX="+max.String())
			if g := a2GuardBlock; g != nil {
				okS, why := a2Saturates(c, st, g)
				c.check(okS, "A", key+":overflow-value", g.Instrs[len(g.Instrs)-1].Pos(), "a number that does not fit is not handed back as a small one: "+why)
			}
			continue
		}
		if bound, src, ok := relGuard(st, env); ok && bound.Cmp(thi) <= 0 && bound.Sign() >= 0 {
			c.ok("A", key, st.add.Pos(), "A1 widened check on the same cells dominates the step: value <= "+bound.String()+" ["+src+"]")
			continue
		}
		c.fail("A", key, st.add.Pos(), "decimal accumulation can wrap before any range check: "+detail+"; "+env.wraps[0])
	}
	c.expectMin("A", 7)
}

// ruleN: narrowing integer conversions are dominated by a range test (or provably in range).
func ruleN(c *Ctx) {
	var keys []string
	for k := range c.SFuncs {
		keys = append(keys, k)
	}
	sort.Strings(keys)
	cnt := map[string]int{}
	taint := computeAccTaint(c.Prog, findAccSteps(c.Prog))
	var cells []string
	for cl := range taint.cells {
		cells = append(cells, cl)
	}
	sort.Strings(cells)
	c.ok("N", "cells", token.NoPos, fmt.Sprintf("struct fields holding accumulated numbers: %v", cells))
	for _, k := range keys {
		fn := c.SFuncs[k]
		if isInitFn(fn) {
			continue
		}
		for _, b := range fn.Blocks {
			for _, ins := range b.Instrs {
				cv, ok := ins.(*ssa.Convert)
				if !ok || !isNarrowing(cv) || !taint.vals[cv.X] {
					continue
				}
				tname := typeShort(cv.Type())
				base := k + ":" + accName(cv.X) + "->" + tname
				cnt[base]++
				key := base
				if cnt[base] > 1 {
					key += "#" + itoa(cnt[base])
				}
				// (conversions of *positions* to OffsT are the documented 65,535-byte limit; this rule only
				// looks at accumulator-derived numbers, for which truncation to 16 bits is a defect)
				env := newRangeEnv(fn)
				lo, hi := env.rng(cv.X, b)
				tlo, thi, _ := typeRangeExact(cv.Type())
				if lo.Cmp(tlo) >= 0 && hi.Cmp(thi) <= 0 {
					c.ok("N", key, cv.Pos(), fmt.Sprintf("operand range %s fits %s", rangeStr(lo, hi), tname))
					continue
				}
				if why, ok := narrowException(c, k, cv, env); ok {
					c.excepted("N", key, cv.Pos(), why)
					continue
				}
				c.fail("N", key, cv.Pos(), fmt.Sprintf("narrowing %s -> %s of a value with range %s is not dominated by a range test", typeShort(cv.X.Type()), tname, rangeStr(lo, hi)))
			}
		}
	}
	c.expectMin("N", 9)
}

func typeRangeExact(t types.Type) (*big.Int, *big.Int, bool) {
	bits, uns := intBits(t)
	if bits == 0 {
		return nil, nil, false
	}
	one := big.NewInt(1)
	if uns {
		return big.NewInt(0), new(big.Int).Sub(new(big.Int).Lsh(one, uint(bits)), one), true
	}
	return new(big.Int).Neg(new(big.Int).Lsh(one, uint(bits-1))), new(big.Int).Sub(new(big.Int).Lsh(one, uint(bits-1)), one), true
}

// named, reasoned exceptions to the narrowing rule (one construct each)
func narrowException(c *Ctx, fn string, cv *ssa.Convert, env *rangeEnv) (string, bool) {
	if fn == "setFromParamVal" && typeShort(cv.Type()) == "uint16" {
		return qScaleProof(c, cv, env)
	}
	return "", false
}

// accTaint: values derived from a decimal accumulator (through phis, arithmetic,
// conversions, struct fields and function results), package-wide fixpoint.
type accTaint struct {
	vals  map[ssa.Value]bool
	cells map[string]bool
	rets  map[*ssa.Function]map[int]bool
}

func fieldCell(fa *ssa.FieldAddr) string {
	st := derefStruct(fa.X.Type())
	if st == nil {
		return ""
	}
	t := fa.X.Type()
	if p, ok := t.Underlying().(*types.Pointer); ok {
		t = p.Elem()
	}
	return typeShort(t) + "." + st.Field(fa.Field).Name()
}

func computeAccTaint(p *Prog, steps []accStep) *accTaint {
	t := &accTaint{vals: map[ssa.Value]bool{}, cells: map[string]bool{}, rets: map[*ssa.Function]map[int]bool{}}
	for _, s := range steps {
		t.vals[s.res] = true
		t.vals[s.add] = true
	}
	changed := true
	mark := func(v ssa.Value) {
		if !t.vals[v] {
			t.vals[v] = true
			changed = true
		}
	}
	for changed {
		changed = false
		for _, fn := range p.SFuncs {
			for _, b := range fn.Blocks {
				for _, ins := range b.Instrs {
					switch x := ins.(type) {
					case *ssa.Phi:
						for _, e := range x.Edges {
							if t.vals[e] {
								mark(x)
							}
						}
					case *ssa.Convert:
						if t.vals[x.X] && isIntType(x.Type()) {
							mark(x)
						}
					case *ssa.ChangeType:
						if t.vals[x.X] {
							mark(x)
						}
					case *ssa.BinOp:
						switch x.Op {
						case token.ADD, token.SUB, token.MUL:
							if t.vals[x.X] || t.vals[x.Y] {
								mark(x)
							}
						}
					case *ssa.Store:
						if t.vals[x.Val] {
							if fa, ok := x.Addr.(*ssa.FieldAddr); ok {
								if c := fieldCell(fa); c != "" && !t.cells[c] {
									t.cells[c] = true
									changed = true
								}
							}
						}
					case *ssa.UnOp:
						if x.Op == token.MUL {
							if fa, ok := x.X.(*ssa.FieldAddr); ok && t.cells[fieldCell(fa)] {
								mark(x)
							}
						}
					case *ssa.Field:
						st, _ := x.X.Type().Underlying().(*types.Struct)
						if st != nil && t.cells[typeShort(x.X.Type())+"."+st.Field(x.Field).Name()] {
							mark(x)
						}
					case *ssa.Return:
						for i, r := range x.Results {
							if t.vals[r] {
								if t.rets[fn] == nil {
									t.rets[fn] = map[int]bool{}
								}
								if !t.rets[fn][i] {
									t.rets[fn][i] = true
									changed = true
								}
							}
						}
					case *ssa.Call:
						if cal := x.Call.StaticCallee(); cal != nil && t.rets[cal] != nil {
							if cal.Signature.Results().Len() == 1 && t.rets[cal][0] {
								mark(x)
							}
						}
					case *ssa.Extract:
						if call, ok := x.Tuple.(*ssa.Call); ok {
							if cal := call.Call.StaticCallee(); cal != nil && t.rets[cal][x.Index] {
								mark(x)
							}
						}
					}
				}
			}
		}
	}
	return t
}

// ruleW: arithmetic on accumulator-derived values (outside the accumulation steps themselves)
// is wrap-free where it is computed: a wrapped intermediate that is then compared or stored
// defeats every later range test.
func ruleW(c *Ctx) {
	steps := findAccSteps(c.Prog)
	taint := computeAccTaint(c.Prog, steps)
	isStep := map[ssa.Value]bool{}
	for _, s := range steps {
		isStep[s.add] = true
		isStep[s.mul] = true
		isStep[s.res] = true
	}
	var keys []string
	for k := range c.SFuncs {
		keys = append(keys, k)
	}
	sort.Strings(keys)
	cnt := map[string]int{}
	n := 0
	for _, k := range keys {
		fn := c.SFuncs[k]
		for _, b := range fn.Blocks {
			for _, ins := range b.Instrs {
				bo, ok := ins.(*ssa.BinOp)
				if !ok || isStep[bo] || !isIntType(bo.Type()) {
					continue
				}
				switch bo.Op {
				case token.ADD, token.MUL, token.SUB, token.SHL:
				default:
					continue
				}
				if !taint.vals[bo.X] && !taint.vals[bo.Y] {
					continue
				}
				n++
				base := k + ":" + accName(bo)
				cnt[base]++
				key := base
				if cnt[base] > 1 {
					key += "#" + itoa(cnt[base])
				}
				env := newRangeEnv(fn)
				env.cellHi = map[string]*big.Int{"PV.CLen.UIVal": bigOf(1 << 24)}
				lo, hi := env.rng(bo, b)
				if bo.Op == token.ADD && taint.vals[bo.X] != taint.vals[bo.Y] && len(env.wraps) > 0 {
					// accumulated number + buffer position: positions are bounded by the documented 65,535-byte limit
					tv, pv := bo.X, bo.Y
					if taint.vals[bo.Y] {
						tv, pv = bo.Y, bo.X
					}
					if bt, ok := pv.Type().Underlying().(*types.Basic); ok && bt.Kind() == types.Int {
						e2 := newRangeEnv(fn)
						e2.cellHi = env.cellHi
						tl, th := e2.rng(tv, b)
						if len(e2.wraps) == 0 && tl.Sign() >= 0 && new(big.Int).Add(th, bigOf(65535)).Cmp(bigOf(1<<31-1)) <= 0 {
							c.assumed("W", key, bo.Pos(), "number "+rangeStr(tl, th)+" (Content-Length <= 2^24 by rule R) added to a buffer position, assumed <= 65,535 (documented addressing limit): no wrap even in 32-bit int")
							continue
						}
					}
				}
				if len(env.wraps) > 0 && k == "setFromParamVal" {
					if cvs := bo.Referrers(); cvs != nil {
						for _, r := range *cvs {
							if cv, ok := r.(*ssa.Convert); ok {
								if why, ok := qScaleProof(c, cv, newRangeEnv(fn)); ok {
									c.excepted("W", key, bo.Pos(), why)
									env.wraps = nil
									lo = nil
								}
							}
						}
					}
					if lo == nil {
						continue
					}
				}
				if len(env.wraps) == 0 {
					c.ok("W", key, bo.Pos(), "arithmetic on an accumulated number is wrap-free here: "+rangeStr(lo, hi)+" in "+typeShort(bo.Type()))
				} else {
					c.fail("W", key, bo.Pos(), "arithmetic on an accumulated number can wrap before it is range-checked: "+env.wraps[0])
				}
			}
		}
	}
	c.check(n >= 3, "W", "count", token.NoPos, fmt.Sprintf("%d derived arithmetic sites analysed (frozen minimum 3)", n))
}
