package main

import (
	"fmt"
	"go/token"
	"go/types"
	"sort"
	"strings"

	"golang.org/x/tools/go/ssa"
)

// streamingFuncs: functions of shape f(buf []byte, offs int, ...) (..., ErrorHdr) whose
// verdict set contains ErrHdrMoreBytes. Discovered, not listed.
func streamingFuncs(c *Ctx, e *errAnalysis) []*ssa.Function {
	mb, _ := c.namedConstInt("ErrHdrMoreBytes")
	var out []*ssa.Function
	for _, f := range c.SFuncs {
		ps := f.Params
		off := 0
		if len(ps) >= 3 && ps[0].Type().String() == sipspPath+".HdrT" {
			off = 1 // ParseNameAddrPVal(h, buf, offs, ...)
		}
		if len(ps) < off+2 || ps[off].Type().String() != "[]byte" || ps[off+1].Type().String() != "int" {
			continue
		}
		i := errResultIndex(f)
		if i < 0 || isErrType(f.Signature.Results().At(i).Type()) != "ErrorHdr" {
			continue
		}
		if !e.ret[f][i].has(mb) {
			continue
		}
		out = append(out, f)
	}
	sort.Slice(out, func(i, j int) bool { return ssaKey(out[i]) < ssaKey(out[j]) })
	return out
}

func bufParam(f *ssa.Function) *ssa.Parameter {
	for _, p := range f.Params {
		if p.Type().String() == "[]byte" {
			return p
		}
	}
	return nil
}

// endOfInputFlag: is cond a test of exactly an end-of-input flag bit? returns the successor
// index on which the flag is SET.
func endOfInputFlag(c *Ctx, cond ssa.Value) (name string, setIdx int, ok bool) {
	b, isB := cond.(*ssa.BinOp)
	if !isB || (b.Op != token.NEQ && b.Op != token.EQL) {
		return "", 0, false
	}
	and, isA := b.X.(*ssa.BinOp)
	zero, isZ := constIntOf(b.Y)
	if !isA || and.Op != token.AND || !isZ || zero != 0 {
		return "", 0, false
	}
	mask, isM := constIntOf(and.Y)
	fl := and.X
	if !isM {
		mask, isM = constIntOf(and.X)
		fl = and.Y
	}
	if !isM {
		return "", 0, false
	}
	if _, isParam := fl.(*ssa.Parameter); !isParam {
		// flags |= X in wrappers gives a BinOp; accept values derived from a parameter by OR
		if bo, ok := fl.(*ssa.BinOp); !ok || bo.Op != token.OR {
			return "", 0, false
		}
	}
	want := ""
	if strings.HasSuffix(fl.Type().String(), ".POptFlags") {
		want = "POptInputEndF"
	} else if bt, ok := fl.Type().Underlying().(*types.Basic); ok && bt.Kind() == types.Uint8 {
		want = "SIPMsgNoMoreDataF"
	}
	if want == "" {
		return "", 0, false
	}
	v, okc := c.namedConstInt(want)
	if !okc || v != mask {
		return "", 0, false
	}
	if b.Op == token.NEQ {
		return want, 0, true
	}
	return want, 1, true
}

// exhaustionEdges: (block, succIdx) whose established fact bounds len(buf) from above.
type edge struct {
	from *ssa.BasicBlock
	idx  int
	fact Fact
}

func exhaustionEdges(f *ssa.Function, env *linEnv) (exh []edge, inb []edge) {
	bp := bufParam(f)
	if bp == nil {
		return
	}
	lenKey := "len(param:" + bp.Name() + ")"
	for _, b := range f.Blocks {
		iff, ok := b.Instrs[len(b.Instrs)-1].(*ssa.If)
		if !ok || len(b.Succs) != 2 || b.Succs[0] == b.Succs[1] {
			continue
		}
		// (b) "byte not found in the buffer so far": bytes.IndexByte(buf[..], c) < 0
		// (c) a streaming callee reported more-bytes: err == ErrHdrMoreBytes
		if cb, ok := iff.Cond.(*ssa.BinOp); ok {
			if idx, what := notFoundOrMoreBytes(f, bp, cb); idx >= 0 {
				exh = append(exh, edge{b, idx, Fact{linConst(0), what}})
				continue
			}
		}
		for idx := 0; idx < 2; idx++ {
			for _, fc := range env.condFacts(iff.Cond, idx == 0) {
				cf := fc.L.T[lenKey]
				if cf > 0 {
					exh = append(exh, edge{b, idx, fc})
				} else if cf < 0 {
					inb = append(inb, edge{b, idx, fc})
				}
			}
		}
	}
	return
}

// verdictsUnder explores fn from its entry deciding branch conditions with `facts`
// (callee-side names); returns the union of verdict sets of the returns reached.
func verdictsUnder(c *Ctx, e *errAnalysis, fn *ssa.Function, facts []Fact, depth int) (VSet, bool) {
	env := newLinEnv(linOpts{})
	idx := errResultIndex(fn)
	if idx < 0 || fn.Blocks == nil {
		return 0, false
	}
	var set VSet
	seen := map[*ssa.BasicBlock]bool{}
	var walk func(b *ssa.BasicBlock)
	walk = func(b *ssa.BasicBlock) {
		if seen[b] {
			return
		}
		seen[b] = true
		switch t := b.Instrs[len(b.Instrs)-1].(type) {
		case *ssa.Return:
			set |= returnVerdicts(c, e, fn, t, facts, depth)
		case *ssa.If:
			takeT, takeF := true, true
			for _, fc := range env.condFacts(t.Cond, true) {
				// cond true implies fc; if facts entail NOT fc (i.e. -fc.L + 1 <= 0) the true edge is dead
				if ok, _ := entails(facts, fc.L.scale(-1).add(linConst(1), 1)); ok {
					takeT = false
				}
			}
			for _, fc := range env.condFacts(t.Cond, false) {
				if ok, _ := entails(facts, fc.L.scale(-1).add(linConst(1), 1)); ok {
					takeF = false
				}
			}
			if takeT {
				walk(b.Succs[0])
			}
			if takeF {
				walk(b.Succs[1])
			}
		default:
			for _, s := range b.Succs {
				walk(s)
			}
		}
	}
	walk(fn.Blocks[0])
	return set, true
}

// returnVerdicts: verdict set of one return; when the verdict is the result of a static
// callee invoked at the exhausted position, the callee is analysed under that fact.
func returnVerdicts(c *Ctx, e *errAnalysis, fn *ssa.Function, r *ssa.Return, facts []Fact, depth int) VSet {
	idx := errResultIndex(fn)
	v := r.Results[idx]
	base := e.at(v, r.Block())
	if depth >= 2 {
		return base
	}
	var call *ssa.Call
	switch x := v.(type) {
	case *ssa.Extract:
		call, _ = x.Tuple.(*ssa.Call)
	case *ssa.Call:
		call = x
	}
	if call == nil {
		return base
	}
	g := call.Call.StaticCallee()
	if g == nil || g.Blocks == nil || bufParam(g) == nil || len(call.Call.Args) < 2 {
		return base
	}
	// translate: callee's len(param:buf) - param:offs <= 0  iff caller's len(buf) - arg <= 0 is entailed
	env := newLinEnv(linOpts{})
	gb := bufParam(g)
	bi := -1
	for i, p := range g.Params {
		if p == gb {
			bi = i
		}
	}
	if bi < 0 || bi+1 >= len(call.Call.Args) {
		return base
	}
	cbuf := call.Call.Args[bi]
	if _, isParam := cbuf.(*ssa.Parameter); !isParam {
		return base
	}
	goal := Lin{T: map[string]int64{"len(" + env.sliceKey(cbuf) + ")": 1}}.add(env.norm(call.Call.Args[bi+1]), -1)
	if ok, _ := entails(facts, goal); !ok {
		return base
	}
	cf := []Fact{{Lin{T: map[string]int64{"len(param:" + gb.Name() + ")": 1, "param:" + g.Params[bi+1].Name(): -1}}, "caller passes an exhausted position"}}
	if s, ok := verdictsUnder(c, e, g, cf, depth+1); ok {
		return s & base
	}
	return base
}

// X1: exhaustion => more-bytes.
func ruleX1(c *Ctx) {
	e := newErrAnalysis(c.Prog)
	mb, _ := c.namedConstInt("ErrHdrMoreBytes")
	fns := streamingFuncs(c, e)
	c.check(len(fns) >= 20, "X1", "streaming-functions", token.NoPos, fmt.Sprintf("%d streaming functions discovered", len(fns)))
	nEdges := 0
	for _, f := range fns {
		env := newLinEnv(linOpts{})
		exh, _ := exhaustionEdges(f, env)
		inbAt := map[*ssa.BasicBlock]map[int][]Fact{}
		_, inb := exhaustionEdges(f, env)
		for _, ed := range inb {
			if inbAt[ed.from] == nil {
				inbAt[ed.from] = map[int][]Fact{}
			}
			inbAt[ed.from][ed.idx] = append(inbAt[ed.from][ed.idx], ed.fact)
		}
		cnt := map[string]int{}
		for _, ed := range exh {
			nEdges++
			base := fmt.Sprintf("%s:%s<=0", ssaKey(f), env.pretty(ed.fact.L))
			if ed.fact.L.isConst() {
				base = ssaKey(f) + ":" + ed.fact.Src
			}
			cnt[base]++
			key := base
			if cnt[base] > 1 {
				key += "#" + itoa(cnt[base])
			}
			// forward exploration from the edge target; `known` = error values known to be more-bytes on this path
			type st struct {
				b *ssa.BasicBlock
				k string
			}
			seen := map[st]bool{}
			var bad []string
			exempt, nret := 0, 0
			var walk func(b, from *ssa.BasicBlock, known map[ssa.Value]bool)
			walk = func(b, from *ssa.BasicBlock, known map[ssa.Value]bool) {
				// phis taking a known value along the edge we came through are known too
				nk := known
				for _, ins := range b.Instrs {
					ph, ok := ins.(*ssa.Phi)
					if !ok {
						break
					}
					for i, p := range b.Preds {
						if p == from && known[ph.Edges[i]] {
							if len(nk) == len(known) {
								nk = map[ssa.Value]bool{}
								for k := range known {
									nk[k] = true
								}
							}
							nk[ph] = true
						}
					}
				}
				known = nk
				key := st{b, fmt.Sprint(len(known))}
				if seen[key] {
					return
				}
				seen[key] = true
				switch t := b.Instrs[len(b.Instrs)-1].(type) {
				case *ssa.Return:
					nret++
					s := returnVerdicts(c, e, f, t, []Fact{ed.fact}, 0)
					if known[t.Results[errResultIndex(f)]] {
						s = 1 << uint(mb)
					}
					if nocr, _ := c.namedConstInt("ErrHdrNoCR"); ssaKey(f) == "skipCRLF" && s == 1<<uint(nocr) {
						c.excepted("X1", "skipCRLF:NoCR-at-last-byte", t.Pos(), "named exception: ErrHdrNoCR with one byte left depends only on buf[i] (in range, not CR/LF); the long path returns the same verdict for the same byte")
						return
					}
					if s&^(1<<uint(mb)) != 0 {
						bad = append(bad, fmt.Sprintf("%s returns %s", c.pos(t.Pos()), e.setName("ErrorHdr", s)))
					}
				case *ssa.If:
					if _, setIdx, ok := endOfInputFlag(c, t.Cond); ok {
						exempt++
						walk(b.Succs[1-setIdx], b, known) // only the flag-clear edge stays under the rule
						return
					}
					for i, s := range b.Succs {
						dead := false
						for _, g := range inbAt[b][i] {
							// in-bounds fact g (Q+1-len<=0) together with the exhaustion fact (len-P<=0)
							// gives Q+1-P<=0; if that is a positive constant the path is infeasible:
							// the guard covers the exhausted position, the buffer has not ended there
							sum := g.L.add(ed.fact.L, 1)
							if sum.isConst() && sum.C > 0 && !ed.fact.L.isConst() {
								dead = true
							}
						}
						if dead {
							continue
						}
						walk(s, b, known)
					}
				default:
					for _, s := range b.Succs {
						walk(s, b, known)
					}
				}
			}
			init := map[ssa.Value]bool{}
			if cb, ok := ed.from.Instrs[len(ed.from.Instrs)-1].(*ssa.If).Cond.(*ssa.BinOp); ok && isErrType(cb.X.Type()) != "" && ed.fact.L.isConst() {
				init[cb.X] = true
			}
			walk(ed.from.Succs[ed.idx], ed.from, init)
			pos := ed.from.Instrs[len(ed.from.Instrs)-1].(*ssa.If).Cond.Pos()
			if len(bad) > 0 {
				c.fail("X1", key, pos, "a return reachable from this buffer-exhaustion edge carries a verdict other than more-bytes outside end-of-input mode: "+strings.Join(bad, "; "))
			} else {
				c.ok("X1", key, pos, fmt.Sprintf("every one of the %d returns reachable from this exhaustion edge is more-bytes (%d end-of-input flag tests exempted)", nret, exempt))
			}
		}
	}
	c.check(nEdges >= 25, "X1", "edge-count", token.NoPos, fmt.Sprintf("%d buffer-exhaustion edges analysed (frozen minimum 25)", nEdges))
}

func init() {
	register(&PropDef{
		ID: "C03",
		Rules: []Rule{
			{"X1", "in every streaming function, every return reachable from a CFG edge that establishes 'the buffer ended' (an upper bound on len(buf)), without first re-establishing an in-bounds guard, has verdict set {more-bytes} (E-ERR), unless the path passed a test of an end-of-input flag; callees invoked at the exhausted position are analysed under that fact", ruleX1},
			{"X4", "no streaming function (continuation offset + more-bytes verdict) sets an end-of-input bit by itself: every constant it ORs into a flags value or passes on as a flags argument has POptInputEndF / SIPMsgNoMoreDataF clear", ruleX4},
			{"X2", "len(buf) flows into an offset / field / call argument only in blocks dominated by the flag-set edge of an end-of-input flag test; one named exception: the body of a message without Content-Length", ruleX2},
		},
		Assumptions: []string{"a verdict that does not depend on the buffer having ended cannot change when the buffer grows (decided separately by the look-ahead guards, C04-G)"},
		NotDecided:  "premature verdicts that do not involve the buffer end; equality of offsets and values on the extended buffer",
	})
}

// X4: a streaming function (one that returns a continuation offset and may ask for more bytes) never switches
// end-of-input mode on by itself: no constant it ORs into a flags value, and no constant flags argument it
// passes on, has an end-of-input bit set. Only its caller knows whether the buffer is the whole input.
func ruleX4(c *Ctx) {
	e := newErrAnalysis(c.Prog)
	n := 0
	endBit := func(t types.Type) (string, int64, bool) {
		want := ""
		if strings.HasSuffix(t.String(), ".POptFlags") {
			want = "POptInputEndF"
		} else if bt, ok := t.Underlying().(*types.Basic); ok && bt.Kind() == types.Uint8 {
			want = "SIPMsgNoMoreDataF"
		}
		if want == "" {
			return "", 0, false
		}
		v, ok := c.namedConstInt(want)
		return want, v, ok
	}
	for _, f := range streamingFuncs(c, e) {
		if f.Signature.Results().Len() < 2 || !isIntType(f.Signature.Results().At(0).Type()) {
			continue
		}
		fk := ssaKey(f)
		cnt := 0
		for _, b := range f.Blocks {
			for _, ins := range b.Instrs {
				var consts []*ssa.Const
				what := ""
				switch x := ins.(type) {
				case *ssa.BinOp:
					if x.Op != token.OR {
						continue
					}
					for _, o := range []ssa.Value{x.X, x.Y} {
						if k, ok := o.(*ssa.Const); ok {
							consts = append(consts, k)
						}
					}
					what = "ORs into a flags value"
				case *ssa.Call:
					cal := x.Call.StaticCallee()
					if cal == nil || cal.Pkg != f.Pkg {
						continue
					}
					for i, a := range x.Call.Args {
						if k, ok := a.(*ssa.Const); ok && i < len(cal.Params) && (strings.HasSuffix(cal.Params[i].Type().String(), ".POptFlags") || strings.Contains(strings.ToLower(cal.Params[i].Name()), "flag")) {
							consts = append(consts, k)
						}
					}
					what = "passes to " + cal.Name() + "() as flags"
				}
				for _, k := range consts {
					name, bit, ok := endBit(k.Type())
					if !ok {
						continue
					}
					v, isC := constIntOf(k)
					if !isC {
						continue
					}
					// uint8 constants: only those used as message flags (a callee flags parameter / flags-derived OR)
					if name == "SIPMsgNoMoreDataF" {
						if _, isCall := ins.(*ssa.Call); !isCall {
							bo := ins.(*ssa.BinOp)
							if !derivedFromFlagsParam(bo.X, 0) && !derivedFromFlagsParam(bo.Y, 0) {
								continue
							}
						}
					}
					cnt++
					n++
					c.check(v&bit == 0, "X4", fmt.Sprintf("%s:flags-const#%d", fk, cnt), ins.Pos(), fmt.Sprintf("the constant %#x this streaming function %s has the end-of-input bit %s clear (only the caller may declare the buffer complete)", v, what, name))
				}
			}
		}
	}
	c.check(n >= 5, "X4", "const-count", token.NoPos, fmt.Sprintf("%d flags constants in streaming functions inspected (frozen minimum 5)", n))
}

func derivedFromFlagsParam(v ssa.Value, depth int) bool {
	if depth > 4 {
		return false
	}
	switch x := v.(type) {
	case *ssa.Parameter:
		return strings.Contains(strings.ToLower(x.Name()), "flag")
	case *ssa.BinOp:
		return derivedFromFlagsParam(x.X, depth+1) || derivedFromFlagsParam(x.Y, depth+1)
	case *ssa.Phi:
		for _, e := range x.Edges {
			if derivedFromFlagsParam(e, depth+1) {
				return true
			}
		}
	}
	return false
}

// X2: len(buf) never becomes an offset outside end-of-input mode.
func ruleX2(c *Ctx) {
	e := newErrAnalysis(c.Prog)
	n := 0
	for _, f := range streamingFuncs(c, e) {
		bp := bufParam(f)
		// values derived from len(buf) by arithmetic / phi
		der := map[ssa.Value]bool{}
		for _, b := range f.Blocks {
			for _, ins := range b.Instrs {
				if call, ok := ins.(*ssa.Call); ok {
					if bi, ok := call.Call.Value.(*ssa.Builtin); ok && bi.Name() == "len" && call.Call.Args[0] == ssa.Value(bp) {
						der[call] = true
					}
				}
			}
		}
		type use struct {
			ins  ssa.Instruction
			at   *ssa.BasicBlock
			what string
		}
		var uses []use
		// only direct (un-modified) flows of len(buf) are offsets; len(buf)-i etc. are lengths used in tests
		changed := true
		for changed {
			changed = false
			for _, b := range f.Blocks {
				for _, ins := range b.Instrs {
					if ph, ok := ins.(*ssa.Phi); ok && !der[ph] {
						for _, ed := range ph.Edges {
							if der[ed] {
								der[ph] = true
								changed = true
							}
						}
					}
				}
			}
		}
		for _, b := range f.Blocks {
			for _, ins := range b.Instrs {
				switch x := ins.(type) {
				case *ssa.Phi:
					for i, ed := range x.Edges {
						if _, isLen := ed.(*ssa.Call); isLen && der[ed] {
							uses = append(uses, use{x, b.Preds[i], "assigned to " + phiName(x)})
						}
					}
				case *ssa.Return:
					for _, r := range x.Results {
						if _, isLen := r.(*ssa.Call); isLen && der[r] {
							uses = append(uses, use{x, b, "returned"})
						}
					}
				case *ssa.Store:
					if _, isLen := x.Val.(*ssa.Call); isLen && der[x.Val] {
						uses = append(uses, use{x, b, "stored"})
					}
				case *ssa.Call:
					if _, isB := x.Call.Value.(*ssa.Builtin); isB {
						continue
					}
					for _, a := range x.Call.Args {
						if _, isLen := a.(*ssa.Call); isLen && der[a] {
							uses = append(uses, use{x, b, "passed to " + x.Call.Value.Name()})
						}
					}
				case *ssa.Slice:
					for _, a := range []ssa.Value{x.Low, x.High} {
						if a != nil {
							if _, isLen := a.(*ssa.Call); isLen && der[a] {
								uses = append(uses, use{x, b, "slice bound"})
							}
						}
					}
				}
			}
		}
		cnt := map[string]int{}
		for _, u := range uses {
			n++
			base := ssaKey(f) + ":" + u.what
			cnt[base]++
			key := base
			if cnt[base] > 1 {
				key += "#" + itoa(cnt[base])
			}
			// dominated by a flag-set edge?
			okFlag := ""
			var preds []string
			for cur := u.at; cur != nil; cur = cur.Idom() {
				d := cur.Idom()
				if d == nil {
					break
				}
				iff, ok := d.Instrs[len(d.Instrs)-1].(*ssa.If)
				if !ok || len(cur.Preds) != 1 || cur.Preds[0] != d {
					continue
				}
				if name, setIdx, ok := endOfInputFlag(c, iff.Cond); ok && d.Succs[setIdx] == cur {
					okFlag = name
				}
				preds = append(preds, condText(c, iff.Cond, d.Succs[0] == cur))
			}
			pos := u.ins.Pos()
			if !pos.IsValid() {
				pos = u.at.Instrs[len(u.at.Instrs)-1].Pos()
			}
			switch {
			case okFlag != "":
				c.ok("X2", key, pos, "len(buf) "+u.what+" only under the end-of-input flag "+okFlag)
			case ssaKey(f) == "ParseSIPMsg" && containsAll(preds, "!CLen.Parsed()", "SIPMsgCLenReqF clear"):
				c.excepted("X2", key, pos, "documented exemption: the body of a message without Content-Length is the rest of the buffer (guard: "+strings.Join(preds, " && ")+")")
			default:
				c.fail("X2", key, pos, "len(buf) "+u.what+" outside end-of-input mode (guards: "+strings.Join(preds, " && ")+")")
			}
		}
	}
	c.check(n >= 3, "X2", "use-count", token.NoPos, fmt.Sprintf("%d flows of len(buf) into offsets found (frozen minimum 3)", n))
}

func containsAll(hay []string, needles ...string) bool {
	for _, n := range needles {
		found := false
		for _, h := range hay {
			if strings.Contains(h, n) {
				found = true
			}
		}
		if !found {
			return false
		}
	}
	return true
}

// condText renders a branch condition in stable words for the predicates this rule knows.
func condText(c *Ctx, cond ssa.Value, truth bool) string {
	neg := func(s string) string {
		if truth {
			return s
		}
		return "!" + s
	}
	switch x := cond.(type) {
	case *ssa.Call:
		if cal := x.Call.StaticCallee(); cal != nil {
			recv := ""
			if len(x.Call.Args) > 0 {
				recv = valuePath(x.Call.Args[0])
				if i := strings.LastIndex(recv, "."); i >= 0 {
					recv = recv[i+1:]
				}
			}
			return neg(recv + "." + cal.Name() + "()")
		}
	case *ssa.UnOp:
		if x.Op == token.NOT {
			return condText(c, x.X, !truth)
		}
	case *ssa.BinOp:
		if and, ok := x.X.(*ssa.BinOp); ok && and.Op == token.AND {
			if m, ok := constIntOf(and.Y); ok {
				if z, ok := constIntOf(x.Y); ok && z == 0 {
					set := (x.Op == token.NEQ) == truth
					name := fmt.Sprintf("flag&%#x", m)
					for _, cn := range []string{"SIPMsgSkipBodyF", "SIPMsgCLenReqF", "SIPMsgNoMoreDataF"} {
						if v, ok := c.namedConstInt(cn); ok && v == m && and.X.Type().String() == "uint8" {
							name = cn
						}
					}
					if set {
						return name + " set"
					}
					return name + " clear"
				}
			}
		}
		return neg(x.String())
	}
	return neg(cond.Name())
}

// notFoundOrMoreBytes recognises two further ways of learning that the buffer has ended:
// a negative bytes.IndexByte result on (a slice of) the buffer, and a callee verdict == ErrHdrMoreBytes.
// Returns the successor index on which that is the case, or -1.
func notFoundOrMoreBytes(f *ssa.Function, bp *ssa.Parameter, cb *ssa.BinOp) (int, string) {
	k, isC := constIntOf(cb.Y)
	v := cb.X
	if !isC {
		return -1, ""
	}
	if call, ok := v.(*ssa.Call); ok {
		if cal := call.Call.StaticCallee(); cal != nil && cal.Pkg != nil && cal.Pkg.Pkg.Path() == "bytes" && cal.Name() == "IndexByte" {
			if addrRoot(call.Call.Args[0]) == "param:"+bp.Name() || call.Call.Args[0] == ssa.Value(bp) {
				what := "IndexByte(" + bp.Name() + "[..]) not found"
				switch {
				case cb.Op == token.GEQ && k == 0, cb.Op == token.NEQ && k == -1, cb.Op == token.GTR && k == -1:
					return 1, what
				case cb.Op == token.LSS && k == 0, cb.Op == token.EQL && k == -1, cb.Op == token.LEQ && k == -1:
					return 0, what
				}
			}
		}
	}
	if isErrType(v.Type()) == "ErrorHdr" && k == 3 { // ErrHdrMoreBytes
		var call *ssa.Call
		switch x := v.(type) {
		case *ssa.Extract:
			call, _ = x.Tuple.(*ssa.Call)
		case *ssa.Call:
			call = x
		}
		if call != nil && call.Call.StaticCallee() != nil {
			what := call.Call.StaticCallee().Name() + "() == more-bytes"
			if cb.Op == token.EQL {
				return 0, what
			}
			if cb.Op == token.NEQ {
				return 1, what
			}
		}
	}
	return -1, ""
}
