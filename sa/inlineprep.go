package main

import (
	"fmt"
	"go/ast"
	"go/types"
	"os"
	"os/exec"
	"path/filepath"
	"sort"
	"strings"

	"golang.org/x/tools/go/packages"

	"sipspsa/xt/inline"
)

// Helper-extraction neutraliser. The rules are anchored on the functions of the pinned tree (pristineFuncs). A tree
// that moves analysed code into a NEW package-level function or method (an extracted epilogue, a slot-selection
// helper, an accumulator step) would make offset bounds, kinds, byte sets and automata lose their anchors although
// nothing behaves differently. Before analysis, every static call to a function that is not in the pinned name set is
// inlined back into its caller, source to source, with a copy of golang.org/x/tools/internal/refactor/inline
// (v0.29.0, BSD-3-Clause, vendored under xt/ with import paths rewritten). The transformed package is written to a
// scratch copy outside /repo and /verif and analysed instead; on the pinned tree there is nothing to inline and the
// tree is analysed as it is. Inlining is a semantics-preserving transformation (the inliner falls back to a function
// literal when it cannot splice the body), so a violation in the inlined program is a violation in the original.

// inlineForeignHelpers returns the directory to analyse (dir itself when nothing was inlined), the number of calls
// inlined, and a cleanup function.
func inlineForeignHelpers(dir string) (string, int, []string, func(), error) {
	noop := func() {}
	foreign, err := foreignFuncs(dir)
	if err != nil || len(foreign) == 0 {
		return dir, 0, nil, noop, err
	}
	tmp, err := os.MkdirTemp("", "sipsp-inl.")
	if err != nil {
		return dir, 0, nil, noop, err
	}
	cleanup := func() { os.RemoveAll(tmp) }
	if out, err := exec.Command("rsync", "-a", "--exclude", ".git", dir+"/", tmp+"/").CombinedOutput(); err != nil {
		cleanup()
		return dir, 0, nil, noop, fmt.Errorf("copy for inlining: %v %s", err, out)
	}
	n := 0
	var log []string
	failed := map[string]bool{}
	for round := 0; round < 300; round++ {
		did, what, err := inlineOne(tmp, failed)
		if err != nil {
			log = append(log, "inliner: "+err.Error())
			break
		}
		if !did {
			break
		}
		if strings.HasPrefix(what, "inlined ") {
			n++
		}
		log = append(log, what)
	}
	if n == 0 {
		cleanup()
		return dir, 0, log, noop, nil
	}
	return tmp, n, log, cleanup, nil
}

func loadForInline(dir string) (*packages.Package, error) {
	env := append(os.Environ(), "GOFLAGS=-mod=mod", "GOPROXY=off", "GOSUMDB=off", "GOTOOLCHAIN=local", "GOWORK=off")
	conf := &packages.Config{
		Mode: packages.NeedName | packages.NeedFiles | packages.NeedCompiledGoFiles | packages.NeedSyntax | packages.NeedTypes | packages.NeedTypesInfo | packages.NeedImports | packages.NeedDeps,
		Dir:  dir,
		Env:  env,
	}
	pkgs, err := packages.Load(conf, ".")
	if err != nil {
		return nil, err
	}
	if len(pkgs) != 1 || len(pkgs[0].Errors) > 0 {
		return nil, fmt.Errorf("package does not load cleanly for inlining")
	}
	return pkgs[0], nil
}

// foreignFuncs: declared functions of the package whose name is not in the pinned set.
func foreignFuncs(dir string) (map[string]bool, error) {
	pkg, err := loadForInline(dir)
	if err != nil {
		return nil, err
	}
	out := map[string]bool{}
	for _, f := range pkg.Syntax {
		for _, d := range f.Decls {
			if fd, ok := d.(*ast.FuncDecl); ok && fd.Body != nil && fd.Name.Name != "init" && !pristineFuncs[declKey(fd)] {
				out[declKey(fd)] = true
			}
		}
	}
	return out, nil
}

// inlineOne inlines one call to a foreign function made from a pinned function (or from anywhere), rewriting the
// caller's file in dir.
func inlineOne(dir string, failed map[string]bool) (bool, string, error) {
	pkg, err := loadForInline(dir)
	if err != nil {
		return false, "", err
	}
	decls := map[*types.Func]*ast.FuncDecl{}
	declFile := map[*ast.FuncDecl]*ast.File{}
	for _, f := range pkg.Syntax {
		for _, d := range f.Decls {
			if fd, ok := d.(*ast.FuncDecl); ok && fd.Body != nil {
				if fn, ok := pkg.TypesInfo.Defs[fd.Name].(*types.Func); ok {
					decls[fn] = fd
					declFile[fd] = f
				}
			}
		}
	}
	type site struct {
		file   *ast.File
		call   *ast.CallExpr
		callee *ast.FuncDecl
		caller string
		pos    string
	}
	var sites []site
	for _, f := range pkg.Syntax {
		for _, d := range f.Decls {
			fd, ok := d.(*ast.FuncDecl)
			if !ok || fd.Body == nil {
				continue
			}
			// calls made from foreign helpers themselves are handled once those are inlined into pinned code
			if !pristineFuncs[declKey(fd)] && fd.Name.Name != "init" {
				continue
			}
			ast.Inspect(fd.Body, func(n ast.Node) bool {
				call, ok := n.(*ast.CallExpr)
				if !ok {
					return true
				}
				var id *ast.Ident
				switch fun := call.Fun.(type) {
				case *ast.Ident:
					id = fun
				case *ast.SelectorExpr:
					id = fun.Sel
				}
				if id == nil {
					return true
				}
				fn, ok := pkg.TypesInfo.Uses[id].(*types.Func)
				if !ok || fn.Pkg() != pkg.Types {
					return true
				}
				cd := decls[fn]
				if cd == nil || pristineFuncs[declKey(cd)] || cd == fd {
					return true
				}
				p := pkg.Fset.Position(call.Pos())
				k := fmt.Sprintf("%s:%d:%d", filepath.Base(p.Filename), p.Line, p.Column)
				if failed[declKey(fd)+"->"+declKey(cd)+"@"+k] {
					return true
				}
				sites = append(sites, site{f, call, cd, declKey(fd), k})
				return true
			})
		}
	}
	if len(sites) == 0 {
		return false, "", nil
	}
	sort.Slice(sites, func(i, j int) bool { return sites[i].pos < sites[j].pos })
	s := sites[0]
	callerName := pkg.Fset.File(s.file.Pos()).Name()
	callerContent, err := os.ReadFile(callerName)
	if err != nil {
		return false, "", err
	}
	calleeFileName := pkg.Fset.File(declFile[s.callee].Pos()).Name()
	calleeContent, err := os.ReadFile(calleeFileName)
	if err != nil {
		return false, "", err
	}
	callee, err := inline.AnalyzeCallee(func(string, ...any) {}, pkg.Fset, pkg.Types, pkg.TypesInfo, s.callee, calleeContent)
	if err != nil {
		failed[s.caller+"->"+declKey(s.callee)+"@"+s.pos] = true
		return true, fmt.Sprintf("could not analyse %s for inlining: %v", declKey(s.callee), err), nil
	}
	res, err := inline.Inline(&inline.Caller{Fset: pkg.Fset, Types: pkg.Types, Info: pkg.TypesInfo, File: s.file, Call: s.call, Content: callerContent}, callee, &inline.Options{})
	if err != nil {
		failed[s.caller+"->"+declKey(s.callee)+"@"+s.pos] = true
		return true, fmt.Sprintf("could not inline %s into %s at %s: %v", declKey(s.callee), s.caller, s.pos, err), nil
	}
	if res.Literalized {
		// a function literal would turn the caller's locals into captured cells: worse for every analysis than
		// the call it replaces, so the call is left as it is
		failed[s.caller+"->"+declKey(s.callee)+"@"+s.pos] = true
		return true, fmt.Sprintf("left the call to %s in %s at %s (it could only be inlined as a function literal)", declKey(s.callee), s.caller, s.pos), nil
	}
	if err := os.WriteFile(callerName, res.Content, 0o644); err != nil {
		return false, "", err
	}
	return true, fmt.Sprintf("inlined %s into %s at %s", declKey(s.callee), s.caller, s.pos), nil
}

var _ = strings.TrimSpace
