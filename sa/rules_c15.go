package main

import (
	"fmt"
	"go/ast"
	"go/token"
	"go/types"
	"sort"
	"strings"

	"golang.org/x/tools/go/ssa"
)

// Q1: out-parameter pairing in URIParseCmp (SSA def-use on the local allocs).
func ruleQ1(c *Ctx) {
	fn := c.SFuncs["URIParseCmp"]
	if fn == nil {
		c.fail("Q1", "URIParseCmp", token.NoPos, "not found")
		return
	}
	var raws, outs []*ssa.Parameter
	for _, p := range fn.Params {
		switch {
		case p.Type().String() == "[]byte":
			raws = append(raws, p)
		case strings.HasSuffix(p.Type().String(), ".PsipURI") && strings.HasPrefix(p.Type().String(), "*"):
			outs = append(outs, p)
		}
	}
	if len(raws) != 2 || len(outs) != 2 {
		c.fail("Q1", "URIParseCmp:sig", fn.Pos(), "expected two raw inputs and two out-parameters")
		return
	}
	idx := func(ps []*ssa.Parameter, v ssa.Value) int {
		if ct, ok := v.(*ssa.ChangeType); ok {
			v = ct.X
		}
		for i, p := range ps {
			if v == ssa.Value(p) {
				return i
			}
		}
		return -1
	}
	allocOf := map[ssa.Value]int{} // alloc -> raw index it was parsed from
	for _, b := range fn.Blocks {
		for _, ins := range b.Instrs {
			call, ok := ins.(*ssa.Call)
			if !ok || call.Call.StaticCallee() == nil || call.Call.StaticCallee().Name() != "ParseURI" {
				continue
			}
			k := idx(raws, call.Call.Args[0])
			if al, ok := call.Call.Args[1].(*ssa.Alloc); ok && k >= 0 {
				if old, dup := allocOf[al]; dup && old != k {
					c.fail("Q1", "URIParseCmp:parse", call.Pos(), "one local receives both parses")
				}
				allocOf[al] = k
				c.ok("Q1", "URIParseCmp:parse:"+itoa(k+1), call.Pos(), fmt.Sprintf("raw input %d is parsed into local %s", k+1, al.Comment))
			} else {
				c.fail("Q1", "URIParseCmp:parse", call.Pos(), "ParseURI call not (raw_k, &local)")
			}
		}
	}
	nst := 0
	for _, b := range fn.Blocks {
		for _, ins := range b.Instrs {
			switch x := ins.(type) {
			case *ssa.Store:
				k := idx(outs, x.Addr)
				if k < 0 {
					continue
				}
				nst++
				ld, ok := x.Val.(*ssa.UnOp)
				src, has := -1, false
				if ok && ld.Op == token.MUL {
					src, has = allocOf[ld.X]
				}
				c.check(has && src == k, "Q1", "URIParseCmp:out:"+itoa(k+1), x.Pos(),
					fmt.Sprintf("out-parameter %d receives the URI parsed from raw input %d (got input %d)", k+1, k+1, src+1))
			case *ssa.Call:
				if cal := x.Call.StaticCallee(); cal != nil && cal.Name() == "URICmp" {
					a := x.Call.Args
					k1, h1 := allocOf[a[0]]
					k2, h2 := allocOf[a[2]]
					c.check(h1 && h2 && k1 == 0 && k2 == 1 && idx(raws, a[1]) == 0 && idx(raws, a[3]) == 1, "Q1", "URIParseCmp:cmp", x.Pos(),
						"URICmp receives (&u1, raw1, &u2, raw2): each parsed URI with its own buffer")
				}
			}
		}
	}
	c.check(nst == 2, "Q1", "URIParseCmp:outs", fn.Pos(), fmt.Sprintf("both out-parameters are stored (%d stores)", nst))
	// URIRawCmp delegates with nil outs
	if fd := c.Decls["URIRawCmp"]; fd != nil {
		s := c.src(fd.Body)
		c.check(patIn(s, "URIParseCmp(@a, @b, @f, nil, nil)"), "Q1", "URIRawCmp", fd.Pos(), "raw compare is the parse-and-compare entry point with no outs")
	}
}

// canon renders an expression with operands of commutative operators sorted.
func canon(c *Ctx, e ast.Expr, ren map[string]string) string {
	e = unparen(e)
	switch x := e.(type) {
	case *ast.Ident:
		if r, ok := ren[x.Name]; ok {
			return r
		}
		return x.Name
	case *ast.BinaryExpr:
		switch x.Op {
		case token.LAND, token.LOR:
			var parts []string
			var flat func(e ast.Expr)
			flat = func(e ast.Expr) {
				e = unparen(e)
				if b, ok := e.(*ast.BinaryExpr); ok && b.Op == x.Op {
					flat(b.X)
					flat(b.Y)
					return
				}
				parts = append(parts, canon(c, e, ren))
			}
			flat(x)
			sort.Strings(parts)
			return "(" + strings.Join(parts, " "+x.Op.String()+" ") + ")"
		case token.EQL, token.NEQ, token.ADD, token.MUL, token.AND, token.OR:
			a, b := canon(c, x.X, ren), canon(c, x.Y, ren)
			if a > b {
				a, b = b, a
			}
			return "(" + a + " " + x.Op.String() + " " + b + ")"
		}
		return "(" + canon(c, x.X, ren) + " " + x.Op.String() + " " + canon(c, x.Y, ren) + ")"
	case *ast.UnaryExpr:
		return x.Op.String() + canon(c, x.X, ren)
	case *ast.SelectorExpr:
		if _, isPkg := c.Info.Uses[identOf(x.X)].(*types.PkgName); isPkg {
			return c.src(x)
		}
		return canon(c, x.X, ren) + "." + x.Sel.Name
	case *ast.CallExpr:
		var args []string
		for _, a := range x.Args {
			args = append(args, canon(c, a, ren))
		}
		name := c.calleeName(x)
		if name == "bytes.Equal" || name == "bytescase.CmpEq" {
			sort.Strings(args)
		}
		return canon(c, x.Fun, ren) + "(" + strings.Join(args, ",") + ")"
	}
	return c.src(e)
}

func identOf(e ast.Expr) *ast.Ident {
	id, _ := unparen(e).(*ast.Ident)
	return id
}

// Q2: URICmpShort is symmetric under swapping its two (uri, buffer) pairs.
func ruleQ2(c *Ctx) {
	fd := c.Decls["URICmpShort"]
	if fd == nil {
		c.fail("Q2", "URICmpShort", token.NoPos, "not found")
		return
	}
	var ret *ast.ReturnStmt
	if len(fd.Body.List) == 1 {
		ret, _ = fd.Body.List[0].(*ast.ReturnStmt)
	}
	if ret == nil || len(ret.Results) != 1 {
		// not one boolean expression (early returns, if chain): the same statement is decided on SSA — every
		// side-bearing condition and every boolean handed back is a commutative comparison of mirror-image operands
		n := symCheck(c, "Q2", "URICmpShort")
		c.check(n >= 5, "Q2", "URICmpShort:symmetric", fd.Pos(), fmt.Sprintf("%d side-bearing comparisons of URICmpShort are mirror images under swapping (u1,buf1) and (u2,buf2)", n))
		return
	}
	var names []string
	for _, f := range fd.Type.Params.List {
		for _, n := range f.Names {
			names = append(names, n.Name)
		}
	}
	if len(names) != 5 {
		c.fail("Q2", "URICmpShort:sig", fd.Pos(), "unexpected signature")
		return
	}
	swap := map[string]string{names[0]: names[2], names[2]: names[0], names[1]: names[3], names[3]: names[1]}
	a := canon(c, ret.Results[0], nil)
	b := canon(c, ret.Results[0], swap)
	c.check(a == b, "Q2", "URICmpShort:symmetric", ret.Pos(), "the comparison expression is invariant under swapping (u1,buf1) and (u2,buf2) modulo commutativity of ==, &&, bytes.Equal, CmpEq")
}

// compareLeaves lists comparison leaves "Component:comparator" found in a function body.
func compareLeaves(c *Ctx, n ast.Node) []string {
	var out []string
	comp := func(e ast.Expr) string {
		s := c.src(e)
		// u1.User.Get(buf1) -> User ; l1.Params[i].Param.Name.Get(buf1) -> Param.Name ; u1.URIType -> URIType
		s = strings.TrimSuffix(s, ")")
		if i := strings.Index(s, ".Get("); i >= 0 {
			s = s[:i]
		}
		if i := strings.Index(s, "]."); i >= 0 {
			return s[i+2:]
		}
		if i := strings.Index(s, "."); i >= 0 {
			return s[i+1:]
		}
		return s
	}
	ast.Inspect(n, func(x ast.Node) bool {
		switch e := x.(type) {
		case *ast.CallExpr:
			name := c.calleeName(e)
			if (name == "bytes.Equal" || name == "bytescase.CmpEq") && len(e.Args) == 2 {
				a, b := comp(e.Args[0]), comp(e.Args[1])
				if a == b {
					out = append(out, a+":"+name)
				} else {
					out = append(out, a+"/"+b+":"+name)
				}
			}
		case *ast.BinaryExpr:
			if e.Op == token.EQL || e.Op == token.NEQ {
				if _, isC := c.constInt(e.Y); isC {
					return true
				}
				a, b := comp(e.X), comp(e.Y)
				if a == b && strings.Contains(c.src(e.X), ".") && !strings.ContainsAny(a, "( &") {
					out = append(out, a+":"+e.Op.String())
				}
			}
		}
		return true
	})
	sort.Strings(out)
	return out
}

// Q3: comparator table.
func ruleQ3(c *Ctx) {
	want := map[string][]string{
		"URICmpShort":    {"Host:bytescase.CmpEq", "Pass:bytes.Equal", "PortNo:==", "URIType:==", "User:bytes.Equal"},
		"URIParamsLstEq": {"Param.Name:bytescase.CmpEq", "Param.Val:bytescase.CmpEq", "T:=="},
		"URIHdrsLstEq":   {"Name:bytescase.CmpEq", "Val:bytescase.CmpEq"},
	}
	for fnName, w := range want {
		fd := c.Decls[fnName]
		if fd == nil {
			c.fail("Q3", fnName, token.NoPos, "not found")
			continue
		}
		got := compareLeaves(c, fd.Body)
		c.check(strings.Join(got, " ") == strings.Join(w, " "), "Q3", fnName+":comparators", fd.Pos(),
			fmt.Sprintf("component -> comparator table is %v (got %v)", w, got))
	}
	// URIParamResolve: known names, each under the length case of its own length, compared with CmpEq
	fd := c.Decls["URIParamResolve"]
	wantNames := map[string]string{"transport": "URIParamTransportF", "user": "URIParamUserF", "method": "URIParamMethodF",
		"ttl": "URIParamTTLF", "maddr": "URIParamMaddrF", "lr": "URIParamLRF"}
	got := map[string]string{}
	if fd != nil {
		ast.Inspect(fd.Body, func(n ast.Node) bool {
			cl, ok := n.(*ast.CaseClause)
			if !ok || len(cl.List) != 1 {
				return true
			}
			k, _ := c.constInt(cl.List[0])
			for _, s := range cl.Body {
				is, ok := s.(*ast.IfStmt)
				if !ok {
					continue
				}
				call, ok := is.Cond.(*ast.CallExpr)
				if !ok || c.calleeName(call) != "bytescase.CmpEq" || len(call.Args) != 2 {
					c.fail("Q3", "URIParamResolve:cmp", is.Pos(), "known-parameter test is not CmpEq(name, literal)")
					continue
				}
				lit, ok := c.byteSliceLit(call.Args[1])
				if !ok {
					continue
				}
				c.check(int64(len(lit)) == k && isLowerASCII(lit), "Q3", "URIParamResolve:len:"+lit, is.Pos(), fmt.Sprintf("%q sits under the length case %d and is lower-case", lit, k))
				for _, bs := range is.Body.List {
					if r, ok := bs.(*ast.ReturnStmt); ok && len(r.Results) == 1 {
						got[lit] = c.constName(r.Results[0])
					}
				}
			}
			return true
		})
		last := fd.Body.List[len(fd.Body.List)-1]
		r, ok := last.(*ast.ReturnStmt)
		c.check(ok && c.constName(r.Results[0]) == "URIParamOtherF", "Q3", "URIParamResolve:other", last.Pos(), "unknown names resolve to URIParamOtherF")
	}
	for n, f := range wantNames {
		c.check(got[n] == f, "Q3", "URIParamResolve:"+n, token.NoPos, fmt.Sprintf("%q resolves to %s (got %q)", n, f, got[n]))
	}
	c.check(len(got) == len(wantNames), "Q3", "URIParamResolve:count", token.NoPos, "exactly the six known parameters")
	// flag constants are distinct single bits
	seen := map[int64]string{}
	for _, f := range []string{"URIParamTransportF", "URIParamUserF", "URIParamMethodF", "URIParamTTLF", "URIParamMaddrF", "URIParamLRF", "URIParamOtherF"} {
		v, ok := c.namedConstInt(f)
		c.check(ok && v != 0 && v&(v-1) == 0 && seen[v] == "", "Q3", "flagbit:"+f, token.NoPos, "type flag is a distinct single bit")
		seen[v] = f
	}
}

// --- boolean reconstruction for Q4 ---

type boolEnv struct {
	c      *Ctx
	atoms  map[string]int // atom name -> bit index
	order  []string
	assign uint64
	vars   map[string]bool
	flagOf map[string]string // atom -> flag constant (flag atoms)
	fail   string
}

func (b *boolEnv) atom(name, flag string) bool {
	i, ok := b.atoms[name]
	if !ok {
		i = len(b.order)
		b.atoms[name] = i
		b.order = append(b.order, name)
		if flag != "" {
			b.flagOf[name] = flag
		}
	}
	return b.assign&(1<<uint(i)) != 0
}

func (b *boolEnv) eval(e ast.Expr, ren map[string]string) bool {
	e = unparen(e)
	switch x := e.(type) {
	case *ast.Ident:
		if v, ok := b.vars[x.Name]; ok {
			return v
		}
		if x.Name == "true" {
			return true
		}
		if x.Name == "false" {
			return false
		}
	case *ast.UnaryExpr:
		if x.Op == token.NOT {
			return !b.eval(x.X, ren)
		}
	case *ast.BinaryExpr:
		switch x.Op {
		case token.LAND: // both sides always evaluated so that every atom is discovered
			l, r := b.eval(x.X, ren), b.eval(x.Y, ren)
			return l && r
		case token.LOR:
			l, r := b.eval(x.X, ren), b.eval(x.Y, ren)
			return l || r
		case token.EQL, token.NEQ:
			// (flags & F) ==/!= 0
			if k, isC := b.c.constInt(x.Y); isC && k == 0 {
				if m, ok := unparen(x.X).(*ast.BinaryExpr); ok && m.Op == token.AND {
					if f := b.c.constName(m.Y); f != "" {
						set := b.atom("flag:"+f, f)
						if x.Op == token.EQL {
							return !set
						}
						return set
					}
				}
			}
			// comparison atom
			return b.atom("cmp:"+canon(b.c, x, ren), "")
		}
	case *ast.CallExpr:
		name := b.c.calleeName(x)
		if fd := b.c.Decls[name]; fd != nil && len(fd.Body.List) == 1 {
			if r, ok := fd.Body.List[0].(*ast.ReturnStmt); ok && len(r.Results) == 1 {
				// inline a single-expression callee when the arguments are the same-named identifiers
				same := true
				i := 0
				for _, f := range fd.Type.Params.List {
					for _, n := range f.Names {
						if i >= len(x.Args) || b.c.src(x.Args[i]) != n.Name {
							same = false
						}
						i++
					}
				}
				if same {
					return b.eval(r.Results[0], ren)
				}
			}
		}
		return b.atom("call:"+canon(b.c, x, ren), "")
	}
	b.fail = "unrecognised boolean expression: " + b.c.src(e)
	return false
}

// exec interprets a straight-line/if-structured boolean function body; returns the result.
func (b *boolEnv) exec(list []ast.Stmt) (bool, bool) {
	for _, s := range list {
		switch st := s.(type) {
		case *ast.AssignStmt:
			if len(st.Rhs) != 1 {
				b.fail = "assignment form: " + b.c.src(s)
				return false, true
			}
			name := b.c.src(st.Lhs[0])
			if len(st.Lhs) == 2 { // ok, _ := call(...)
				if b.c.src(st.Lhs[1]) != "_" {
					b.fail = "second result used: " + b.c.src(s)
					return false, true
				}
			}
			b.vars[name] = b.eval(st.Rhs[0], nil)
		case *ast.IfStmt:
			if st.Init != nil || st.Else != nil {
				b.fail = "if form: " + b.c.src(st.Cond)
				return false, true
			}
			if b.eval(st.Cond, nil) {
				// block-scoped variables: copy-in/copy-out by name is fine for this shape
				if r, done := b.exec(st.Body.List); done {
					return r, true
				}
			}
		case *ast.ReturnStmt:
			if len(st.Results) != 1 {
				b.fail = "return form"
				return false, true
			}
			return b.eval(st.Results[0], nil), true
		default:
			b.fail = "statement form: " + b.c.src(s)
			return false, true
		}
	}
	return false, false
}

// Q4: skip flags are monotone (truth table over all atom assignments).
func ruleQ4(c *Ctx) {
	fd := c.Decls["URICmp"]
	if fd == nil {
		c.fail("Q4", "URICmp", token.NoPos, "not found")
		return
	}
	// discover atoms with a first pass over enough assignments
	be := &boolEnv{c: c, atoms: map[string]int{}, flagOf: map[string]string{}, vars: map[string]bool{}}
	for pass := 0; pass < 8; pass++ {
		n := len(be.order)
		for a := uint64(0); a < 1<<uint(n); a++ {
			be.assign = a
			be.vars = map[string]bool{}
			be.exec(fd.Body.List)
			if len(be.order) > 20 {
				c.fail("Q4", "URICmp:atoms", fd.Pos(), "too many atoms")
				return
			}
		}
		if be.fail != "" {
			c.fail("Q4", "URICmp:shape", fd.Pos(), be.fail)
			return
		}
		if len(be.order) == n {
			break
		}
	}
	n := len(be.order)
	table := make([]bool, 1<<uint(n))
	for a := uint64(0); a < 1<<uint(n); a++ {
		be.assign = a
		be.vars = map[string]bool{}
		r, _ := be.exec(fd.Body.List)
		table[a] = r
	}
	nflags := 0
	for name, i := range be.atoms {
		f := be.flagOf[name]
		if f == "" {
			continue
		}
		nflags++
		mono, dep := true, false
		for a := uint64(0); a < 1<<uint(n); a++ {
			if a&(1<<uint(i)) != 0 {
				continue
			}
			lo, hi := table[a], table[a|1<<uint(i)]
			if lo && !hi {
				mono = false
			}
			if lo != hi {
				dep = true
			}
		}
		c.check(mono && dep, "Q4", "monotone:"+f, fd.Pos(), fmt.Sprintf("over all %d assignments of %d atoms, setting %s never turns 'equal' into 'different' (and the flag is used)", 1<<uint(n), n, f))
	}
	c.check(nflags == 6, "Q4", "flags-used", fd.Pos(), fmt.Sprintf("all six skip flags take part (%d found; atoms: %v)", nflags, be.order))
	// every comparison atom matters when nothing is skipped (no comparison dropped)
	for name, i := range be.atoms {
		if be.flagOf[name] != "" {
			continue
		}
		all := uint64(0)
		for nm, j := range be.atoms {
			if be.flagOf[nm] == "" {
				all |= 1 << uint(j)
			}
		}
		c.check(table[all] && !table[all&^(1<<uint(i))], "Q4", "needed:"+name, fd.Pos(), "with no skip flag set the result is true iff every comparison holds; this comparison is needed")
	}
	// flag <-> component pairing
	pair := map[string]string{"URICmpSkipScheme": "URIType", "URICmpSkipPort": "PortNo", "URICmpSkipUser": "User", "URICmpSkipPass": "Pass"}
	if sd := c.Decls["URICmpShort"]; sd != nil {
		ast.Inspect(sd.Body, func(nn ast.Node) bool {
			b, ok := nn.(*ast.BinaryExpr)
			if !ok || b.Op != token.LOR {
				return true
			}
			var flag string
			ast.Inspect(b.X, func(y ast.Node) bool {
				if id, ok := y.(*ast.Ident); ok && strings.HasPrefix(id.Name, "URICmpSkip") {
					flag = id.Name
				}
				return true
			})
			if flag == "" {
				return true
			}
			leaves := compareLeaves(c, b.Y)
			w := pair[flag]
			c.check(len(leaves) == 1 && strings.HasPrefix(leaves[0], w+":"), "Q4", "pair:"+flag, b.Pos(), fmt.Sprintf("%s guards the %s comparison (got %v)", flag, w, leaves))
			return false
		})
	}
	for flag, fld := range map[string]string{"URICmpSkipParams": "Params", "URICmpSkipHeaders": "Headers"} {
		found := false
		for _, s := range fd.Body.List {
			is, ok := s.(*ast.IfStmt)
			if !ok || !strings.Contains(c.src(is.Cond), flag) {
				continue
			}
			body := c.src(is.Body)
			callee := map[string]string{"Params": "URIParamsEq(", "Headers": "URIHdrsEq("}[fld]
			if strings.Contains(body, callee) && strings.Count(body, "."+fld+".Get(") == 2 {
				found = true
			}
		}
		c.check(found, "Q4", "pair:"+flag, fd.Pos(), flag+" guards the comparison of the two "+fld+" fields")
	}
}

// Q5: must-be-in-both mask.
func ruleQ5(c *Ctx) {
	fd := c.Decls["URIParamsLstEq"]
	if fd == nil {
		c.fail("Q5", "URIParamsLstEq", token.NoPos, "not found")
		return
	}
	var want int64
	for _, f := range []string{"URIParamUserF", "URIParamTTLF", "URIParamMethodF", "URIParamMaddrF"} {
		v, _ := c.namedConstInt(f)
		want |= v
	}
	okMask, okOrder := false, false
	for i, s := range fd.Body.List {
		is, ok := s.(*ast.IfStmt)
		if !ok {
			continue
		}
		b, ok := is.Cond.(*ast.BinaryExpr)
		if !ok || b.Op != token.NEQ {
			continue
		}
		l, ok1 := unparen(b.X).(*ast.BinaryExpr)
		r, ok2 := unparen(b.Y).(*ast.BinaryExpr)
		if !ok1 || !ok2 || l.Op != token.AND || r.Op != token.AND {
			continue
		}
		lm, _ := c.constInt(l.Y)
		rm, _ := c.constInt(r.Y)
		if lm == want && rm == want && strings.HasSuffix(c.src(l.X), ".Types") && strings.HasSuffix(c.src(r.X), ".Types") && c.src(l.X) != c.src(r.X) {
			okMask = true
			if ret, ok := is.Body.List[0].(*ast.ReturnStmt); ok && c.src(ret.Results[0]) == "false" {
				// before the first loop
				okOrder = true
				for _, prev := range fd.Body.List[:i] {
					if _, isLoop := prev.(*ast.ForStmt); isLoop {
						okOrder = false
					}
				}
			}
		}
	}
	c.check(okMask, "Q5", "mask", fd.Pos(), fmt.Sprintf("the two Types sets are compared under the mask user|ttl|method|maddr (%#x)", want))
	c.check(okOrder, "Q5", "order", fd.Pos(), "a mask mismatch returns false before the pairwise loop")
}

// Q8: the pairwise list comparisons treat their two lists alike. In URIParamsLstEq / URIHdrsLstEq every branch
// condition either compares the same thing on both sides with a commutative comparator (== != CmpEq bytes.Equal:
// operand 1 is operand 2 with the lists, buffers swapped), or is a loop bound, or looks at one side only at a
// quantity that a dominating two-sided equality has already made equal on both sides (the parameter type). A test of
// one list's value alone makes cmp(a,b) differ from cmp(b,a).
// symCheck: every side-bearing branch condition (and every boolean handed back) of fnName treats its two
// (list/URI, buffer) pairs alike; see rule Q8. Returns the number of conditions inspected.
func symCheck(c *Ctx, rule, fnName string) int {
	n := 0
	{

		fn := c.SFuncs[fnName]
		if fn == nil {
			c.fail(rule, fnName, token.NoPos, "not found")
			return n
		}
		// sides: pointer parameters in order -> list 1 / list 2; slice parameters in order -> buffer 1 / 2
		tag := map[*ssa.Parameter]string{}
		np, nb := 0, 0
		for _, p := range fn.Params {
			switch p.Type().Underlying().(type) {
			case *types.Pointer:
				np++
				tag[p] = "L" + itoa(np)
			case *types.Slice:
				nb++
				tag[p] = "B" + itoa(nb)
			}
		}
		if np != 2 || nb != 2 {
			c.fail(rule, fnName+":sig", fn.Pos(), "unexpected signature")
			return n
		}
		flip := map[string]string{"L1": "L2", "L2": "L1", "B1": "B2", "B2": "B1"}
		var render func(v ssa.Value, swap bool, depth int) string
		render = func(v ssa.Value, swap bool, depth int) string {
			if depth > 12 {
				return "…"
			}
			switch x := v.(type) {
			case *ssa.Parameter:
				t := tag[x]
				if swap && t != "" {
					t = flip[t]
				}
				return t
			case *ssa.Const:
				if x.Value == nil {
					return "nil"
				}
				return x.Value.ExactString()
			case *ssa.Phi:
				if isIntType(x.Type()) {
					return "idx"
				}
				return "phi"
			case *ssa.FieldAddr:
				st := derefStruct(x.X.Type())
				f := "?"
				if st != nil {
					f = st.Field(x.Field).Name()
				}
				return render(x.X, swap, depth+1) + "." + f
			case *ssa.Field:
				return render(x.X, swap, depth+1) + ".#" + itoa(x.Field)
			case *ssa.IndexAddr:
				return render(x.X, swap, depth+1) + "[" + render(x.Index, swap, depth+1) + "]"
			case *ssa.UnOp:
				return x.Op.String() + render(x.X, swap, depth+1)
			case *ssa.BinOp:
				return "(" + render(x.X, swap, depth+1) + x.Op.String() + render(x.Y, swap, depth+1) + ")"
			case *ssa.Convert:
				return render(x.X, swap, depth+1)
			case *ssa.ChangeType:
				return render(x.X, swap, depth+1)
			case *ssa.Slice:
				return render(x.X, swap, depth+1) + "[:]"
			case *ssa.Call:
				name := "call"
				if cal := x.Call.StaticCallee(); cal != nil {
					name = cal.Name()
				} else if b, ok := x.Call.Value.(*ssa.Builtin); ok {
					name = b.Name()
				}
				var as []string
				for _, a := range x.Call.Args {
					as = append(as, render(a, swap, depth+1))
				}
				return name + "(" + strings.Join(as, ",") + ")"
			}
			return "?" + v.Name()
		}
		sidesOf := func(r string) (one, two bool) {
			return strings.Contains(r, "L1") || strings.Contains(r, "B1"), strings.Contains(r, "L2") || strings.Contains(r, "B2")
		}
		norm := func(r string) string {
			return strings.NewReplacer("L1", "L", "L2", "L", "B1", "B", "B2", "B").Replace(r)
		}
		type eqFact struct {
			from *ssa.BasicBlock // block whose domination means the equality holds
			what string
		}
		var equated []eqFact
		type leaf struct {
			b      *ssa.BasicBlock
			cond   ssa.Value
			x, y   ssa.Value
			op     string
			commut bool
		}
		var leaves []leaf
		for _, b := range fn.Blocks {
			iff, ok := b.Instrs[len(b.Instrs)-1].(*ssa.If)
			if !ok {
				continue
			}
			cond := iff.Cond
			neg := false
			if u, ok := cond.(*ssa.UnOp); ok && u.Op == token.NOT {
				cond = u.X
				neg = true
			}
			switch x := cond.(type) {
			case *ssa.BinOp:
				_, px := x.X.(*ssa.Phi)
				_, py := x.Y.(*ssa.Phi)
				if (px && isIntType(x.X.Type())) || (py && isIntType(x.Y.Type())) {
					continue // loop bound
				}
				lf := leaf{b: b, cond: cond, x: x.X, y: x.Y, op: x.Op.String(), commut: x.Op == token.EQL || x.Op == token.NEQ}
				leaves = append(leaves, lf)
				if x.Op == token.EQL || x.Op == token.NEQ {
					r1, r2 := render(x.X, false, 0), render(x.Y, true, 0)
					o1, t1 := sidesOf(render(x.X, false, 0))
					o2, t2 := sidesOf(render(x.Y, false, 0))
					if r1 == r2 && ((o1 && !t1 && t2 && !o2) || (t1 && !o1 && o2 && !t2)) {
						idx := 0
						if (x.Op == token.NEQ) != neg {
							idx = 1
						}
						equated = append(equated, eqFact{b.Succs[idx], norm(render(x.X, false, 0))})
					}
				}
			case *ssa.Call:
				name := ""
				if cal := x.Call.StaticCallee(); cal != nil {
					name = cal.Name()
				}
				if len(x.Call.Args) == 2 {
					leaves = append(leaves, leaf{b: b, cond: cond, x: x.Call.Args[0], y: x.Call.Args[1], op: name, commut: name == "CmpEq" || name == "Equal"})
				} else {
					leaves = append(leaves, leaf{b: b, cond: cond, x: x, op: name})
				}
			default:
				// a plain bool variable (found flag): no side
			}
		}
		// booleans handed back: the value of a final conjunct flows into the result without a branch of its own
		seenRet := map[ssa.Value]bool{}
		var retLeaf func(v ssa.Value, b *ssa.BasicBlock, depth int)
		retLeaf = func(v ssa.Value, b *ssa.BasicBlock, depth int) {
			if seenRet[v] || depth > 8 {
				return
			}
			seenRet[v] = true
			switch x := v.(type) {
			case *ssa.Phi:
				for j, e := range x.Edges {
					retLeaf(e, x.Block().Preds[j], depth+1)
				}
			case *ssa.UnOp:
				if x.Op == token.NOT {
					retLeaf(x.X, b, depth+1)
				}
			case *ssa.BinOp:
				if _, isBool := x.Type().Underlying().(*types.Basic); isBool && (x.Op == token.EQL || x.Op == token.NEQ || x.Op == token.LSS || x.Op == token.GTR || x.Op == token.LEQ || x.Op == token.GEQ) {
					leaves = append(leaves, leaf{b: b, cond: x, x: x.X, y: x.Y, op: x.Op.String(), commut: x.Op == token.EQL || x.Op == token.NEQ})
				}
			case *ssa.Call:
				name := ""
				if cal := x.Call.StaticCallee(); cal != nil {
					name = cal.Name()
				}
				if len(x.Call.Args) == 2 {
					leaves = append(leaves, leaf{b: b, cond: x, x: x.Call.Args[0], y: x.Call.Args[1], op: name, commut: name == "CmpEq" || name == "Equal"})
				}
			}
		}
		for _, b := range fn.Blocks {
			if ret, ok := b.Instrs[len(b.Instrs)-1].(*ssa.Return); ok && len(ret.Results) >= 1 {
				if bt, ok := ret.Results[0].Type().Underlying().(*types.Basic); ok && bt.Kind() == types.Bool {
					retLeaf(ret.Results[0], b, 0)
				}
			}
		}
		cnt := 0
		for _, lf := range leaves {
			var rs []string
			rs = append(rs, render(lf.x, false, 0))
			if lf.y != nil {
				rs = append(rs, render(lf.y, false, 0))
			}
			one, two := sidesOf(strings.Join(rs, " "))
			if !one && !two {
				continue
			}
			cnt++
			n++
			key := fmt.Sprintf("%s:cond#%d", fnName, cnt)
			desc := lf.op + "(" + strings.Join(rs, ", ") + ")"
			if lf.y == nil {
				desc = rs[0]
			}
			if one && two {
				okm := lf.y != nil && lf.commut && render(lf.x, false, 0) == render(lf.y, true, 0)
				c.check(okm, rule, key, lf.cond.Pos(), "two-sided condition "+desc+" compares the same quantity of both lists with a commutative comparator (mirror image under swapping the lists)")
				continue
			}
			// one-sided: every side-bearing operand must already be equal on both sides
			okEq := true
			for _, r := range rs {
				o, t := sidesOf(r)
				if !o && !t {
					continue
				}
				found := false
				for _, e := range equated {
					if e.what == norm(r) && e.from.Dominates(lf.b) {
						found = true
					}
				}
				if !found {
					okEq = false
				}
			}
			c.check(okEq, rule, key, lf.cond.Pos(), "one-sided condition "+desc+" looks only at a quantity that a dominating two-sided equality made equal in both lists; otherwise the result depends on the order of the arguments")
		}
	
	}
	return n
}

func ruleQ8(c *Ctx) {
	n := 0
	for _, fnName := range []string{"URIParamsLstEq", "URIHdrsLstEq"} {
		n += symCheck(c, "Q8", fnName)
	}
	c.check(n >= 6, "Q8", "conditions", token.NoPos, fmt.Sprintf("%d side-bearing branch conditions inspected (frozen minimum 6)", n))
}

// Q9: the parsing wrappers add no comparison logic of their own. Every return of URIParamsEq / URIHdrsEq hands back
// either the constant false (a parse error) or the result of the list comparison (URIParamsLstEq / URIHdrsLstEq) on
// the two freshly parsed lists — never a constant true or a shortcut computed from the lists.
func ruleQ9(c *Ctx) {
	n := 0
	for wrapper, inner := range map[string]string{"URIParamsEq": "URIParamsLstEq", "URIHdrsEq": "URIHdrsLstEq"} {
		fn := c.SFuncs[wrapper]
		if fn == nil {
			c.fail("Q9", wrapper, token.NoPos, "not found")
			continue
		}
		cnt, viaInner := 0, 0
		for _, b := range fn.Blocks {
			ret, ok := b.Instrs[len(b.Instrs)-1].(*ssa.Return)
			if !ok || len(ret.Results) < 1 {
				continue
			}
			cnt++
			n++
			okR := false
			what := ""
			switch x := ret.Results[0].(type) {
			case *ssa.Const:
				okR = x.Value != nil && x.Value.String() == "false"
				what = "constant " + x.Value.String()
			case *ssa.Call:
				if cal := x.Call.StaticCallee(); cal != nil && cal.Name() == inner {
					okR = true
					viaInner++
				}
				what = "a call result"
			default:
				what = "a computed value"
			}
			c.check(okR, "Q9", fmt.Sprintf("%s:return#%d", wrapper, cnt), ret.Pos(), "this return hands back false (parse error) or the result of "+inner+"() — it is "+what)
		}
		c.check(viaInner >= 1, "Q9", wrapper+":delegates", fn.Pos(), wrapper+" returns the result of "+inner+" on its success path")
	}
	c.check(n >= 6, "Q9", "returns", token.NoPos, fmt.Sprintf("%d returns of the two parsing wrappers inspected (frozen minimum 6)", n))
}

// Q10: each side is looked at with its own coordinates. A pairwise function takes its two operands as two runs of
// parameters with identical type sequences (buf1, offs1, buf2, offs2 [, flags] / u1, buf1, u2, buf2 [, flags]). A call
// to a function of the package that is not itself pairwise (a parser, an accessor) must not receive values from both
// runs: parsing the second list with the first list's offset gives a verdict that depends on where the lists sit in
// their buffers.
func pairedParams(fn *ssa.Function) (k int) {
	ps := fn.Params
	if fn.Signature.Recv() != nil {
		return 0
	}
	for k = len(ps) / 2; k >= 1; k-- {
		ok := true
		for i := 0; i < k; i++ {
			if !types.Identical(ps[i].Type(), ps[k+i].Type()) {
				ok = false
			}
		}
		// the first type of a run is a buffer, a URI or a list: not two plain integers
		if ok && !isIntType(ps[0].Type()) {
			return k
		}
	}
	return 0
}

func ruleQ10(c *Ctx, rule string) {
	var keys []string
	for k := range c.Prog.SFuncs {
		keys = append(keys, k)
	}
	sort.Strings(keys)
	nFn, nCalls := 0, 0
	for _, k := range keys {
		fn := c.Prog.SFuncs[k]
		if fn == nil || len(fn.Blocks) == 0 {
			continue
		}
		kk := pairedParams(fn)
		if kk == 0 || !(strings.Contains(fn.Name(), "Cmp") || strings.HasSuffix(fn.Name(), "Eq")) {
			continue
		}
		nFn++
		side := map[ssa.Value]int{} // bit 1 = first run, bit 2 = second run
		for i := 0; i < kk; i++ {
			side[fn.Params[i]] = 1
			side[fn.Params[kk+i]] = 2
		}
		for changed := true; changed; {
			changed = false
			for _, b := range fn.Blocks {
				for _, ins := range b.Instrs {
					v, ok := ins.(ssa.Value)
					if !ok {
						continue
					}
					if _, isCall := ins.(*ssa.Call); isCall {
						continue // results of calls are new values (a verdict, a parsed list), not coordinates
					}
					sd := side[v]
					for _, op := range ins.Operands(nil) {
						if *op != nil {
							sd |= side[*op]
						}
					}
					if sd != side[v] {
						side[v] = sd
						changed = true
					}
				}
			}
		}
		ord := 0
		for _, b := range fn.Blocks {
			for _, ins := range b.Instrs {
				call, ok := ins.(*ssa.Call)
				if !ok {
					continue
				}
				cal := call.Call.StaticCallee()
				if cal == nil || cal.Pkg == nil || cal.Pkg.Pkg != c.Prog.Types || cal.Signature.Variadic() {
					continue
				}
				if pairedParams(cal) > 0 {
					continue
				}
				nCalls++
				ord++
				sd := 0
				for _, a := range call.Call.Args {
					sd |= side[a]
				}
				c.check(sd != 3, rule, fmt.Sprintf("%s:one-side-per-call#%d:%s", k, ord, ssaKey(cal)), call.Pos(), fmt.Sprintf("the call to %s in %s receives values of one operand only (its buffer with its own offset / list)", ssaKey(cal), k))
			}
		}
	}
	c.check(nFn >= 5 && nCalls >= 10, rule, "instances", token.NoPos, fmt.Sprintf("%d pairwise comparison functions, %d calls to non-pairwise package functions (frozen minimum 5 / 10)", nFn, nCalls))
}

// Q11: nothing is carried from one element to the next. In the pairwise list comparisons (…LstEq) the verdict must
// not depend on the order of the elements; a necessary condition visible in the code is that each loop carries only
// its own index from one iteration to the next (the only loop-head phis are induction variables: start constant,
// step +1). A "found" flag hoisted out of the outer loop makes an element without a partner inherit the previous
// element's verdict.
func ruleQ11(c *Ctx) {
	n := 0
	var keys []string
	for k := range c.Prog.SFuncs {
		keys = append(keys, k)
	}
	sort.Strings(keys)
	for _, k := range keys {
		fn := c.Prog.SFuncs[k]
		if fn == nil || !strings.HasSuffix(fn.Name(), "LstEq") || pairedParams(fn) == 0 {
			continue
		}
		for li, l := range naturalLoops(fn) {
			for _, ins := range l.head.Instrs {
				ph, ok := ins.(*ssa.Phi)
				if !ok {
					break
				}
				n++
				// induction variable: every edge from inside the loop is phi + 1, every edge from outside a constant
				ind := isIntType(ph.Type())
				for i, pr := range l.head.Preds {
					e := ph.Edges[i]
					if l.body[pr] {
						bo, ok := e.(*ssa.BinOp)
						one, isK := int64(0), false
						if ok {
							one, isK = constIntOf(bo.Y)
						}
						if !ok || bo.Op != token.ADD || bo.X != ssa.Value(ph) || !isK || one != 1 {
							ind = false
						}
					} else if _, isK := constIntOf(e); !isK {
						ind = false
					}
				}
				name := ph.Comment
				if name == "" {
					name = ph.Name()
				}
				c.check(ind, "Q11", fmt.Sprintf("%s:loop#%d:carried:%s", k, li+1, name), ph.Pos(), fmt.Sprintf("the only values a loop of %s carries from one element to the next are its own counters (%s is %s)", k, name, map[bool]string{true: "an induction variable", false: "NOT an induction variable: state flows between elements, the verdict depends on their order"}[ind]))
			}
		}
	}
	c.check(n >= 4, "Q11", "instances", token.NoPos, fmt.Sprintf("%d loop-carried values in the pairwise list comparisons (frozen minimum 4)", n))
}

func init() {
	register(&PropDef{
		ID: "C15",
		Rules: []Rule{
			{"Q10", "each side is looked at with its own coordinates: in the pairwise comparison functions (two runs of parameters with identical type sequences) no call to a non-pairwise function of the package receives values derived from both runs, so the second list is parsed in its own buffer at its own offset", func(c *Ctx) { ruleQ10(c, "Q10") }},
			{"Q11", "nothing is carried from one element to the next: in the pairwise list comparisons (URIParamsLstEq, URIHdrsLstEq) every loop-head phi is an induction variable (constant start, step +1), so no per-element verdict survives into the next element's iteration — a necessary condition of independence from the order of parameters and headers", ruleQ11},
			{"Q1", "out-parameter pairing: the k-th raw URI is parsed into local u_k, out-parameter k receives u_k, URICmp receives (&u1,raw1,&u2,raw2)", ruleQ1},
			{"Q2", "URICmpShort's expression is invariant under swapping its two (uri,buffer) pairs modulo commutativity", ruleQ2},
			{"Q3", "component -> comparator table: type/port ==, user/password bytes.Equal, host and parameter/header names and values CmpEq; URIParamResolve's six names under their own length cases via CmpEq; type flags distinct bits", ruleQ3},
			{"Q4", "the boolean result of URICmp (URICmpShort inlined) tabulated over all assignments of comparison and flag atoms is monotone non-decreasing in each of the six skip flags, every comparison is needed when nothing is skipped, and each flag guards the component it names", ruleQ4},
			{"Q6", "the raw list comparisons parse into fixed-capacity temporary arrays: the overflow indicator of both lists must be consulted, otherwise elements beyond the capacity are dropped silently and the verdict depends on element order", ruleQ6},
			{"Q9", "the parsing wrappers URIParamsEq / URIHdrsEq add no comparison logic: every return hands back the constant false (parse error) or the result of URIParamsLstEq / URIHdrsLstEq — no constant true, no shortcut", ruleQ9},
			{"Q8", "the pairwise list comparisons treat their two lists alike: in URIParamsLstEq / URIHdrsLstEq every side-bearing branch condition is a commutative comparison of mirror-image operands, a loop bound, or a one-sided look at a quantity already equated on both sides by a dominating two-sided equality — no test of one list's value alone", ruleQ8},
			{"Q7", "URIHdrsLstEq: equal counts are required before the one-directional containment loop (necessary for symmetry), and a missing header returns false", ruleQ7},
			{"Q5", "the must-be-in-both mask is exactly user|ttl|method|maddr and is tested before the pairwise loop", ruleQ5},
		},
		Assumptions: []string{"bytescase.CmpEq / bytes.Equal summaries (symmetric, reflexive)"},
		NotDecided:  "reflexivity, symmetry and permutation invariance of the list comparisons (they hold only for duplicate-free lists, a value precondition)",
	})
}

// Q6: the fixed-capacity temporary lists of the raw comparisons must not drop elements silently:
// the overflow indicator (More()) of both lists has to be consulted before the list comparison.
func ruleQ6(c *Ctx) {
	for _, fnName := range []string{"URIParamsEq", "URIHdrsEq"} {
		fd := c.Decls[fnName]
		if fd == nil {
			c.fail("Q6", fnName, token.NoPos, "not found")
			continue
		}
		// fixed arrays attached through Init
		arrays := 0
		ast.Inspect(fd.Body, func(n ast.Node) bool {
			if vs, ok := n.(*ast.ValueSpec); ok {
				if at, ok := vs.Type.(*ast.ArrayType); ok && at.Len != nil {
					arrays += len(vs.Names)
				}
			}
			return true
		})
		more := strings.Count(c.src(fd.Body), ".More()")
		if arrays == 0 {
			c.ok("Q6", fnName+":overflow-silent", fd.Pos(), "no fixed-capacity temporary list")
			continue
		}
		c.check(more >= 2, "Q6", fnName+":overflow-silent", fd.Pos(),
			fmt.Sprintf("%d fixed-capacity temporary arrays are filled by the list parser but the overflow indicator More() is consulted %d times: elements beyond the capacity are dropped silently, so the verdict depends on the order of the elements", arrays, more))
	}
}

// Q7: URIHdrsLstEq checks containment of l1 in l2 only; equality of the two counts before the loop is what
// makes the relation symmetric (for duplicate-free lists).
func ruleQ7(c *Ctx) {
	fd := c.Decls["URIHdrsLstEq"]
	if fd == nil {
		c.fail("Q7", "URIHdrsLstEq", token.NoPos, "not found")
		return
	}
	ok := false
	for _, s := range fd.Body.List {
		if _, isLoop := s.(*ast.ForStmt); isLoop {
			break
		}
		is, isIf := s.(*ast.IfStmt)
		if !isIf {
			continue
		}
		b, isB := is.Cond.(*ast.BinaryExpr)
		if !isB || b.Op != token.NEQ {
			continue
		}
		l, r := c.src(b.X), c.src(b.Y)
		cnt := func(s string) string {
			for _, suf := range []string{".HNo()", ".N"} {
				if strings.HasSuffix(s, suf) {
					return suf
				}
			}
			return ""
		}
		if cnt(l) != "" && cnt(l) == cnt(r) && l != r {
			if ret, isRet := is.Body.List[0].(*ast.ReturnStmt); isRet && c.src(ret.Results[0]) == "false" {
				ok = true
			}
		}
	}
	c.check(ok, "Q7", "URIHdrsLstEq:counts", fd.Pos(), "different header counts return false before the one-directional containment loop")
	// the loop is a containment test of l1 in l2: every l1 header must be found
	body := c.src(fd.Body)
	c.check(patIn(body, "if !@f { return false }"), "Q7", "URIHdrsLstEq:containment", fd.Pos(), "an l1 header without an equal-named, equal-valued l2 header returns false")
}
