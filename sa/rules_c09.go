package main

import (
	"fmt"
	"go/ast"
	"go/token"
	"golang.org/x/tools/go/ssa"
	"sort"
	"strings"
)

// transitions of state `from` on byte b
func (r *fsmResult) on(g []fsmTrans, from string, b byte) []fsmTrans {
	var out []fsmTrans
	for _, t := range g {
		if r.name(t.From) == from && t.Bytes.has(int(b)) {
			out = append(out, t)
		}
	}
	return out
}

func verdictOnlyErr(t fsmTrans, errBit int64) bool { return t.Exit == "return" && t.Verd.only(errBit) }

// N1: commas split only outside quotes and angle brackets, and only for the multi-value header kinds.
func ruleN1(c *Ctx) {
	r := fsmOf(c, "ParseNameAddrPVal")
	if r == nil || r.head == nil || r.capped {
		c.fail("N1", "ParseNameAddrPVal:fsm", token.NoPos, "state machine could not be extracted")
		return
	}
	g := r.grouped(r.trans)
	c.check(len(r.states) >= 33 && len(g) >= 200, "N1", "fsm-size", token.NoPos, fmt.Sprintf("name-addr automaton: %d states, %d grouped transitions", len(r.states), len(g)))
	mv, _ := c.namedConstInt("ErrHdrMoreValues")
	inside := map[string]bool{"fbQuoted": true, "fbQuotedVal": true, "fbQuotedPossibleVal": true, "fbURI": true}
	n := 0
	for _, t := range g {
		if !(t.Exit == "return" && t.Verd.has(mv)) {
			continue
		}
		n++
		from := r.name(t.From)
		key := from + ":" + t.Bytes.String()
		c.check(!inside[from], "N1", "outside:"+key, t.RetPos, "the more-values exit is not reachable from inside a quoted string or angle brackets")
		c.check(t.Bytes.eq(setOfString(",")), "N1", "comma-only:"+key, t.RetPos, "only a comma ends a value with more-values")
		c.check(hasCond(t, "multipleValsOk()"), "N1", "kind:"+key, t.RetPos, "the split is guarded by multipleValsOk(header kind)")
		c.check(t.RetOffs == "+i+1", "N1", "offset:"+key, t.RetPos, "the continuation offset is the byte after the comma ("+t.RetOffs+")")
	}
	c.check(n >= 10, "N1", "exits", token.NoPos, fmt.Sprintf("%d more-values exits found (frozen minimum 10)", n))
	for st := range inside {
		for _, t := range r.on(g, st, ',') {
			c.check(t.Exit == "" && r.name(t.To) == st, "N1", "inside-comma:"+st, token.NoPos, "a comma inside "+st+" is ordinary content")
		}
	}
	// multipleValsOk's constant set: decided on SSA (exact partition of the one-byte header kind over the boolean
	// result), whatever the spelling (switch, if chain, boolean expression)
	if fd := c.Decls["multipleValsOk"]; fd != nil {
		var got []string
		if mf := c.SFuncs["multipleValsOk"]; mf != nil {
			yes := emptySet()
			exact := true
			for _, o := range byteDecision(c, mf) {
				switch {
				case o.Result == "true" && len(o.Conds) == 0:
					yes = yes.union(o.Bytes)
				case o.Result == "false" && len(o.Conds) == 0:
				default:
					exact = false
				}
			}
			for _, nm := range []string{"HdrContact", "HdrPAI", "HdrRecordRoute", "HdrRoute"} {
				if v, ok := c.namedConstInt(nm); ok && v >= 0 && v < 256 && yes.has(int(v)) {
					got = append(got, nm)
				}
			}
			if !exact || yes.count() != len(got) {
				got = append(got, fmt.Sprintf("(+%d other values or undecided paths)", yes.count()-len(got)))
			}
		}
		sort.Strings(got)
		c.check(strings.Join(got, ",") == "HdrContact,HdrPAI,HdrRecordRoute,HdrRoute", "N1", "multi-kinds", fd.Pos(), fmt.Sprintf("multi-value header kinds are Contact, Record-Route, Route, P-Asserted-Identity (got %v)", got))
	}
}

// N2: after-whitespace sibling states accept the same delimiters.
func ruleN2(c *Ctx) {
	for _, fnName := range []string{"ParseNameAddrPVal", "ParseTokenParam"} {
		r := fsmOf(c, fnName)
		if r == nil || r.head == nil || r.capped {
			c.fail("N2", fnName+":fsm", token.NoPos, "state machine could not be extracted")
			continue
		}
		g := r.grouped(r.trans)
		bc, _ := c.namedConstInt("ErrHdrBadChar")
		// pairs X -> Y through successfully skipped whitespace (Y != X)
		pairs := map[string]string{}
		for _, t := range g {
			if t.Exit == "" && t.has("skipLWS") && t.Bytes.has(' ') && t.To != t.From && t.To >= 0 {
				pairs[r.name(t.From)] = r.name(t.To)
			}
		}
		delims := []byte{';', ',', '='}
		if fnName == "ParseTokenParam" {
			delims = []byte{'='}
		}
		accepts := func(st string, b byte) bool {
			ts := r.on(g, st, b)
			if len(ts) == 0 {
				return false
			}
			for _, t := range ts {
				if !verdictOnlyErr(t, bc) {
					return true
				}
			}
			return false
		}
		var xs []string
		for x := range pairs {
			xs = append(xs, x)
		}
		sort.Strings(xs)
		n := 0
		for _, x := range xs {
			y := pairs[x]
			for _, d := range delims {
				if !accepts(x, d) {
					continue
				}
				n++
				c.check(accepts(y, d), "N2", fmt.Sprintf("%s:%s:'%c'", fnName, y, d), token.NoPos,
					fmt.Sprintf("'%c' is accepted in %s but rejected in %s, the state reached from it after linear whitespace: optional whitespace before '%c' is not tolerated", d, x, y, d))
			}
		}
		c.check(n >= 2, "N2", fnName+":pairs", token.NoPos, fmt.Sprintf("%d (state, delimiter) obligations over %d after-whitespace pairs %v", n, len(pairs), pairs))
	}
}

// N3: known-parameter resolution is reached from every value end; known names compared case-insensitively.
func ruleN3(c *Ctx) {
	r := fsmOf(c, "ParseNameAddrPVal")
	if r == nil || r.head == nil {
		c.fail("N3", "ParseNameAddrPVal:fsm", token.NoPos, "state machine could not be extracted")
		return
	}
	g := append(r.grouped(r.trans), r.grouped(r.post)...)
	val := map[string]bool{"fbNewParamVal": true, "fbParamVal": true, "fbParamValEnd": true, "fbNewPossibleVal": true, "fbPossibleVal": true, "fbPossibleValEnd": true,
		"fbQuotedVal": true, "fbQuotedPossibleVal": true}
	n := 0
	for _, t := range g {
		from := r.name(t.From)
		if !val[from] || from == "fbQuotedVal" || from == "fbQuotedPossibleVal" {
			continue
		}
		leaves := false
		if t.Exit == "" && t.To >= 0 && !val[r.name(t.To)] {
			leaves = true
		}
		if t.Exit == "return" && (t.Verd.has(0) || t.Verd.has(4)) && r.name(t.To) == "fbFIN" {
			leaves = true
		}
		if !leaves {
			continue
		}
		n++
		key := fmt.Sprintf("%s:%s->%s", from, t.Bytes.String(), r.name(t.To))
		c.check(t.has("setFromParamVal"), "N3", "resolve:"+key, t.RetPos, "a completed parameter value is handed to setFromParamVal before the automaton leaves the value states")
	}
	c.check(n >= 12, "N3", "value-ends", token.NoPos, fmt.Sprintf("%d value-ending transitions checked (frozen minimum 12)", n))
	// known names: each branch condition is exactly (name length == len(lit)) && CmpEq(name, lit)
	fd := c.Decls["setFromParamVal"]
	if fd == nil {
		c.fail("N3", "setFromParamVal", token.NoPos, "not found")
		return
	}
	lits := map[string]string{}
	ast.Inspect(fd.Body, func(n ast.Node) bool {
		if as, ok := n.(*ast.AssignStmt); ok && len(as.Lhs) == 1 && len(as.Rhs) == 1 {
			if cl, ok := as.Rhs[0].(*ast.CompositeLit); ok {
				s := ""
				for _, e := range cl.Elts {
					if v, isC := c.constInt(e); isC {
						s += string(rune(v))
					}
				}
				lits[c.src(as.Lhs[0])] = s
			}
		}
		return true
	})
	seen := map[string]int{}
	// the recognising conditions: `if cond` or `case cond:` of a tag-less switch (same thing, other spelling)
	var condExprs []ast.Expr
	ast.Inspect(fd.Body, func(n ast.Node) bool {
		switch x := n.(type) {
		case *ast.IfStmt:
			condExprs = append(condExprs, x.Cond)
		case *ast.SwitchStmt:
			if x.Tag == nil {
				for _, st := range x.Body.List {
					if cl, ok := st.(*ast.CaseClause); ok {
						condExprs = append(condExprs, cl.List...)
					}
				}
			}
		}
		return true
	})
	for _, ce := range condExprs {
		cond := strings.ReplaceAll(c.src(ce), " ", "")
		for v, lit := range lits {
			if !strings.Contains(cond, v+"[:]") {
				continue
			}
			want := fmt.Sprintf("((@p.pend - @p.pstart) == len(%s)) && bytescase.CmpEq(@b[@p.pstart:@p.pend], %s[:])", v, v)
			seen[lit]++
			c.check(patEq(c.src(ce), want), "N3", fmt.Sprintf("known-name:%s#%d", lit, seen[lit]), ce.Pos(), "the known parameter "+lit+" is recognised by length and case-insensitive comparison of the whole name, nothing else ("+cond+")")
		}
	}
	var names []string
	for k := range seen {
		names = append(names, k)
	}
	sort.Strings(names)
	c.check(strings.Join(names, ",") == "expires,lr,q,tag", "N3", "known-names", fd.Pos(), fmt.Sprintf("known header parameters are tag, expires, q, lr (got %v)", names))
}

// N4: list bookkeeping (shared with C13-K3).
func ruleN4(c *Ctx) {
	t := &Ctx{Prog: c.Prog, Prop: c.Prop}
	ruleK3(t)
	for _, o := range t.obls {
		if strings.Contains(o.Key, "Contact") || strings.Contains(o.Key, "PAI") || strings.Contains(o.Key, "HNo") {
			o.Rule = "N4"
			o.Key = "N4:" + strings.TrimPrefix(o.Key, "K3:")
			c.obls = append(c.obls, o)
		}
	}
	// the kind of header is recorded on completion; '*' only as a whole value
	r := fsmOf(c, "ParseNameAddrPVal")
	if r != nil && r.head != nil {
		okType := true
		nfin := 0
		for _, t := range append(r.grouped(r.trans), r.grouped(r.post)...) {
			if t.Exit == "return" && r.name(t.To) == "fbFIN" && (t.Verd.has(0) || t.Verd.has(4)) && r.name(t.From) != "fbFIN" {
				nfin++
				has := false
				for _, s := range t.Stores {
					if s == "Type=+h" {
						has = true
					}
				}
				if !has {
					okType = false
				}
			}
		}
		c.check(okType && nfin >= 20, "N4", "type-recorded", token.NoPos, fmt.Sprintf("each of the %d completing exits stores the header kind in Type", nfin))
	}
	c.expectMin("N4", 8)
}

// N5: the number helper of the expires / q parameters rejects only what is not a number. Every error return of
// pUInt64Val lies inside its digit loop (a non-digit, or the value does not fit) or is selected by the "too long"
// test len(b) > K; in particular the empty string is the number 0 ("q=1." has an empty fraction).
func ruleN5(c *Ctx) {
	fn := c.SFuncs["pUInt64Val"]
	if fn == nil {
		c.fail("N5", "pUInt64Val", token.NoPos, "not found")
		return
	}
	loops := naturalLoops(fn)
	ei := errResultIndex(fn)
	if len(loops) != 1 || ei < 0 {
		c.fail("N5", "pUInt64Val:shape", fn.Pos(), "expected one digit loop and an error result")
		return
	}
	l := loops[0]
	// blocks dominated by the true edge of a len(b) > K test
	long := map[*ssa.BasicBlock]bool{}
	for _, b := range fn.Blocks {
		iff, ok := b.Instrs[len(b.Instrs)-1].(*ssa.If)
		if !ok {
			continue
		}
		bo, ok := iff.Cond.(*ssa.BinOp)
		if !ok || bo.Op != token.GTR {
			continue
		}
		call, ok := bo.X.(*ssa.Call)
		k, isC := constIntOf(bo.Y)
		if !ok || !isC || k < 1 {
			continue
		}
		if bi, ok := call.Call.Value.(*ssa.Builtin); ok && bi.Name() == "len" {
			for _, b2 := range fn.Blocks {
				if b.Succs[0].Dominates(b2) && len(b.Succs[0].Preds) == 1 {
					long[b2] = true
				}
			}
		}
	}
	n, nerr, zeroOK := 0, 0, false
	for _, b := range fn.Blocks {
		ret, ok := b.Instrs[len(b.Instrs)-1].(*ssa.Return)
		if !ok {
			continue
		}
		n++
		k, isC := constIntOf(ret.Results[ei])
		if isC && k == 0 {
			// the plain return: reached from the loop exit, also with zero iterations
			if v, ok := ret.Results[0].(*ssa.Phi); ok && v.Block() == l.head {
				zeroOK = true
			}
			continue
		}
		nerr++
		inLoop := false
		for _, sb := range l.head.Succs {
			if l.body[sb] && sb != l.head && sb.Dominates(b) {
				inLoop = true // reached only after the loop took a byte
			}
		}
		c.check(inLoop || long[b], "N5", fmt.Sprintf("pUInt64Val:error-return#%d", nerr), ret.Pos(), "this error return lies inside the digit loop or under the too-long test (an empty string is not an error)")
	}
	c.check(zeroOK && nerr >= 2, "N5", "pUInt64Val:empty-is-zero", fn.Pos(), fmt.Sprintf("the success return hands back the accumulator as the loop left it (0 for an empty string); %d returns, %d error returns", n, nerr))
}

// N6: shared with C01/C02 rule R3b.
func ruleN6(c *Ctx) {
	t := &Ctx{Prog: c.Prog, Prop: c.Prop}
	ruleR3b(t)
	for _, o := range t.obls {
		o.Key = "N6:" + strings.TrimPrefix(o.Key, "R3b:")
		o.Rule = "N6"
		c.obls = append(c.obls, o)
	}
	c.expectMin("N6", 4)
}


// N8: the running minimum starts once per message. The all-ones start value of MinExpires is stored (outside
// Reset/Init) only where the dominating branch facts entail N <= 0 for the counter of the same list: an
// initialisation that also runs for the first value of a later header (or for every value) makes the minimum
// summarise only the values after it.
func ruleN8(c *Ctx) {
	n := 0
	var keys []string
	for k := range c.Prog.SFuncs {
		keys = append(keys, k)
	}
	sort.Strings(keys)
	for _, k := range keys {
		fn := c.Prog.SFuncs[k]
		if fn == nil || fn.Name() == "Reset" || fn.Name() == "Init" {
			continue
		}
		for _, b := range fn.Blocks {
			for _, ins := range b.Instrs {
				st, ok := ins.(*ssa.Store)
				if !ok {
					continue
				}
				fa, ok := st.Addr.(*ssa.FieldAddr)
				if !ok {
					continue
				}
				sd := derefStruct(fa.X.Type())
				if sd == nil || sd.Field(fa.Field).Name() != "MinExpires" {
					continue
				}
				kv, isK := constIntOf(st.Val)
				if !isK || (kv != -1 && kv != 0xffffffff) {
					continue
				}
				n++
				// the counter N of the same object
				var nload ssa.Value
				for _, b2 := range fn.Blocks {
					for _, i2 := range b2.Instrs {
						if u, ok := i2.(*ssa.UnOp); ok && u.Op == token.MUL {
							if f2, ok := u.X.(*ssa.FieldAddr); ok && addrPath(f2.X) == addrPath(fa.X) && addrPath(fa.X) != "" {
								if s2 := derefStruct(f2.X.Type()); s2 != nil && s2.Field(f2.Field).Name() == "N" && nload == nil {
									nload = u
								}
							}
						}
					}
				}
				if nload == nil {
					c.fail("N8", k+":MinExpires-start", st.Pos(), "the start value of MinExpires is stored in a function that never reads the list counter N")
					continue
				}
				env := newLinEnv(linOpts{pathLoads: true})
				ok2, why := entails(usableFacts(env, st, true), env.norm(nload))
				c.check(ok2, "N8", k+":MinExpires-start", st.Pos(), fmt.Sprintf("the all-ones start value of MinExpires is stored only under N <= 0 of the same list (entailed by: %s)", why))
			}
		}
	}
	c.check(n >= 1, "N8", "instances", token.NoPos, fmt.Sprintf("%d start-value stores outside Reset/Init (frozen minimum 1)", n))
}

// N9: a parameter name is looked at as a whole. setFromParamVal recognises tag / expires / q / lr by comparing the
// whole name case-insensitively (N3); no other test reads a byte of the name (an index built from pstart): a
// first-character pre-check in front of the comparisons has to list both cases of every known name and silently
// drops the ones it forgets (;Q=0.5).
func ruleN9(c *Ctx) {
	fn := c.SFuncs["setFromParamVal"]
	bp := anyBufParam(fn)
	if fn == nil || bp == nil {
		c.fail("N9", "setFromParamVal", token.NoPos, "not found")
		return
	}
	nIdx, bad := 0, 0
	for _, b := range fn.Blocks {
		for _, ins := range b.Instrs {
			ia, ok := ins.(*ssa.IndexAddr)
			if !ok || ia.X != ssa.Value(bp) {
				continue
			}
			nIdx++
			env := newLinEnv(linOpts{pathLoads: true})
			l := env.norm(ia.Index)
			fromName := false
			for t := range l.T {
				if strings.HasSuffix(t, ".pstart") || strings.HasSuffix(t, ".pend") {
					fromName = true
				}
			}
			if fromName {
				bad++
				c.fail("N9", fmt.Sprintf("setFromParamVal:name-byte#%d", bad), ia.Pos(), "a single byte of the parameter name is read (index "+env.pretty(l)+"): names are compared as a whole, case-insensitively")
			}
		}
	}
	c.check(nIdx >= 1, "N9", "reads", fn.Pos(), fmt.Sprintf("%d single-byte reads of the buffer in setFromParamVal, %d of them of the parameter name", nIdx, bad))
}

func init() {
	register(&PropDef{
		ID: "C09",
		Rules: []Rule{
			{"N1", "from the extracted name-addr automaton (33 states x byte classes): the more-values exit is reached only on ',', only outside quoted strings and angle brackets, only under multipleValsOk(kind) whose constant set is Contact/Record-Route/Route/PAI, and continues after the comma", ruleN1},
			{"N2", "after-whitespace sibling states (found structurally: X -LWS-> Y) accept every delimiter of ';' ',' '=' that the state before the whitespace accepts - the static form of 'optional linear whitespace around ; = and ,'", ruleN2},
			{"N3", "every transition that ends a parameter value (to a non-value state or a completing exit) calls setFromParamVal; the known names tag/expires/q/lr are recognised by length + CmpEq of the whole name and nothing else", ruleN3},
			{"N7", "the automaton extracted from ParseNameAddrPVal equals the reviewed reference table (ref/ParseNameAddrPVal.txt): for every state and byte class the next state or exit, the verdict set, the field actions with their arguments (locals other than the scan index abstracted) and the returned offset; a transition that loses an action, changes target, verdict or byte class shows up as a missing and an extra row", func(c *Ctx) { fsmRefRule(c, "N7", "ParseNameAddrPVal") }},
			{"N6", "Contact / P-Asserted-Identity headers always reach their typed parser and their header counter (shared with C01-R3b): the dispatch state is never left undispatched and the dispatcher reports a non-zero verdict only after storing a typed state", ruleN6},
			{"N5", "the number helper behind expires / q rejects only non-numbers: every error return of pUInt64Val lies inside its digit loop or under the len(b) > K test, and its success return hands back the accumulator as the loop left it, so the empty string is 0 (q=1. has an empty fraction)", ruleN5},
			{"N8", "the running minimum of the Contact expires starts once per message: outside Reset/Init the all-ones start value of MinExpires is stored only where the dominating branch facts entail N <= 0 for the counter of the same list, so the minimum and maximum summarise all values of all Contact headers", ruleN8},
			{"N9", "a parameter name is looked at as a whole: setFromParamVal reads no single byte of the name (no buffer index built from the name start / end), so tag, expires, q and lr are recognised in any letter case by the whole-name comparisons of N3 alone", ruleN9},
			{"N4", "list bookkeeping: N++, Min/MaxExpires, first-contact copy unconditional in the completion clause, HNo on first entry, header kind recorded on every completing exit", ruleN4},
		},
		Assumptions: []string{"skipLWS consumes only linear whitespace"},
		NotDecided:  "that display name / URI / tag / parameter spans equal the text (field values)",
	})
}
