package main

import (
	"fmt"
	"go/ast"
	"go/constant"
	"go/token"
	"go/types"
	"sort"
	"strings"

	"golang.org/x/tools/go/ssa"
)

// stmtLists visits every statement list (block bodies, case clauses) in n.
func stmtLists(n ast.Node, f func(list []ast.Stmt)) {
	ast.Inspect(n, func(x ast.Node) bool {
		switch b := x.(type) {
		case *ast.BlockStmt:
			f(b.List)
		case *ast.CaseClause:
			f(b.Body)
		case *ast.CommClause:
			f(b.Body)
		}
		return true
	})
}

// isAssign reports whether s is `lhs = rhs` with the given rendered sides ("" = any).
func (p *Prog) isAssign(s ast.Stmt, lhs, rhs string) bool {
	as, ok := s.(*ast.AssignStmt)
	if !ok || len(as.Lhs) != 1 || len(as.Rhs) != 1 {
		return false
	}
	return (lhs == "" || p.src(as.Lhs[0]) == lhs) && (rhs == "" || p.src(as.Rhs[0]) == rhs)
}

// T1: classification is assigned on both colon paths.
func ruleT1(c *Ctx) {
	fd := c.Decls["ParseHdrLine"]
	if fd == nil {
		c.fail("T1", "ParseHdrLine", token.NoPos, "function not found")
		return
	}
	hname := fd.Type.Params.List[2].Names[0].Name
	bufname := fd.Type.Params.List[0].Names[0].Name
	n := 0
	stmtLists(fd.Body, func(list []ast.Stmt) {
		for i, s := range list {
			if !c.isAssign(s, hname+".state", "hBodyStart") {
				continue
			}
			n++
			typed, called := false, false
			for _, t := range list[i+1:] {
				// the call that consumes the classification
				isCall := false
				ast.Inspect(t, func(x ast.Node) bool {
					if call, ok := x.(*ast.CallExpr); ok {
						if id, ok := call.Fun.(*ast.Ident); ok && id.Name == "parseBody" {
							isCall = true
						}
					}
					return true
				})
				if isCall {
					called = true
					break
				}
				if as, ok := t.(*ast.AssignStmt); ok && len(as.Lhs) == 1 && c.src(as.Lhs[0]) == hname+".Type" {
					if call, ok := as.Rhs[0].(*ast.CallExpr); ok && c.calleeName(call) == "GetHdrType" &&
						len(call.Args) == 1 && c.src(call.Args[0]) == hname+".Name.Get("+bufname+")" {
						typed = true
					}
				}
			}
			key := "body-start-entry"
			c.check(typed && called, "T1", key+":"+itoa(n), s.Pos(),
				"entry into the body-start state sets "+hname+".Type = GetHdrType("+hname+".Name.Get("+bufname+")) before the value parser is chosen")
		}
	})
	// no other store to h.Type in the parser
	others := 0
	ast.Inspect(fd.Body, func(x ast.Node) bool {
		if as, ok := x.(*ast.AssignStmt); ok {
			for _, l := range as.Lhs {
				if c.src(l) == hname+".Type" {
					others++
				}
			}
		}
		return true
	})
	c.check(others == n, "T1", "type-stores", fd.Pos(), "h.Type is stored only at the classification sites")
	c.expectMin("T1", 3)
}

func itoa(n int) string {
	return string(rune('0' + n%10))
}

// T2: header-loop bookkeeping is unconditional on every completed header.
func ruleT2(c *Ctx) {
	ruleK3path(c, "T2", "ParseHeaders")
	ruleT2ast(c)
}

// ruleT2ast: source-level form of the same fact (kept for the more readable report).
func ruleT2ast(c *Ctx) {
	fd := c.Decls["ParseHeaders"]
	if fd == nil {
		c.fail("T2", "ParseHeaders", token.NoPos, "not found")
		return
	}
	hl := fd.Type.Params.List[2].Names[0].Name
	found := false
	ast.Inspect(fd.Body, func(n ast.Node) bool {
		sw, ok := n.(*ast.SwitchStmt)
		if !ok || sw.Tag == nil {
			return true
		}
		// the switch on ParseHdrLine's verdict
		tagObj := c.objOf(sw.Tag)
		isVerdict := false
		ast.Inspect(fd.Body, func(m ast.Node) bool {
			if as, ok := m.(*ast.AssignStmt); ok && len(as.Lhs) == 2 && len(as.Rhs) == 1 {
				if call, ok := as.Rhs[0].(*ast.CallExpr); ok && c.calleeName(call) == "ParseHdrLine" && c.objOf(as.Lhs[1]) == tagObj {
					isVerdict = true
				}
			}
			return true
		})
		if !isVerdict {
			return true
		}
		for _, cc := range sw.Body.List {
			cl := cc.(*ast.CaseClause)
			ok0 := false
			for _, e := range cl.List {
				if v, isC := c.constInt(e); isC && v == 0 {
					ok0 = true
				}
			}
			if !ok0 {
				continue
			}
			found = true
			var hname string
			have := map[string]bool{}
			for _, s := range cl.Body {
				switch st := s.(type) {
				case *ast.ExprStmt:
					if call, ok := st.X.(*ast.CallExpr); ok {
						src := c.src(call)
						switch c.calleeName(call) {
						case "HdrFlags.Set":
							if strings.HasPrefix(src, hl+".PFlags.Set(") && strings.HasSuffix(src, ".Type)") {
								have["flags"] = true
								hname = strings.TrimSuffix(strings.TrimPrefix(src, hl+".PFlags.Set("), ".Type)")
							}
						case "HdrLst.SetHdr":
							if strings.HasPrefix(src, hl+".SetHdr(") {
								have["first"] = true
							}
						}
					}
				case *ast.IncDecStmt:
					if c.src(st.X) == hl+".N" && st.Tok == token.INC {
						have["count"] = true
					}
				case *ast.IfStmt:
					// only the scratch-slot reset may be conditional
					cs := c.src(st.Cond)
					c.check(strings.Contains(cs, "&"+hl+".hdr") && strings.Contains(c.src(st.Body), ".Reset()"), "T2", "conditional:"+cs, st.Pos(),
						"the only conditional statement on the completion path is the scratch-slot reset")
				}
			}
			c.check(have["flags"], "T2", "PFlags.Set", cl.Pos(), "every completed header sets its type flag unconditionally (PFlags.Set("+hname+".Type))")
			c.check(have["first"], "T2", "SetHdr", cl.Pos(), "every completed header is offered to the first-of-type table unconditionally")
			c.check(have["count"], "T2", "N++", cl.Pos(), "every completed header is counted unconditionally, whether or not it fitted the caller's array")
		}
		return true
	})
	if !found {
		c.ok("T2", "case-0", fd.Pos(), "no `switch verdict { case 0: }` clause in this shape; the SSA must-pass obligations above decide the rule")
	} else {
		c.ok("T2", "case-0", fd.Pos(), "completion clause (verdict 0 of ParseHdrLine) found")
	}
}

// T3: the flag word is wide enough for every header type; first-of-type table sized for the known types.
func ruleT3(c *Ctx) {
	var max int64 = -1
	n := 0
	sc := c.Types.Scope()
	var hdrT, flagsT types.Type
	if o := sc.Lookup("HdrT"); o != nil {
		hdrT = o.Type()
	}
	if o := sc.Lookup("HdrFlags"); o != nil {
		flagsT = o.Type()
	}
	for _, name := range sc.Names() {
		if k, ok := sc.Lookup(name).(*types.Const); ok && hdrT != nil && types.Identical(k.Type(), hdrT) {
			v, _ := constant.Int64Val(constant.ToInt(k.Val()))
			if v > max {
				max = v
			}
			n++
		}
	}
	bits, _ := intBits(flagsT)
	c.check(n >= 15 && max >= 0 && int(max) < bits, "T3", "flag-width", token.NoPos, fmt.Sprintf("largest HdrT constant %d < %d bits of HdrFlags (1<<Type never drops a type)", max, bits))
	other, _ := c.namedConstInt("HdrOther")
	c.check(max == other, "T3", "other-last", token.NoPos, "HdrOther is the largest header type")
	// len(HdrLst.h) == HdrOther-1
	for _, f := range c.structFields("HdrLst") {
		if f.Name() == "h" {
			at, ok := f.Type().Underlying().(*types.Array)
			c.check(ok && at.Len() == other-1, "T3", "first-table-len", token.NoPos, fmt.Sprintf("first-of-type table has HdrOther-1 = %d slots", other-1))
		}
	}
	// GetHdr / SetHdr index with Type-1
	for _, fn := range []string{"HdrLst.GetHdr", "HdrLst.SetHdr"} {
		fd := c.Decls[fn]
		okIdx := false
		if fd != nil {
			s := c.src(fd.Body)
			okIdx = patIn(s, "int(@t) - 1") || patIn(s, "int(@n.Type) - 1")
		}
		c.check(okIdx, "T3", fn+":index", token.NoPos, "slot index is Type-1 (no slot for HdrNone)")
	}
	// SetHdr keeps the first header of a type: stores only when the slot is Missing()
	if fd := c.Decls["HdrLst.SetHdr"]; fd != nil {
		// the slot is really written, with the header handed in, for every valid index: the store into the table
		// exists, copies the parameter, and the guard that dominates it is exactly 0 <= index < len(table)
		if sf := c.SFuncs["HdrLst.SetHdr"]; sf != nil {
			okStore, why := false, "no store into the first-of-type table"
			for _, b := range sf.Blocks {
				for _, ins := range b.Instrs {
					st, ok := ins.(*ssa.Store)
					if !ok {
						continue
					}
					ia, ok := st.Addr.(*ssa.IndexAddr)
					if !ok {
						continue
					}
					ld, isLd := st.Val.(*ssa.UnOp)
					if !isLd || len(sf.Params) < 2 || ld.X != ssa.Value(sf.Params[1]) {
						why = "the value stored is not the header handed in"
						continue
					}
					env := newLinEnv(linOpts{})
					idx := env.norm(ia.Index)
					lowOK := false
					for _, f := range env.factsAt(b) {
						// -idx <= 0  (idx >= 0, exactly)
						d := f.L.add(idx, 1)
						if d.isConst() && d.C == 0 && len(f.L.T) == len(idx.T) {
							lowOK = true
						}
					}
					// the upper bound is the index-guard rule's business (C04-G); here only the lower edge matters
					okStore = lowOK
					if lowOK {
						why = ""
					} else {
						why = "the guard does not admit every index from 0 (type 1 would lose its slot)"
					}
				}
			}
			c.check(okStore, "T3", "SetHdr:stores-slot", sf.Pos(), "SetHdr copies the header handed in into table[Type-1] under a guard that admits exactly the indices >= 0 "+why)
		} else {
			c.fail("T3", "SetHdr:stores-slot", fd.Pos(), "HdrLst.SetHdr not found")
		}
		c.check(strings.Contains(c.src(fd.Body), ".Missing()"), "T3", "SetHdr:first-only", fd.Pos(), "a slot is written only while it is still missing (first header of the type wins)")
		// ... and "missing" means exactly "no type recorded": the predicate reads the Type field only
		if mf := c.SFuncs["Hdr.Missing"]; mf != nil {
			okM, reads := true, 0
			for _, b := range mf.Blocks {
				for _, ins := range b.Instrs {
					switch x := ins.(type) {
					case *ssa.UnOp:
						if x.Op == token.MUL {
							reads++
							fa, ok := x.X.(*ssa.FieldAddr)
							if !ok || derefStruct(fa.X.Type()) == nil || derefStruct(fa.X.Type()).Field(fa.Field).Name() != "Type" {
								okM = false
							}
						}
					case *ssa.Call:
						okM = false
					}
				}
			}
			c.check(okM && reads >= 1 && len(mf.Blocks) == 1, "T3", "Missing:type-only", mf.Pos(), "Hdr.Missing() is decided by the Type field alone (a parsed header with an empty value still occupies its first-of-type slot)")
		} else {
			c.fail("T3", "Missing:type-only", fd.Pos(), "Hdr.Missing not found")
		}
	}
}

// T4: decision table of skipCRLF (the three accepted line ends) by exact byte sets at each return.
func ruleT4(c *Ctx) {
	fn := c.SFuncs["skipCRLF"]
	if fn == nil {
		c.fail("T4", "skipCRLF", token.NoPos, "not found")
		return
	}
	env := newRangeEnv(fn)
	// loads of buf[offs] and buf[offs+1]
	var ld0, ld1 ssa.Value
	le := newLinEnv(linOpts{})
	for _, b := range fn.Blocks {
		for _, ins := range b.Instrs {
			u, ok := ins.(*ssa.UnOp)
			if !ok || u.Op != token.MUL {
				continue
			}
			ia, ok := u.X.(*ssa.IndexAddr)
			if !ok {
				continue
			}
			l := le.norm(ia.Index)
			if len(l.T) == 1 && l.T["param:"+fn.Params[1].Name()] == 1 {
				if l.C == 0 && ld0 == nil {
					ld0 = u
				} else if l.C == 1 && ld1 == nil {
					ld1 = u
				}
			}
		}
	}
	if ld0 == nil || ld1 == nil {
		c.fail("T4", "skipCRLF:loads", fn.Pos(), "loads of buf[offs] / buf[offs+1] not found")
		return
	}
	only := func(bs *ByteSet, vals ...int) bool {
		if bs == nil || bs.count() != len(vals) {
			return false
		}
		for _, v := range vals {
			if !bs.has(v) {
				return false
			}
		}
		return true
	}
	for _, b := range fn.Blocks {
		ret, ok := b.Instrs[len(b.Instrs)-1].(*ssa.Return)
		if !ok {
			continue
		}
		verdict, _ := constIntOf(ret.Results[2])
		crl, _ := constIntOf(ret.Results[1])
		s0, s1 := env.byteSetOf(ld0, b), env.byteSetOf(ld1, b)
		adv := le.norm(ret.Results[0]).add(le.norm(fn.Params[1]), -1)
		key := fmt.Sprintf("skipCRLF:return(+%d,%d,%d)", adv.C, crl, verdict)
		switch {
		case verdict == 0 && crl == 2:
			c.check(adv.isConst() && adv.C == 2 && only(s0, '\r') && only(s1, '\n'), "T4", key, ret.Pos(), "CR LF: advance 2 iff buf[i]==CR and buf[i+1]==LF (got "+s0.String()+","+s1.String()+")")
		case verdict == 0 && crl == 1:
			okCR := only(s0, '\r') && !s1.has('\n')
			okLF := only(s0, '\n')
			c.check(adv.isConst() && adv.C == 1 && (okCR || okLF), "T4", key, ret.Pos(), "lone CR (next byte not LF) or lone LF: advance 1 (got "+s0.String()+","+s1.String()+")")
		case verdict == 0:
			c.fail("T4", key, ret.Pos(), "success return with unexpected line-end length")
		default:
			c.check(adv.isConst() && adv.C == 0 && crl == 0, "T4", key, ret.Pos(), "non-success returns do not advance")
			if nocr, _ := c.namedConstInt("ErrHdrNoCR"); verdict == nocr {
				c.check(!s0.has('\r') && !s0.has('\n'), "T4", key+":bytes", ret.Pos(), "NoCR only for a byte that is neither CR nor LF (got "+s0.String()+")")
			}
		}
	}
	c.expectMin("T4", 6)
}

// T5: line-end accounting. Where the verdict of a line-end skipper (a callee returning offset, line-end length,
// verdict) has just been found to be end-of-header, every path from there to a return with a completing verdict
// returns exactly that call's offset + that call's line-end length — never a guessed length — so that the next
// header starts at the first byte of its line whatever the terminator was (CR LF, lone CR, lone LF).
func ruleT5(c *Ctx) {
	e := newErrAnalysis(c.Prog)
	eoh, _ := c.namedConstInt("ErrHdrEOH")
	mb, _ := c.namedConstInt("ErrHdrMoreBytes")
	completing := VSet(0x1f) &^ (1 << uint(mb))
	nTests, nPaths := 0, 0
	for _, f := range streamingFuncs(c, e) {
		fk := ssaKey(f)
		ei := errResultIndex(f)
		cnt := 0
		if !isIntType(f.Signature.Results().At(0).Type()) {
			continue // not an offset-returning function
		}
		for _, b := range f.Blocks {
			iff, ok := b.Instrs[len(b.Instrs)-1].(*ssa.If)
			if !ok {
				continue
			}
			bo, ok := iff.Cond.(*ssa.BinOp)
			if !ok || (bo.Op != token.EQL && bo.Op != token.NEQ) {
				continue
			}
			k, isC := constIntOf(bo.Y)
			ex, isE := bo.X.(*ssa.Extract)
			if !isC || !isE || k != eoh {
				continue
			}
			call, ok := ex.Tuple.(*ssa.Call)
			if !ok {
				continue
			}
			cal := call.Call.StaticCallee()
			if cal == nil || cal.Signature.Results().Len() != 3 || errResultIndex(cal) != ex.Index || bufParam(cal) == nil {
				continue
			}
			start := b.Succs[0]
			if bo.Op == token.NEQ {
				start = b.Succs[1]
			}
			nTests++
			cnt++
			key := fmt.Sprintf("%s:%s-eoh#%d", fk, cal.Name(), cnt)
			// path-wise walk, phis resolved by the edge taken
			type st struct {
				b    *ssa.BasicBlock
				prev *ssa.BasicBlock
				env  map[*ssa.Phi]ssa.Value
				seen map[*ssa.BasicBlock]bool
			}
			var resolve func(v ssa.Value, env map[*ssa.Phi]ssa.Value, out map[ssa.Value]int64, sign int64, depth int) int64
			resolve = func(v ssa.Value, env map[*ssa.Phi]ssa.Value, out map[ssa.Value]int64, sign int64, depth int) int64 {
				if depth > 12 {
					out[v] += sign
					return 0
				}
				switch x := v.(type) {
				case *ssa.Phi:
					if r, ok := env[x]; ok {
						return resolve(r, env, out, sign, depth+1)
					}
				case *ssa.BinOp:
					if x.Op == token.ADD {
						return resolve(x.X, env, out, sign, depth+1) + resolve(x.Y, env, out, sign, depth+1)
					}
					if x.Op == token.SUB {
						return resolve(x.X, env, out, sign, depth+1) + resolve(x.Y, env, out, -sign, depth+1)
					}
				case *ssa.Const:
					if n, ok := constIntOf(x); ok {
						return sign * n
					}
				}
				out[v] += sign
				return 0
			}
			var bad []string
			badPos := token.NoPos
			paths := 0
			work := []st{{start, b, map[*ssa.Phi]ssa.Value{}, map[*ssa.BasicBlock]bool{b: true}}}
			for len(work) > 0 && paths < 4000 {
				cur := work[len(work)-1]
				work = work[:len(work)-1]
				env := cur.env
				// phis of this block from the edge taken
				for i, p := range cur.b.Preds {
					if p != cur.prev {
						continue
					}
					for _, ins := range cur.b.Instrs {
						ph, ok := ins.(*ssa.Phi)
						if !ok {
							break
						}
						env[ph] = ph.Edges[i]
					}
					break
				}
				last := cur.b.Instrs[len(cur.b.Instrs)-1]
				if ret, ok := last.(*ssa.Return); ok {
					paths++
					// verdict on this path
					vv := ret.Results[ei]
					for d := 0; d < 8; d++ {
						ph, ok := vv.(*ssa.Phi)
						if !ok {
							break
						}
						r, ok := env[ph]
						if !ok {
							break
						}
						vv = r
					}
					var vs VSet
					if kk, ok := constIntOf(vv); ok && kk >= 0 && kk < 64 {
						vs = 1 << uint(kk)
					} else {
						vs = e.at(vv, cur.b)
					}
					if vs&completing == 0 {
						continue
					}
					atoms := map[ssa.Value]int64{}
					k0 := resolve(ret.Results[0], env, atoms, 1, 0)
					okv := k0 == 0
					n0, n1 := 0, 0
					for a, cf := range atoms {
						if cf == 0 {
							continue
						}
						ax, isX := a.(*ssa.Extract)
						switch {
						case isX && ax.Tuple == ex.Tuple && ax.Index == 0 && cf == 1:
							n0++
						case isX && ax.Tuple == ex.Tuple && ax.Index == 1 && cf == 1:
							n1++
						default:
							okv = false
						}
					}
					if !(okv && n0 == 1 && n1 == 1) {
						le := newLinEnv(linOpts{})
						bad = append(bad, posStr(f, ret.Pos())+" returns "+le.pretty(le.norm(ret.Results[0])))
						badPos = ret.Pos()
					}
					continue
				}
				for _, sb := range cur.b.Succs {
					if cur.seen[sb] || sb.Dominates(cur.b) {
						continue // no second visit, no back edges: the completing exits lie ahead
					}
					ne := map[*ssa.Phi]ssa.Value{}
					for k2, v2 := range env {
						ne[k2] = v2
					}
					ns := map[*ssa.BasicBlock]bool{}
					for k2 := range cur.seen {
						ns[k2] = true
					}
					ns[sb] = true
					work = append(work, st{sb, cur.b, ne, ns})
				}
			}
			nPaths += paths
			sort.Strings(bad)
			if len(bad) > 2 {
				bad = bad[:2]
			}
			pos := iff.Cond.Pos()
			if badPos.IsValid() {
				pos = badPos
			}
			c.check(len(bad) == 0 && paths < 4000, "T5", key, pos, fmt.Sprintf("after %s() reported end-of-header, each of the %d paths to a completing return yields that call's offset + that call's line-end length %v", cal.Name(), paths, bad))
		}
	}
	c.check(nTests >= 12, "T5", "tests", token.NoPos, fmt.Sprintf("%d end-of-header verdict tests, %d paths followed (frozen minimum 12 tests)", nTests, nPaths))
}

func vsStr(v VSet) string {
	var out []string
	for i := 0; i < 64; i++ {
		if v&(1<<uint(i)) != 0 {
			out = append(out, itoa(i))
		}
	}
	return "{" + strings.Join(out, ",") + "}"
}

// T7: the empty line that ends the header block, decided from the extracted header-line automaton in its initial
// state: a lone LF gives (i+1, empty) with no look-ahead and no callee; CR LF gives (i+2, empty); CR followed by any
// other byte gives (i+1, empty); CR as the last byte may ask for more bytes; no other first byte yields "empty".
func ruleT7(c *Ctx) {
	r := fsmOf(c, "ParseHdrLine")
	if r == nil || r.head == nil || r.capped {
		c.fail("T7", "ParseHdrLine:fsm", token.NoPos, "state machine could not be extracted")
		return
	}
	empty, _ := c.namedConstInt("ErrHdrEmpty")
	mb, _ := c.namedConstInt("ErrHdrMoreBytes")
	idx := fsmIndexName(r)
	has := func(t fsmTrans, s string) bool {
		for _, cd := range t.Conds {
			if cd == s {
				return true
			}
		}
		return false
	}
	first := func(t fsmTrans) string {
		// which first byte does this path assume? from the exact byte set if the code keeps the byte in a
		// variable, else from the comparison conditions on the element load
		if t.Bytes != nil && t.Bytes.count() == 1 {
			switch t.Bytes.min() {
			case '\n':
				return "LF"
			case '\r':
				return "CR"
			}
		}
		if t.Bytes != nil && t.Bytes.count() < 256 && !t.Bytes.has('\n') && !t.Bytes.has('\r') {
			return "other"
		}
		switch {
		case has(t, "+buf[*]==+13"):
			return "CR"
		case has(t, "!+buf[*]==+13") && has(t, "+buf[*]==+10"):
			return "LF"
		case has(t, "!+buf[*]==+13") && has(t, "!+buf[*]==+10"):
			return "other"
		}
		return "?"
	}
	var init int64 = -1
	for k, n := range r.spec.constName {
		if strings.HasSuffix(n, "Init") {
			init = k
		}
	}
	nLF, nCR, nOther := 0, 0, 0
	for _, t := range r.grouped(r.trans) {
		if t.From != init {
			continue
		}
		fb := first(t)
		key := "hInit:" + fb + ":" + vsStr(t.Verd) + ":" + t.RetOffs
		switch fb {
		case "LF":
			nLF++
			ok := t.Exit == "return" && t.Verd.only(empty) && t.RetOffs == "+"+idx+"+1" && len(t.Calls) == 0
			c.check(ok, "T7", key, t.RetPos, "a lone LF at the start of a line ends the header block at once: returns (index+1, empty), no callee, no look-ahead (got verdict "+vsStr(t.Verd)+" offset "+t.RetOffs+" calls "+strings.Join(t.Calls, ",")+")")
		case "CR":
			nCR++
			ok := t.Exit == "return" && len(t.Calls) == 0 &&
				((t.Verd.only(empty) && (t.RetOffs == "+"+idx+"+1" || t.RetOffs == "+"+idx+"+2")) || (t.Verd.only(mb) && t.RetOffs == "+"+idx))
			c.check(ok, "T7", key, t.RetPos, "CR at the start of a line: (index+2, empty) with LF, (index+1, empty) otherwise, or more-bytes at the CR when it is the last byte (got verdict "+vsStr(t.Verd)+" offset "+t.RetOffs+")")
		case "other":
			nOther++
			if t.Verd.has(empty) {
				c.fail("T7", key, t.RetPos, "a first byte other than CR / LF yields the empty-line verdict")
			}
		default:
			if t.Verd.has(empty) {
				c.fail("T7", key, t.RetPos, "an empty-line verdict on a path whose first byte could not be classified")
			}
		}
	}
	c.ok("T7", "hInit:other", token.NoPos, fmt.Sprintf("none of the %d paths whose first byte is neither CR nor LF yields the empty-line verdict", nOther))
	c.check(nLF >= 1 && nCR >= 3 && nOther >= 3, "T7", "hInit:paths", token.NoPos, fmt.Sprintf("initial-state paths by first byte: LF %d, CR %d, other %d (frozen minimum 1/3/3)", nLF, nCR, nOther))
}

// T9: a header type is not a flag. The package's named integer types are different units (HdrT an ordinal, HdrFlags a
// bit set, OffsT a position, ErrorHdr a verdict, ...); the flag of a type is 1 << type, computed inside HdrFlags.Set /
// Test. A direct conversion from one of these named types to another (HdrFlags(t) for a HdrT t) reinterprets the
// ordinal as a mask: GetHdr would answer from whichever other headers happen to be present.
func ruleT9(c *Ctx) {
	var keys []string
	for k := range c.Prog.SFuncs {
		keys = append(keys, k)
	}
	sort.Strings(keys)
	nConv, nBad := 0, 0
	for _, k := range keys {
		fn := c.Prog.SFuncs[k]
		if fn == nil {
			continue
		}
		for _, b := range fn.Blocks {
			for _, ins := range b.Instrs {
				var cvX ssa.Value
				var cv ssa.Value
				switch x := ins.(type) {
				case *ssa.Convert:
					cvX, cv = x.X, x
				case *ssa.ChangeType: // same underlying type: still a change of unit
					cvX, cv = x.X, x
				default:
					continue
				}
				nConv++
				a, ok1 := cvX.Type().(*types.Named)
				r, ok2 := cv.Type().(*types.Named)
				if !ok1 || !ok2 || a == r || a.Obj().Pkg() != c.Prog.Types || r.Obj().Pkg() != c.Prog.Types {
					continue
				}
				if !isIntType(a) || !isIntType(r) {
					continue
				}
				nBad++
				c.fail("T9", fmt.Sprintf("%s:%s->%s#%d", k, a.Obj().Name(), r.Obj().Name(), nBad), cv.Pos(), fmt.Sprintf("a value of the named type %s is converted directly to the named type %s (an ordinal is not a bit mask / a position / a verdict)", a.Obj().Name(), r.Obj().Name()))
			}
		}
	}
	c.check(nConv >= 50, "T9", "conversions", token.NoPos, fmt.Sprintf("%d integer conversions inspected, %d between two distinct named types of the package (frozen minimum 50 inspected)", nConv, nBad))
}

// T10: the first header of a type is recorded whatever it looks like. HdrLst.SetHdr decides on two things only: the
// slot index computed from the header's Type is in range, and the slot is still Missing(). Any other condition
// (the value is empty, the name is empty, ...) makes a later header of the type "the first one" although the flag set
// already has the type.
func ruleT10(c *Ctx) {
	fn := c.SFuncs["HdrLst.SetHdr"]
	if fn == nil || len(fn.Params) < 2 {
		c.fail("T10", "HdrLst.SetHdr", token.NoPos, "not found")
		return
	}
	n := 0
	for _, b := range fn.Blocks {
		iff, ok := b.Instrs[len(b.Instrs)-1].(*ssa.If)
		if !ok {
			continue
		}
		n++
		good, why := false, "unrecognised condition"
		switch x := iff.Cond.(type) {
		case *ssa.BinOp:
			// a comparison of the slot index (derived from the Type field only) with a constant / the table length
			fromType := func(v ssa.Value) bool {
				ok := false
				var walk func(v ssa.Value, d int)
				seenOther := false
				walk = func(v ssa.Value, d int) {
					if d > 8 {
						seenOther = true
						return
					}
					switch y := v.(type) {
					case *ssa.Const:
					case *ssa.Convert:
						walk(y.X, d+1)
					case *ssa.BinOp:
						walk(y.X, d+1)
						walk(y.Y, d+1)
					case *ssa.UnOp:
						if fa, isF := y.X.(*ssa.FieldAddr); isF && y.Op == token.MUL {
							if st := derefStruct(fa.X.Type()); st != nil && st.Field(fa.Field).Name() == "Type" && fa.X == ssa.Value(fn.Params[1]) {
								ok = true
								return
							}
						}
						seenOther = true
					default:
						seenOther = true
					}
				}
				walk(v, 0)
				return ok && !seenOther
			}
			_, xk := constIntOf(x.X)
			_, yk := constIntOf(x.Y)
			if (fromType(x.X) && yk) || (fromType(x.Y) && xk) {
				good, why = true, "slot index (from Type) against a constant bound"
			}
		case *ssa.Call:
			if cal := x.Call.StaticCallee(); cal != nil && cal.Name() == "Missing" && len(x.Call.Args) == 1 {
				if ia, ok := x.Call.Args[0].(*ssa.IndexAddr); ok {
					if fa, ok := ia.X.(*ssa.FieldAddr); ok && fa.X == ssa.Value(fn.Params[0]) {
						good, why = true, "the table slot is still Missing()"
					}
				}
			}
		}
		c.check(good, "T10", fmt.Sprintf("HdrLst.SetHdr:condition#%d", n), iff.Cond.Pos(), "SetHdr decides only on the slot index computed from the header type and on the slot being Missing() ("+why+")")
	}
	c.check(n >= 3, "T10", "conditions", fn.Pos(), fmt.Sprintf("%d conditions in HdrLst.SetHdr (frozen minimum 3)", n))
}

// T11: bookkeeping only for completed headers. In ParseHeaders the flag update, the first-of-type registration and the
// header counter are touched only where the verdict of ParseHdrLine, refined by the branches taken, is exactly Ok: a
// header registered while it is still suspended (more-bytes) is a half-parsed copy that SetHdr never replaces.
func ruleT11(c *Ctx) {
	fn := c.SFuncs["ParseHeaders"]
	if fn == nil {
		c.fail("T11", "ParseHeaders", token.NoPos, "not found")
		return
	}
	e := newErrAnalysis(c.Prog)
	var errv ssa.Value
	for _, b := range fn.Blocks {
		for _, ins := range b.Instrs {
			if call, ok := ins.(*ssa.Call); ok {
				if cal := call.Call.StaticCallee(); cal != nil && cal.Name() == "ParseHdrLine" {
					for _, r := range *call.Referrers() {
						if ex, ok := r.(*ssa.Extract); ok && ex.Index == 1 {
							errv = ex
						}
					}
				}
			}
		}
	}
	if errv == nil {
		c.fail("T11", "ParseHeaders:verdict", fn.Pos(), "verdict of ParseHdrLine not found")
		return
	}
	n := 0
	for _, b := range fn.Blocks {
		for _, ins := range b.Instrs {
			what := ""
			switch x := ins.(type) {
			case *ssa.Call:
				if cal := x.Call.StaticCallee(); cal != nil {
					if k := ssaKey(cal); k == "HdrLst.SetHdr" || k == "HdrFlags.Set" {
						what = k
					}
				}
			case *ssa.Store:
				if fa, ok := x.Addr.(*ssa.FieldAddr); ok && fieldCell(fa) == "HdrLst.N" {
					what = "N++"
				}
			}
			if what == "" {
				continue
			}
			n++
			vs := e.refined(errv, b)
			c.check(vs == VSet(1), "T11", fmt.Sprintf("ParseHeaders:%s#%d", what, n), ins.Pos(), fmt.Sprintf("%s happens only where the verdict of ParseHdrLine is exactly Ok (refined verdict set here: %s)", what, e.setName("ErrorHdr", vs)))
		}
	}
	c.check(n >= 3, "T11", "instances", fn.Pos(), fmt.Sprintf("%d bookkeeping sites in ParseHeaders (frozen minimum 3)", n))
}

func init() {
	register(&PropDef{
		ID: "C07",
		Rules: []Rule{
			{"T1", "classification is assigned on both colon paths: every entry into the body-start state stores h.Type = GetHdrType(h.Name.Get(buf)) before the value parser is chosen, and h.Type is stored nowhere else", ruleT1},
			{"T2", "header-loop bookkeeping is unconditional: on verdict 0 of ParseHdrLine the type flag is set, the header is offered to the first-of-type table and N is incremented as top-level statements; the only conditional is the scratch-slot reset", ruleT2},
			{"T3", "the flag word has a bit for every header type, HdrOther is the largest type, the first-of-type table has HdrOther-1 slots indexed Type-1 and keeps the first header of a type", ruleT3},
			{"T5", "line-end accounting in every streaming caller: on every path from an end-of-header verdict of a line-end skipper (offset, line-end length, verdict) to a return with a completing verdict, the returned offset is that call's offset plus that call's line-end length (phis resolved by the edge taken), never a guessed length", ruleT5},
			{"T6", "exact byte sets of the scanners header names and generic values are cut with (shared with C08-S5): skipTokenDelim, skipToken, skipWS, skipLine", func(c *Ctx) { scannerSets(c, "T6") }},
			{"T11", "bookkeeping only for completed headers: in ParseHeaders the type flag, the first-of-type registration and the header counter are updated only where the verdict of ParseHdrLine, refined by the branches taken, is exactly Ok — never for a header that is still suspended", ruleT11},
			{"T10", "the first header of a type is recorded whatever it looks like: every condition in HdrLst.SetHdr is a range test of the slot index computed from the header's Type alone, or Missing() of that table slot; an empty value or name is no reason to skip the first occurrence", ruleT10},
			{"T9", "a header type is not a flag: no value of one named integer type of the package (HdrT, HdrFlags, OffsT, ErrorHdr, SIPMethod, ...) is converted directly to another one; the flag of a header type exists only as 1 << type inside HdrFlags.Set/Test, so the type-flag set and the first-of-type lookup are indexed consistently", ruleT9},
			{"T8", "the automaton extracted from ParseHdrLine equals the reviewed reference table (ref/ParseHdrLine.txt): for every state and byte class the next state or exit, the verdict set, the field actions with their arguments (locals other than the scan index abstracted) and the returned offset; a transition that loses an action, changes target, verdict or byte class shows up as a missing and an extra row", func(c *Ctx) { fsmRefRule(c, "T8", "ParseHdrLine") }},
			{"T7", "the empty line that ends the block, from the extracted ParseHdrLine automaton in its initial state: lone LF -> (index+1, empty) with no callee and no look-ahead; CR LF -> (index+2, empty); CR other -> (index+1, empty); CR as last byte may ask for more; no other first byte yields empty", ruleT7},
			{"T4", "exact decision table of skipCRLF from byte sets at each return: CR LF advances 2, lone CR (next byte not LF) or lone LF advances 1, anything else does not advance", ruleT4},
		},
		Assumptions: []string{"classification table itself is C16"},
		NotDecided:  "that names and values have the stated extents, folding, empty values, ordering of stored headers (field values)",
	})
}
