package main

import (
	"go/ast"
	"go/token"
)

// stmtLists visits every statement list (block bodies, case clauses) in n.
func stmtLists(n ast.Node, f func(list []ast.Stmt)) {
	ast.Inspect(n, func(x ast.Node) bool {
		switch b := x.(type) {
		case *ast.BlockStmt:
			f(b.List)
		case *ast.CaseClause:
			f(b.Body)
		case *ast.CommClause:
			f(b.Body)
		}
		return true
	})
}

// isAssign reports whether s is `lhs = rhs` with the given rendered sides ("" = any).
func (p *Prog) isAssign(s ast.Stmt, lhs, rhs string) bool {
	as, ok := s.(*ast.AssignStmt)
	if !ok || len(as.Lhs) != 1 || len(as.Rhs) != 1 {
		return false
	}
	return (lhs == "" || p.src(as.Lhs[0]) == lhs) && (rhs == "" || p.src(as.Rhs[0]) == rhs)
}

// T1: classification is assigned on both colon paths.
func ruleT1(c *Ctx) {
	fd := c.Decls["ParseHdrLine"]
	if fd == nil {
		c.fail("T1", "ParseHdrLine", token.NoPos, "function not found")
		return
	}
	hname := fd.Type.Params.List[2].Names[0].Name
	bufname := fd.Type.Params.List[0].Names[0].Name
	n := 0
	stmtLists(fd.Body, func(list []ast.Stmt) {
		for i, s := range list {
			if !c.isAssign(s, hname+".state", "hBodyStart") {
				continue
			}
			n++
			typed, called := false, false
			for _, t := range list[i+1:] {
				// the call that consumes the classification
				isCall := false
				ast.Inspect(t, func(x ast.Node) bool {
					if call, ok := x.(*ast.CallExpr); ok {
						if id, ok := call.Fun.(*ast.Ident); ok && id.Name == "parseBody" {
							isCall = true
						}
					}
					return true
				})
				if isCall {
					called = true
					break
				}
				if as, ok := t.(*ast.AssignStmt); ok && len(as.Lhs) == 1 && c.src(as.Lhs[0]) == hname+".Type" {
					if call, ok := as.Rhs[0].(*ast.CallExpr); ok && c.calleeName(call) == "GetHdrType" &&
						len(call.Args) == 1 && c.src(call.Args[0]) == hname+".Name.Get("+bufname+")" {
						typed = true
					}
				}
			}
			key := "body-start-entry"
			c.check(typed && called, "T1", key+":"+itoa(n), s.Pos(),
				"entry into the body-start state sets "+hname+".Type = GetHdrType("+hname+".Name.Get("+bufname+")) before the value parser is chosen")
		}
	})
	// no other store to h.Type in the parser
	others := 0
	ast.Inspect(fd.Body, func(x ast.Node) bool {
		if as, ok := x.(*ast.AssignStmt); ok {
			for _, l := range as.Lhs {
				if c.src(l) == hname+".Type" {
					others++
				}
			}
		}
		return true
	})
	c.check(others == n, "T1", "type-stores", fd.Pos(), "h.Type is stored only at the classification sites")
	c.expectMin("T1", 3)
}

func itoa(n int) string {
	return string(rune('0'+n%10))
}
