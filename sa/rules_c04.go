package main

import (
	"fmt"
	"go/ast"
	"go/token"
	"sort"
	"strings"

	"golang.org/x/tools/go/ssa"
)

// frozen set of package-level variables confirmed read-only after init
var frozenGlobals = []string{"hdrNameLookup", "mthNameLookup", "hdr2SigId", "sigHdrsFlags", "hex2int8",
	"Method2Name", "hdrName2Type", "sigHdrs", "err2ErrorVal", "errHdrStr", "errURIStr", "hdrTStr", "sipVer", "sipVerSP"}

// I1: no function outside init writes memory reachable from a package-level variable.
func ruleI1(c *Ctx) {
	e := computeEffects(c.Prog)
	// inventory of globals
	globals := map[string]bool{}
	for name, m := range c.SSA.Members {
		if _, ok := m.(*ssa.Global); ok && !strings.HasPrefix(name, "init$") {
			globals[name] = true
		}
	}
	for _, g := range frozenGlobals {
		c.check(globals[g], "I1", "global:"+g, token.NoPos, "package-level table present in the inventory")
	}
	var keys []string
	for k := range c.SFuncs {
		keys = append(keys, k)
	}
	sort.Strings(keys)
	nfun := 0
	for _, k := range keys {
		f := c.SFuncs[k]
		if f.Blocks == nil {
			continue
		}
		d := e.derived(f, globalSeed)
		ws := e.writesOf(f, d, globalSeed)
		if isInitFn(f) {
			c.ok("I1", "fn:"+k, f.Pos(), fmt.Sprintf("init-time function: %d writes to package state (allowed)", len(ws)))
			continue
		}
		nfun++
		bad := 0
		for _, w := range ws {
			if strings.Contains(w.root, "G:Log") && strings.HasPrefix(w.what, "method call on interface value") {
				continue // named exception, reported once below
			}
			if w.root == "goroutine" {
				c.fail("I1", "fn:"+k+":go", w.pos, "goroutine started inside the library")
				bad++
				continue
			}
			bad++
			c.fail("I1", "fn:"+k+":write:"+w.root, w.pos, fmt.Sprintf("%s reaches package-level state %s outside init", w.what, w.root))
		}
		if bad == 0 {
			c.ok("I1", "fn:"+k, f.Pos(), "no write reaches package-level state")
		}
	}
	c.excepted("I1", "global:Log", token.NoPos, "Log is an exported logger handle; the library only calls methods on it (slog's own thread-safety applies)")
	// no unsafe / sync / goroutine machinery imported
	for _, f := range c.Pkg.Syntax {
		for _, im := range f.Imports {
			p := strings.Trim(im.Path.Value, `"`)
			if p == "unsafe" || p == "sync" || p == "sync/atomic" {
				c.fail("I1", "import:"+p, im.Pos(), "package imports "+p+": aliasing/shared-state argument no longer applies")
			}
		}
	}
	// exported functions handing out references into package tables (informational)
	for _, k := range keys {
		f := c.SFuncs[k]
		if e.retDeriv[f][-1] && ast.IsExported(f.Name()) {
			c.assumed("I1", "escape:"+k, f.Pos(), "returns a reference into a package table; callers are assumed not to write through it")
		}
	}
	c.expectMin("I1", 150)
}

var allowedPanics = map[string]string{
	"PField.Set":    "documented inverted-range assertion (its argument discipline is rule P2)",
	"PField.Extend": "documented inverted-range assertion (its argument discipline is rule P2)",
}

// P1: explicit panics reachable from exported entry points.
func ruleP1(c *Ctx) {
	var keys []string
	for k := range c.SFuncs {
		keys = append(keys, k)
	}
	sort.Strings(keys)
	n := 0
	for _, k := range keys {
		f := c.SFuncs[k]
		for _, b := range f.Blocks {
			for _, ins := range b.Instrs {
				pn, ok := ins.(*ssa.Panic)
				if !ok {
					continue
				}
				n++
				if isInitFn(f) {
					c.ok("P1", k+":panic", pn.Pos(), "init-time consistency assertion on constants")
					continue
				}
				if why, ok := allowedPanics[k]; ok {
					c.excepted("P1", k+":panic", pn.Pos(), why)
					continue
				}
				c.fail("P1", k+":panic", pn.Pos(), "explicit panic reachable from exported API: "+k)
			}
		}
	}
	c.expectMin("P1", 3)
}

func init() {
	register(&PropDef{
		ID: "C04",
		Rules: []Rule{
			{"I1", "isolation: no function outside init writes (store, map update, copy/append target, callee that writes through the argument, unknown external callee) memory reachable from a package-level variable; no goroutines, unsafe or sync", ruleI1},
			{"O1", "every returned offset of the offset-returning functions (f(buf, offs, ...) -> int, ...) is provably <= len(buf): linear guards, induction on the loop index, callee postconditions (greatest fixpoint), under the API precondition offs <= len(buf); 'offset + line-end length' returns are listed as assumed", ruleO1},
			{"O3", "no non-error return of an offset-returning function carries an offset before the one passed in (offs - result <= 0 proved with the same prover: induction on the scan index, callee postconditions, guards); error verdicts are exempt because their offset may point back at the offending text", ruleO3},
			{"PG", "termination skeleton: every loop of the package has an integer ranking variable (a phi at the loop head) that every way round the loop strictly increases — by a positive constant, by a proved guard, or by the offset of a callee that returns past its start offset on every return feasible on that back edge (verdict sets), where 'past' may come from the byte argument: the byte at the returned index cannot be the byte seen at the call; callee progress that is not provable is reported as assumed with callee and site; upper bounds are the loop conditions and rule O1", rulePG},
			{"G", "every index and slice expression outside init is discharged by a frozen proof rule: G2 index range (intervals, masks, enum guards) within a fixed array length; G3 dominated by a linear guard on the same SSA values (i < len(buf), i+1 < len(buf), N < len(arr) with no intervening write); the trusted accessor GetPField; named exceptions", ruleG},
			{"P2", "PField.Set/Extend argument discipline: every end argument is provably <= len(buf); start <= end is proved or the start is a saved past index (assumed by index monotonicity); every store to a saved-index state field (soffs, pstart, pend, vstart, vend, msg.offs, PField.Offs) stores 0 or a value provably <= len(buf) - the inductive invariant behind the saved-index axiom of G/O1", ruleP2},
			{"BV4", "fields are dereferenced against the buffer they index (shared with C11-BV): no value loaded from PSIPMsg.RawMsg is passed to a package function, so PField.Get never slices the shorter re-based view with Buf-relative offsets", func(c *Ctx) { ruleBV(c, "BV4") }},
			{"P1", "explicit panic calls outside init are confined to the two documented PField assertions", ruleP1},
		},
		Assumptions: []string{"offs >= 0 and resume-with-returned-offset API preconditions", "callers do not write through []byte names returned from package tables"},
		NotDecided:  "termination beyond the progress skeleton of rule PG; PField.Get on reported fields (containment is a value property, C05)",
	})
}
