package main

import (
	"fmt"
	"go/token"
	"sort"
	"strings"

	"golang.org/x/tools/go/ssa"
)

// Rule PG (C04, termination skeleton): every loop of the package has an integer ranking variable — a phi at the
// loop head that every back edge strictly increases. Strictness of one incoming value is established by
//   (a) its linear form: value - phi is a constant >= 1;
//   (b) the guard prover: phi - value + 1 <= 0 at the back edge;
//   (c) a callee argument: the value is the offset result of a callee K started at a position >= phi, and every
//       return of K that is feasible on this back edge (verdict set from E-ERR) either returns provably more than it
//       was given, or returns an index whose byte (exact byte set at that return) cannot be the byte the caller saw at
//       its start position (exact byte set at the call): "called on a byte it consumes";
// and otherwise reported as assumed (named callee, named site). A back edge on which no candidate variable can be
// shown to grow, and none is even a callee result, fails: an iteration that neither consumes input nor exits.
// Upper bounds (index < len, positions <= len(buf)) are the loop conditions and rule O1; this rule decides progress.

type loopInfo struct {
	head *ssa.BasicBlock
	body map[*ssa.BasicBlock]bool
	back []*ssa.BasicBlock // sources of back edges
}

func naturalLoops(fn *ssa.Function) []loopInfo {
	var out []loopInfo
	for _, h := range fn.Blocks {
		var back []*ssa.BasicBlock
		for _, p := range h.Preds {
			if h.Dominates(p) {
				back = append(back, p)
			}
		}
		if len(back) == 0 {
			continue
		}
		body := map[*ssa.BasicBlock]bool{h: true}
		work := append([]*ssa.BasicBlock{}, back...)
		for len(work) > 0 {
			b := work[len(work)-1]
			work = work[:len(work)-1]
			if body[b] {
				continue
			}
			body[b] = true
			work = append(work, b.Preds...)
		}
		out = append(out, loopInfo{h, body, back})
	}
	return out
}

type pgLeaf struct {
	v    ssa.Value
	from *ssa.BasicBlock // predecessor block the value flows in from
}

// leaves of a back-edge value: resolved through phis that live inside the loop (other than the head's).
func pgLeaves(l loopInfo, ph *ssa.Phi, v ssa.Value, from *ssa.BasicBlock, seen map[ssa.Value]bool, out *[]pgLeaf) {
	if seen[v] {
		return
	}
	seen[v] = true
	if p2, ok := v.(*ssa.Phi); ok && p2 != ph && l.body[p2.Block()] && p2.Block() != l.head {
		for i, e := range p2.Edges {
			pgLeaves(l, ph, e, p2.Block().Preds[i], seen, out)
		}
		return
	}
	*out = append(*out, pgLeaf{v, from})
}

// site byte set: exact set of buf[a] at block b of fn, if a load of that element dominates b.
func siteByteSet(fn *ssa.Function, bufv ssa.Value, a ssa.Value, b *ssa.BasicBlock) *ByteSet {
	env := newLinEnv(linOpts{})
	want := env.norm(a)
	for _, blk := range fn.Blocks {
		if !blk.Dominates(b) {
			continue
		}
		for _, ins := range blk.Instrs {
			ld, ok := ins.(*ssa.UnOp)
			if !ok || ld.Op != token.MUL {
				continue
			}
			ia, ok := ld.X.(*ssa.IndexAddr)
			if !ok || ia.X != bufv {
				continue
			}
			d := env.norm(ia.Index).add(want, -1)
			if !(d.isConst() && d.C == 0) {
				continue
			}
			re := newRangeEnv(fn)
			if s := re.byteSetOf(ld, b); s != nil {
				return s
			}
		}
	}
	return nil
}

// calleeStrict: every return of K feasible with verdicts vs gives an offset > K's start offset, given that the byte at
// the start offset lies in site (nil = unknown). Returns ok and a short justification / the blocking return.
func calleeStrict(c *Ctx, e *errAnalysis, k *ssa.Function, vs VSet, site *ByteSet, depth int) (bool, string) {
	if k == nil || k.Blocks == nil || depth > 4 {
		return false, "callee body not available"
	}
	bp := bufParam(k)
	var offsP *ssa.Parameter
	for i, p := range k.Params {
		if p == bp && i+1 < len(k.Params) {
			offsP = k.Params[i+1]
		}
	}
	if bp == nil || offsP == nil {
		return false, k.Name() + " has no (buf, offs) pair"
	}
	ei := errResultIndex(k)
	n := 0
	for _, b := range k.Blocks {
		ret, ok := b.Instrs[len(b.Instrs)-1].(*ssa.Return)
		if !ok {
			continue
		}
		if ei >= 0 && vs != 0 && e.at(ret.Results[ei], b)&vs == 0 {
			continue // verdict not feasible on this back edge
		}
		n++
		r := ret.Results[0]
		env := newLinEnv(linOpts{})
		d := env.norm(r).add(env.norm(offsP), -1)
		if d.isConst() && d.C >= 1 {
			continue
		}
		// x + c with x >= offs structurally
		if bo, ok := r.(*ssa.BinOp); ok && bo.Op == token.ADD {
			if kk, isC := constIntOf(bo.Y); isC && kk >= 1 && lbOffs(bo.X, k, offsP, map[ssa.Value]bool{}) {
				continue
			}
			if kk, isC := constIntOf(bo.X); isC && kk >= 1 && lbOffs(bo.Y, k, offsP, map[ssa.Value]bool{}) {
				continue
			}
		}
		// guard prover
		if pr := prove(c, k, ret, func(env *linEnv) Lin { return env.norm(offsP).add(env.norm(r), -1).add(linConst(1), 1) }); pr.ok {
			continue
		}
		// tail call / passed-on offset of an inner callee started at this callee's own start offset
		var inner *ssa.Call
		switch x := r.(type) {
		case *ssa.Extract:
			if x.Index == 0 {
				inner, _ = x.Tuple.(*ssa.Call)
			}
		case *ssa.Call:
			inner = x
		}
		if inner != nil {
			if k2 := inner.Call.StaticCallee(); k2 != nil && k2 != k {
				if b2 := bufParam(k2); b2 != nil {
					for i, p := range k2.Params {
						if p == b2 && i+1 < len(inner.Call.Args) && inner.Call.Args[i] == ssa.Value(bp) && inner.Call.Args[i+1] == ssa.Value(offsP) {
							vs2 := vs
							if ei2 := errResultIndex(k2); ei2 >= 0 && ei >= 0 {
								if ex, ok := ret.Results[ei].(*ssa.Extract); ok && ex.Tuple == ssa.Value(inner) {
									vs2 = e.at(ret.Results[ei], b) & vsOrAll(vs)
								}
							}
							if ok2, _ := calleeStrict(c, e, k2, vs2, site, depth+1); ok2 {
								inner = nil
							}
						}
					}
				}
			}
			if inner == nil {
				continue
			}
		}
		// byte argument: the byte at the returned index cannot be the byte the caller saw at the start
		if site != nil && lbOffs(r, k, offsP, map[ssa.Value]bool{}) {
			if rs := siteByteSet(k, bp, r, b); rs != nil {
				inter := rs.filter(func(i int) bool { return site.has(i) })
				if inter.empty() {
					continue
				}
			}
		}
		// the offset and the verdict are merged at one join (goto epilogue): judge each incoming edge on its own
		if okj := strictPerJoinEdge(k, ret, ei, vs, offsP, b); okj {
			continue
		}
		le := newLinEnv(linOpts{})
		return false, fmt.Sprintf("%s() may return its start offset unchanged at %s (returns %s)", k.Name(), posStr(k, ret.Pos()), le.pretty(le.norm(r)))
	}
	if n == 0 {
		return true, "no feasible return"
	}
	return true, k.Name() + "() returns past its start offset on every feasible return"
}

// strictPerJoinEdge: all phis feeding the returned offset and verdict live in one block M dominating the return;
// for every incoming edge of M whose verdict (a constant on that edge) is feasible, the offset is atom + c with
// c >= 1 and atom >= offs structurally, or a sum of constants >= 1 over offs itself.
func strictPerJoinEdge(k *ssa.Function, ret *ssa.Return, ei int, vs VSet, offsP *ssa.Parameter, rb *ssa.BasicBlock) bool {
	if ei < 0 {
		return false
	}
	var m *ssa.BasicBlock
	okShape := true
	var collect func(v ssa.Value, depth int)
	collect = func(v ssa.Value, depth int) {
		switch x := v.(type) {
		case *ssa.Phi:
			if m == nil {
				m = x.Block()
			} else if m != x.Block() {
				okShape = false
			}
		case *ssa.BinOp:
			if depth < 4 {
				collect(x.X, depth+1)
				collect(x.Y, depth+1)
			}
		}
	}
	collect(ret.Results[0], 0)
	collect(ret.Results[ei], 0)
	if m == nil || !okShape || !m.Dominates(rb) {
		return false
	}
	for j := range m.Preds {
		sub := func(v ssa.Value) ssa.Value {
			if ph, ok := v.(*ssa.Phi); ok && ph.Block() == m {
				return ph.Edges[j]
			}
			return v
		}
		vv := sub(ret.Results[ei])
		kk, isC := constIntOf(vv)
		if isC && kk >= 0 && kk < 64 && vs != 0 && vs&(1<<uint(kk)) == 0 {
			continue // this edge carries a verdict that does not continue the caller's loop
		}
		// offset on this edge: sum of substituted operands
		var atoms []ssa.Value
		cst := int64(0)
		var walk func(v ssa.Value, depth int) bool
		walk = func(v ssa.Value, depth int) bool {
			v = sub(v)
			if n, ok := constIntOf(v); ok {
				cst += n
				return true
			}
			if bo, ok := v.(*ssa.BinOp); ok && bo.Op == token.ADD && depth < 4 {
				return walk(bo.X, depth+1) && walk(bo.Y, depth+1)
			}
			atoms = append(atoms, v)
			return true
		}
		if !walk(ret.Results[0], 0) {
			return false
		}
		// after substitution an atom may itself be x + c
		var base ssa.Value
		extra := int64(0)
		okEdge := len(atoms) == 1
		if okEdge {
			base = atoms[0]
			if bo, ok := base.(*ssa.BinOp); ok && bo.Op == token.ADD {
				if n, isC := constIntOf(bo.Y); isC {
					base, extra = bo.X, n
				}
			}
			okEdge = cst+extra >= 1 && lbOffs(base, k, offsP, map[ssa.Value]bool{})
		}
		if !okEdge {
			return false
		}
	}
	return true
}

func vsOrAll(v VSet) VSet {
	if v == 0 {
		return ^VSet(0)
	}
	return v
}

func rulePG(c *Ctx) {
	e := newErrAnalysis(c.Prog)
	var names []string
	for k := range c.SFuncs {
		names = append(names, k)
	}
	sort.Strings(names)
	nloops, nproved, nassumed := 0, 0, 0
	for _, k := range names {
		fn := c.SFuncs[k]
		if fn.Name() == "init" || strings.HasPrefix(fn.Name(), "init#") {
			continue
		}
		loops := naturalLoops(fn)
		for li, l := range loops {
			nloops++
			key := fmt.Sprintf("%s:loop#%d", k, li+1)
			pos := token.NoPos
			for _, ins := range l.head.Instrs {
				if ins.Pos().IsValid() {
					pos = ins.Pos()
					break
				}
			}
			bestStatus, bestWhy := "", ""
			var blockers []string
			for _, ins := range l.head.Instrs {
				ph, ok := ins.(*ssa.Phi)
				if !ok {
					break
				}
				if !isIntType(ph.Type()) {
					continue
				}
				var leaves []pgLeaf
				for i, ed := range ph.Edges {
					if l.head.Dominates(l.head.Preds[i]) {
						pgLeaves(l, ph, ed, l.head.Preds[i], map[ssa.Value]bool{}, &leaves)
					}
				}
				if len(leaves) == 0 {
					continue
				}
				status := "ok"
				var assumed []string
				var stateMoves [][3]string
				why := ""
				// direction: decided by the first constant step found
				dir := 1
				for _, lf := range leaves {
					env := newLinEnv(linOpts{})
					d := env.norm(lf.v).add(env.norm(ph), -1)
					if d.isConst() && d.C < 0 {
						dir = -1
					}
				}
				// boundedness: a branch that leaves the loop tests the variable, or it is a buffer position
				// (bounded by len(buf): loop condition / rule O1)
				bounded := false
				for b := range l.body {
					iff, ok := b.Instrs[len(b.Instrs)-1].(*ssa.If)
					if !ok {
						continue
					}
					leaves2 := !l.body[b.Succs[0]] || !l.body[b.Succs[1]]
					if !leaves2 {
						continue
					}
					env := newLinEnv(linOpts{})
					for _, truth := range []bool{true, false} {
						for _, fa := range env.condFacts(iff.Cond, truth) {
							if fa.L.T[env.atomKey(ph)] != 0 {
								bounded = true
							}
						}
					}
				}
				if !bounded && dir > 0 {
					for _, inv := range loopInvariants(c, fn) {
						if inv.phi == ph && strings.Contains(inv.src, "<= len(") {
							bounded = true
						}
					}
				}
				if !bounded && dir > 0 {
					// every value flowing round is the offset result (plus a constant) of a callee whose offsets
					// are <= len(buf) (rule O1)
					all := len(leaves) > 0
					for _, lf := range leaves {
						x := lf.v
						if bo, ok := x.(*ssa.BinOp); ok && bo.Op == token.ADD {
							if _, isC := constIntOf(bo.Y); isC {
								x = bo.X
							}
						}
						var call *ssa.Call
						switch y := x.(type) {
						case *ssa.Extract:
							if y.Index == 0 {
								call, _ = y.Tuple.(*ssa.Call)
							}
						case *ssa.Call:
							call = y
						}
						if call == nil || call.Call.StaticCallee() == nil || !offsetPostHolds(c, call.Call.StaticCallee()) {
							all = false
						}
					}
					bounded = all
				}
				if !bounded {
					blockers = append(blockers, phName(ph)+": grows but no exit test or buffer bound limits it")
					continue
				}
				for _, lf := range leaves {
					if lf.v == ssa.Value(ph) {
						// no input consumed on this way round: acceptable only as a re-dispatch that moves the
						// automaton to another state (collected below; the state moves must not form a cycle)
						if from, to, fld, ok := stateMove(l, lf.from); ok {
							stateMoves = append(stateMoves, [3]string{fld, from, to})
							continue
						}
						status, why = "fail", "a back edge leaves "+phName(ph)+" unchanged and does not move the automaton to another state"
						break
					}
					env := newLinEnv(linOpts{})
					d := env.norm(lf.v).add(env.norm(ph), -1)
					if d.isConst() && d.C*int64(dir) >= 1 {
						continue
					}
					if d.isConst() {
						status, why = "fail", fmt.Sprintf("a back edge changes %s by %d", phName(ph), d.C)
						break
					}
					if dir < 0 {
						status, why = "fail", "the value "+srcName(lf.v)+" flowing round the loop is not shown to be below "+phName(ph)
						break
					}
					last := lf.from.Instrs[len(lf.from.Instrs)-1]
					v := lf.v
					if pr := prove(c, fn, last, func(env *linEnv) Lin { return env.norm(ph).add(env.norm(v), -1).add(linConst(1), 1) }); pr.ok {
						continue
					}
					// strip a constant step: v = x + k
					x, kstep := lf.v, int64(0)
					if bo, ok := x.(*ssa.BinOp); ok && bo.Op == token.ADD {
						if kk, isC := constIntOf(bo.Y); isC {
							x, kstep = bo.X, kk
						} else if kk, isC := constIntOf(bo.X); isC {
							x, kstep = bo.Y, kk
						}
					}
					if kstep >= 1 && lbBase(x, fn, ph, map[ssa.Value]bool{}) {
						continue
					}
					if kstep < 0 {
						status, why = "fail", "the value "+srcName(lf.v)+" flowing round the loop is not shown to exceed "+phName(ph)
						break
					}
					// offset result of a callee
					var call *ssa.Call
					switch y := x.(type) {
					case *ssa.Extract:
						if y.Index == 0 {
							call, _ = y.Tuple.(*ssa.Call)
						}
					case *ssa.Call:
						call = y
					}
					if call == nil {
						status, why = "fail", "the value "+srcName(lf.v)+" flowing round the loop is not shown to exceed "+phName(ph)
						break
					}
					cal := call.Call.StaticCallee()
					if cal == nil || cal.Pkg != fn.Pkg {
						status, why = "fail", "the value "+srcName(lf.v)+" flowing round the loop is not shown to exceed "+phName(ph)
						break
					}
					gb := bufParam(cal)
					var arg, bufArg ssa.Value
					for i, p := range cal.Params {
						if p == gb && i+1 < len(call.Call.Args) {
							bufArg, arg = call.Call.Args[i], call.Call.Args[i+1]
						}
					}
					if arg == nil {
						status, why = "fail", "the value "+srcName(lf.v)+" is a result of "+cal.Name()+"(), which has no start offset"
						break
					}
					if !lbBase(arg, fn, ph, map[ssa.Value]bool{}) {
						status, why = "fail", cal.Name()+"() is not started at or after "+phName(ph)
						break
					}
					// verdicts feasible on this edge
					var vs VSet
					if ei := errResultIndex(cal); ei >= 0 {
						for _, r := range *call.Referrers() {
							if ex, ok := r.(*ssa.Extract); ok && ex.Index == ei {
								vs = e.at(ex, lf.from)
							}
						}
					}
					site := siteByteSet(fn, bufArg, arg, call.Block())
					okc, whyc := calleeStrict(c, e, cal, vs, site, 0)
					if okc && lowerPost[ssaKey(cal)] {
						continue
					}
					if lowerPost[ssaKey(cal)] || !isOffsetFunc(c, cal) {
						if status == "ok" {
							status = "assumed"
						}
						assumed = append(assumed, cal.Name()+"() at "+posStr(fn, call.Pos())+" advances when it lets the loop continue (not proved: "+whyc+")")
						continue
					}
					status, why = "fail", cal.Name()+"() has no offset >= start postcondition (rule O3)"
					break
				}
				if status != "fail" && len(stateMoves) > 0 {
					if cyc := moveCycle(stateMoves); cyc != "" {
						status, why = "fail", "re-dispatches without consuming input can cycle: "+cyc
					}
				}
				if status == "fail" {
					blockers = append(blockers, phName(ph)+": "+why)
					continue
				}
				w := "ranking variable " + phName(ph) + ": every back edge increases it"
				if len(assumed) > 0 {
					sort.Strings(assumed)
					w += " — relies on: " + strings.Join(dedupe(assumed), "; ")
				}
				if bestStatus == "" || (bestStatus == "assumed" && status == "ok") {
					bestStatus, bestWhy = status, w
				}
			}
			switch bestStatus {
			case "ok":
				nproved++
				c.ok("PG", key, pos, bestWhy)
			case "assumed":
				nassumed++
				c.assumed("PG", key, pos, bestWhy)
			default:
				sort.Strings(blockers)
				c.fail("PG", key, pos, "no integer variable is shown to grow on every way round this loop: an iteration may neither consume input nor exit ["+strings.Join(blockers, " | ")+"]")
			}
		}
	}
	// no recursion: the static call graph of the package (interface calls resolved to every package method of that
	// name) is acyclic, so loops are the only source of repetition
	adj := map[*ssa.Function][]*ssa.Function{}
	for _, k := range names {
		fn := c.SFuncs[k]
		for _, b := range fn.Blocks {
			for _, ins := range b.Instrs {
				var cc *ssa.CallCommon
				switch x := ins.(type) {
				case *ssa.Call:
					cc = &x.Call
				case *ssa.Defer:
					cc = &x.Call
				case *ssa.Go:
					cc = &x.Call
				}
				if cc == nil {
					continue
				}
				if cal := cc.StaticCallee(); cal != nil {
					if cal.Pkg == fn.Pkg || cal.Parent() != nil {
						adj[fn] = append(adj[fn], cal)
					}
					continue
				}
				if cc.IsInvoke() {
					for _, k2 := range names {
						if g := c.SFuncs[k2]; g.Signature.Recv() != nil && g.Name() == cc.Method.Name() {
							adj[fn] = append(adj[fn], g)
						}
					}
				}
			}
		}
	}
	color := map[*ssa.Function]int{}
	cyc := ""
	var dfs func(f *ssa.Function) bool
	dfs = func(f *ssa.Function) bool {
		color[f] = 1
		for _, g := range adj[f] {
			if color[g] == 1 {
				cyc = ssaKey(f) + " -> " + ssaKey(g)
				return true
			}
			if color[g] == 0 && dfs(g) {
				return true
			}
		}
		color[f] = 2
		return false
	}
	for _, k := range names {
		if f := c.SFuncs[k]; color[f] == 0 && dfs(f) {
			break
		}
	}
	c.check(cyc == "", "PG", "no-recursion", token.NoPos, "the static call graph of the package is acyclic (interface calls resolved by method name): loops are the only repetition "+cyc)
	c.check(nloops >= 40, "PG", "loops", token.NoPos, fmt.Sprintf("%d loops analysed: %d with a proved ranking variable, %d relying on named callee progress (frozen minimum 40)", nloops, nproved, nassumed))
}

// stateMove: the way round the loop that ends in block p stores a constant K into a state field of a parameter
// object, under a dominating test that the field was K0 != K. Returns (K0, K, field).
func stateMove(l loopInfo, p *ssa.BasicBlock) (string, string, string, bool) {
	for b := p; b != nil && l.body[b]; b = b.Idom() {
		for i := len(b.Instrs) - 1; i >= 0; i-- {
			st, ok := b.Instrs[i].(*ssa.Store)
			if !ok {
				continue
			}
			fa, ok := st.Addr.(*ssa.FieldAddr)
			k, isC := constIntOf(st.Val)
			if !ok || !isC || !strings.HasPrefix(addrRoot(fa), "param:") {
				continue
			}
			cell := fieldCell(fa)
			// dominating equality test on the same cell
			for cur := b; cur != nil && l.body[cur]; cur = cur.Idom() {
				d := cur.Idom()
				if d == nil || len(cur.Preds) != 1 || cur.Preds[0] != d {
					continue
				}
				iff, ok := d.Instrs[len(d.Instrs)-1].(*ssa.If)
				if !ok {
					continue
				}
				bo, ok := iff.Cond.(*ssa.BinOp)
				if !ok || bo.Op != token.EQL || d.Succs[0] != cur {
					continue
				}
				ld, ok := bo.X.(*ssa.UnOp)
				k0, isC0 := constIntOf(bo.Y)
				if !ok || !isC0 || ld.Op != token.MUL {
					continue
				}
				if fa0, ok := ld.X.(*ssa.FieldAddr); ok && fieldCell(fa0) == cell && k0 != k {
					return itoa(int(k0)), itoa(int(k)), cell, true
				}
			}
		}
		if b == l.head {
			break
		}
	}
	return "", "", "", false
}

// moveCycle: a cycle in the state-move graph, rendered, or "".
func moveCycle(moves [][3]string) string {
	adj := map[string][]string{}
	for _, m := range moves {
		adj[m[0]+"/"+m[1]] = append(adj[m[0]+"/"+m[1]], m[0]+"/"+m[2])
	}
	color := map[string]int{}
	var cyc string
	var dfs func(n string) bool
	dfs = func(n string) bool {
		color[n] = 1
		for _, m := range adj[n] {
			if color[m] == 1 {
				cyc = n + " -> " + m
				return true
			}
			if color[m] == 0 && dfs(m) {
				return true
			}
		}
		color[n] = 2
		return false
	}
	var keys []string
	for k := range adj {
		keys = append(keys, k)
	}
	sort.Strings(keys)
	for _, k := range keys {
		if color[k] == 0 && dfs(k) {
			return cyc
		}
	}
	return ""
}

func phName(ph *ssa.Phi) string {
	if ph.Comment != "" {
		return phiName(ph)
	}
	return ph.Name()
}

func dedupe(s []string) []string {
	var out []string
	for i, x := range s {
		if i == 0 || x != s[i-1] {
			out = append(out, x)
		}
	}
	return out
}

func isOffsetFunc(c *Ctx, f *ssa.Function) bool {
	for _, g := range offsetFuncs(c) {
		if g == f {
			return true
		}
	}
	return false
}
