package main

import (
	"fmt"
	"go/ast"
	"go/token"
	"go/types"
	"os"
	"path/filepath"
	"strings"

	"golang.org/x/tools/go/ssa"
)

// The classification table stated in the property (long and compact names).
var wantHdrTable = map[string]string{
	"from": "HdrFrom", "f": "HdrFrom", "to": "HdrTo", "t": "HdrTo",
	"call-id": "HdrCallID", "i": "HdrCallID", "cseq": "HdrCSeq",
	"via": "HdrVia", "v": "HdrVia", "max-forwards": "HdrMaxFwd",
	"content-length": "HdrCLen", "l": "HdrCLen", "contact": "HdrContact", "m": "HdrContact",
	"expires": "HdrExpires", "user-agent": "HdrUA", "record-route": "HdrRecordRoute",
	"route": "HdrRoute", "p-asserted-identity": "HdrPAI",
}

// RFC method names of the method constants present on the reference tree.
var wantMethodNames = map[string]string{
	"MRegister": "REGISTER", "MInvite": "INVITE", "MAck": "ACK", "MBye": "BYE",
	"MPrack": "PRACK", "MCancel": "CANCEL", "MOptions": "OPTIONS", "MSubscribe": "SUBSCRIBE",
	"MNotify": "NOTIFY", "MUpdate": "UPDATE", "MInfo": "INFO", "MRefer": "REFER",
	"MPublish": "PUBLISH", "MMessage": "MESSAGE",
}

// hdrTableEntries extracts (name, type-constant) pairs from hdrName2Type.
func hdrTableEntries(c *Ctx, rule string) (map[string]string, []string) {
	init, _ := c.globalVarInit("hdrName2Type")
	cl, ok := init.(*ast.CompositeLit)
	if !ok {
		c.fail(rule, "hdrName2Type", token.NoPos, "table initialiser not found / not a composite literal")
		return nil, nil
	}
	got := map[string]string{}
	var order []string
	for _, el := range cl.Elts {
		ecl, ok := el.(*ast.CompositeLit)
		if !ok {
			c.fail(rule, "hdrName2Type:entry", el.Pos(), "unrecognised entry form: "+c.src(el))
			continue
		}
		var name, typ string
		var nok bool
		for i, f := range ecl.Elts {
			var key string
			val := f
			if kv, ok := f.(*ast.KeyValueExpr); ok {
				key = c.src(kv.Key)
				val = kv.Value
			} else if i == 0 {
				key = "n"
			} else {
				key = "t"
			}
			switch key {
			case "n":
				name, nok = c.byteSliceLit(val)
			case "t":
				typ = c.constName(val)
			}
		}
		if !nok || typ == "" {
			c.fail(rule, "hdrName2Type:entry", el.Pos(), "entry not (literal name, constant type): "+c.src(el))
			continue
		}
		if _, dup := got[name]; dup {
			c.fail(rule, "hdrName2Type:dup:"+name, el.Pos(), "duplicate table name")
		}
		got[name] = typ
		order = append(order, name)
	}
	return got, order
}

func ruleH1(c *Ctx) {
	got, _ := hdrTableEntries(c, "H1")
	for n, t := range wantHdrTable {
		g, ok := got[n]
		c.check(ok && g == t, "H1", "hdr:"+n, token.NoPos, fmt.Sprintf("table maps %q to %s (got %q)", n, t, g))
	}
	for n, t := range got {
		if _, ok := wantHdrTable[n]; !ok {
			c.fail("H1", "hdr-extra:"+n, token.NoPos, fmt.Sprintf("table has a name the property does not list: %q -> %s", n, t))
		}
		c.check(isLowerASCII(n) && n != "", "H1", "hdr-lower:"+n, token.NoPos, "table names are stored lower-case and non-empty")
	}
	// Method2Name
	init, _ := c.globalVarInit("Method2Name")
	cl, ok := init.(*ast.CompositeLit)
	if !ok {
		c.fail("H1", "Method2Name", token.NoPos, "initialiser not a composite literal")
		return
	}
	mund, _ := c.namedConstInt("MUndef")
	moth, ok2 := c.namedConstInt("MOther")
	if !ok2 {
		c.fail("H1", "MOther", token.NoPos, "constant MOther missing")
		return
	}
	byVal := map[int64]string{}
	names := map[string]int64{}
	for _, el := range cl.Elts {
		kv, ok := el.(*ast.KeyValueExpr)
		if !ok {
			c.fail("H1", "Method2Name:entry", el.Pos(), "non keyed entry")
			continue
		}
		k, ok1 := c.constInt(kv.Key)
		s, ok2 := c.byteSliceLit(kv.Value)
		if !ok1 || !ok2 {
			c.fail("H1", "Method2Name:entry", el.Pos(), "entry not (constant, literal)")
			continue
		}
		byVal[k] = s
		if k > mund && k < moth {
			if o, dup := names[s]; dup {
				c.fail("H1", "method-dup:"+s, el.Pos(), fmt.Sprintf("method name used for %d and %d", o, k))
			}
			names[s] = k
		}
		if cn := c.constName(kv.Key); cn != "" {
			if w, ok := wantMethodNames[cn]; ok {
				c.check(w == s, "H1", "method-name:"+cn, el.Pos(), fmt.Sprintf("%s is named %q (RFC name %q)", cn, s, w))
			}
		}
	}
	for v := mund + 1; v < moth; v++ {
		s, ok := byVal[v]
		c.check(ok && s != "" && isUpperASCII(s), "H1", fmt.Sprintf("method-entry:%d", v), cl.Pos(),
			fmt.Sprintf("method constant %d has a non-empty upper-case name (%q)", v, s))
	}
	for cn := range wantMethodNames {
		v, ok := c.namedConstInt(cn)
		c.check(ok && v > mund && v < moth, "H1", "method-const:"+cn, token.NoPos, "method constant lies strictly between MUndef and MOther")
	}
	// array length covers MOther
	if tv, ok := c.Info.Types[cl]; ok {
		if at, ok := tv.Type.Underlying().(*types.Array); ok {
			c.check(at.Len() == moth+1, "H1", "Method2Name:len", cl.Pos(), fmt.Sprintf("len(Method2Name)=%d == MOther+1=%d", at.Len(), moth+1))
		}
	}
	c.expectMin("H1", 19+19+14+14+14)
}

// hashInfo describes one of the two name-hash functions.
type hashInfo struct {
	fn, table, lookup, initKey, cmp, miss, srcTable string
}

var hashes = []hashInfo{
	{"hashHdrName", "hdrNameLookup", "GetHdrType", "init@parse_headers.go", "bytescase.CmpEq", "HdrOther", "hdrName2Type"},
	{"hashMthName", "mthNameLookup", "GetMethodNo", "init@parse_method.go", "bytes.Equal", "MOther", "Method2Name"},
}

// maxBitsOf returns a mask over-approximating the set bits of an int expr.
func maxBitsOf(c *Ctx, e ast.Expr) (uint64, bool) {
	e = unparen(e)
	if v, ok := c.constInt(e); ok && v >= 0 {
		return uint64(v), true
	}
	switch b := e.(type) {
	case *ast.BinaryExpr:
		switch b.Op {
		case token.AND:
			x, okx := maxBitsOf(c, b.X)
			y, oky := maxBitsOf(c, b.Y)
			switch {
			case okx && oky:
				return x & y, true
			case okx:
				return x, true
			case oky:
				return y, true
			}
		case token.OR, token.XOR:
			x, okx := maxBitsOf(c, b.X)
			y, oky := maxBitsOf(c, b.Y)
			if okx && oky {
				return x | y, true
			}
		case token.SHL:
			x, okx := maxBitsOf(c, b.X)
			k, okk := c.constInt(b.Y)
			if okx && okk && k >= 0 && k < 32 {
				return x << uint(k), true
			}
		}
	case *ast.CallExpr:
		// conversion int(x) of a byte expression: 0xff
		if tv, ok := c.Info.Types[b.Fun]; ok && tv.IsType() && len(b.Args) == 1 {
			if at, ok := c.Info.Types[b.Args[0]]; ok {
				if bits, uns := intBits(at.Type); uns && bits == 8 {
					return 0xff, true
				}
			}
			return maxBitsOf(c, b.Args[0])
		}
	}
	return 0, false
}

func ruleH2(c *Ctx) {
	for _, h := range hashes {
		fd := c.Decls[h.fn]
		if fd == nil {
			c.fail("H2", h.fn, token.NoPos, "hash function not found")
			continue
		}
		// (a) the hash reads only lower(n[0]) and len(n)
		param := c.Info.Defs[fd.Type.Params.List[0].Names[0]]
		bad := 0
		var stack []ast.Node
		ast.Inspect(fd.Body, func(n ast.Node) bool {
			if n == nil {
				stack = stack[:len(stack)-1]
				return true
			}
			stack = append(stack, n)
			id, ok := n.(*ast.Ident)
			if !ok || c.Info.Uses[id] != param {
				return true
			}
			par := stack[len(stack)-2]
			switch p := par.(type) {
			case *ast.CallExpr:
				if c.calleeName(p) == "builtin.len" {
					return true
				}
			case *ast.IndexExpr:
				if v, ok := c.constInt(p.Index); ok && v == 0 && len(stack) >= 3 {
					if call, ok := stack[len(stack)-3].(*ast.CallExpr); ok && c.calleeName(call) == "bytescase.ByteToLower" {
						return true
					}
				}
			}
			bad++
			c.fail("H2", h.fn+":reads", id.Pos(), "hash uses its argument other than as ByteToLower(n[0]) or len(n): "+c.src(par))
			return true
		})
		if bad == 0 {
			c.ok("H2", h.fn+":reads", fd.Pos(), "hash depends only on the case-folded first byte and the length")
		}
		// (b) result masked below the table length
		tobj := c.Types.Scope().Lookup(h.table)
		var tlen int64 = -1
		if tobj != nil {
			if at, ok := tobj.Type().Underlying().(*types.Array); ok {
				tlen = at.Len()
			}
		}
		nret := 0
		ast.Inspect(fd.Body, func(n ast.Node) bool {
			r, ok := n.(*ast.ReturnStmt)
			if !ok || len(r.Results) != 1 {
				return true
			}
			nret++
			m, ok := maxBitsOf(c, r.Results[0])
			c.check(ok && tlen > 0 && int64(m) < tlen, "H2", h.fn+":range", r.Pos(),
				fmt.Sprintf("hash result bits %#x stay below len(%s)=%d", m, h.table, tlen))
			return true
		})
		if nret == 0 {
			c.fail("H2", h.fn+":range", fd.Pos(), "no return found")
		}
		// (c) init inserts every source-table entry under hash(entry name); lookup searches table[hash(arg)]
		checkInsert(c, h)
		t := &Ctx{Prog: c.Prog, Prop: c.Prop}
		checkLookup(t, h)
		for _, o := range t.obls {
			if o.Rule == "H2" {
				c.obls = append(c.obls, o)
			}
		}
	}
	c.expectMin("H2", 10)
}

// resolveLocal follows `x := expr` single definitions inside fn body.
func resolveLocal(c *Ctx, body *ast.BlockStmt, e ast.Expr) ast.Expr {
	e = unparen(e)
	id, ok := e.(*ast.Ident)
	if !ok {
		return e
	}
	obj := c.objOf(id)
	if obj == nil {
		return e
	}
	var def ast.Expr
	n := 0
	ast.Inspect(body, func(nd ast.Node) bool {
		as, ok := nd.(*ast.AssignStmt)
		if !ok {
			return true
		}
		for i, l := range as.Lhs {
			if lid, ok := l.(*ast.Ident); ok && (c.Info.Defs[lid] == obj || c.Info.Uses[lid] == obj) {
				n++
				if len(as.Lhs) == len(as.Rhs) {
					def = as.Rhs[i]
				}
			}
		}
		return true
	})
	if n == 1 && def != nil {
		return unparen(def)
	}
	return e
}

func checkInsert(c *Ctx, h hashInfo) {
	fd := c.Decls[h.initKey]
	key := h.fn + ":insert"
	if fd == nil {
		c.fail("H2", key, token.NoPos, "init function filling "+h.table+" not found")
		return
	}
	found := false
	ast.Inspect(fd.Body, func(n ast.Node) bool {
		as, ok := n.(*ast.AssignStmt)
		if !ok || len(as.Lhs) != 1 || len(as.Rhs) != 1 {
			return true
		}
		ix, ok := as.Lhs[0].(*ast.IndexExpr)
		if !ok || selPath(ix.X) != h.table {
			return true
		}
		found = true
		call, ok := as.Rhs[0].(*ast.CallExpr)
		if !ok || c.calleeName(call) != "builtin.append" || len(call.Args) != 2 {
			c.fail("H2", key, as.Pos(), "table slot not assigned append(slot, entry)")
			return true
		}
		if c.src(call.Args[0]) != c.src(as.Lhs[0]) {
			c.fail("H2", key, as.Pos(), "append target differs from the assigned slot")
			return true
		}
		idx := resolveLocal(c, fd.Body, ix.Index)
		hc, ok := idx.(*ast.CallExpr)
		if !ok || c.calleeName(hc) != h.fn || len(hc.Args) != 1 {
			c.fail("H2", key, as.Pos(), "slot index is not "+h.fn+"(entry name): "+c.src(idx))
			return true
		}
		// the hashed name must be the name stored in the appended entry
		hashed := c.src(hc.Args[0])
		entry := unparen(call.Args[1])
		entryName := ""
		switch e := entry.(type) {
		case *ast.CompositeLit: // mth2Type{Method2Name[i], i}
			if len(e.Elts) >= 1 {
				v := e.Elts[0]
				if kv, ok := v.(*ast.KeyValueExpr); ok {
					v = kv.Value
				}
				entryName = c.src(v)
			}
		default: // h  -> h.n
			entryName = c.src(entry) + ".n"
		}
		c.check(hashed == entryName, "H2", key, as.Pos(), fmt.Sprintf("entry is filed under the hash of its own name (hashed %s, stored %s)", hashed, entryName))
		return true
	})
	if !found {
		c.fail("H2", key, fd.Pos(), "no assignment to "+h.table+"[...] in init")
	}
	// loop domain
	okLoop := false
	ast.Inspect(fd.Body, func(n ast.Node) bool {
		switch l := n.(type) {
		case *ast.RangeStmt:
			if selPath(l.X) == h.srcTable {
				okLoop = true
			}
		case *ast.ForStmt:
			// for i := MUndef + 1; i < MOther; i++
			if h.srcTable != "Method2Name" || l.Init == nil || l.Cond == nil || l.Post == nil {
				return true
			}
			as, ok1 := l.Init.(*ast.AssignStmt)
			be, ok2 := l.Cond.(*ast.BinaryExpr)
			inc, ok3 := l.Post.(*ast.IncDecStmt)
			if !ok1 || !ok2 || !ok3 || len(as.Rhs) != 1 {
				return true
			}
			lo, okl := c.constInt(as.Rhs[0])
			mund, _ := c.namedConstInt("MUndef")
			moth, _ := c.namedConstInt("MOther")
			hi, okh := c.constInt(be.Y)
			if okl && okh && lo == mund+1 && be.Op == token.LSS && hi == moth && inc.Tok == token.INC &&
				c.src(be.X) == c.src(as.Lhs[0]) && c.src(inc.X) == c.src(as.Lhs[0]) {
				okLoop = true
			}
		}
		return true
	})
	c.check(okLoop, "H2", h.fn+":insert-domain", fd.Pos(), "init loop ranges over exactly the entries of "+h.srcTable+" (methods: MUndef+1 .. MOther-1)")
}

func checkLookup(c *Ctx, h hashInfo) {
	fd := c.Decls[h.lookup]
	key := h.lookup + ":lookup"
	if fd == nil {
		c.fail("H2", key, token.NoPos, "lookup function not found")
		return
	}
	param := fd.Type.Params.List[0].Names[0].Name
	var rng *ast.RangeStmt
	ast.Inspect(fd.Body, func(n ast.Node) bool {
		if r, ok := n.(*ast.RangeStmt); ok && rng == nil {
			rng = r
		}
		return true
	})
	if rng == nil {
		c.fail("H2", key, fd.Pos(), "no bucket loop")
		return
	}
	ix, ok := unparen(rng.X).(*ast.IndexExpr)
	if !ok || selPath(ix.X) != h.table {
		c.fail("H2", key, rng.Pos(), "bucket loop does not range over "+h.table+"[...]")
		return
	}
	idx := resolveLocal(c, fd.Body, ix.Index)
	hc, ok := idx.(*ast.CallExpr)
	c.check(ok && c.calleeName(hc) == h.fn && len(hc.Args) == 1 && c.src(hc.Args[0]) == param, "H2", key, rng.Pos(),
		"lookup searches bucket "+h.fn+"(name) — the same hash function used at insert")
	// H3: comparator + hit/miss values
	elem := c.src(rng.Value)
	var cmpOK, retOK bool
	ast.Inspect(rng.Body, func(n ast.Node) bool {
		ifs, ok := n.(*ast.IfStmt)
		if !ok {
			return true
		}
		call, ok := unparen(ifs.Cond).(*ast.CallExpr)
		if !ok || len(call.Args) != 2 {
			return true
		}
		a0, a1 := c.src(call.Args[0]), c.src(call.Args[1])
		if c.calleeName(call) == h.cmp && ((a0 == param && a1 == elem+".n") || (a1 == param && a0 == elem+".n")) {
			cmpOK = true
		} else {
			c.fail("H3", h.lookup+":cmp", call.Pos(), fmt.Sprintf("bucket comparison is %s(%s,%s), want %s(%s,%s.n)", c.calleeName(call), a0, a1, h.cmp, param, elem))
		}
		for _, s := range ifs.Body.List {
			if r, ok := s.(*ast.ReturnStmt); ok && len(r.Results) == 1 && c.src(r.Results[0]) == elem+".t" {
				retOK = true
			}
		}
		return true
	})
	c.check(cmpOK, "H3", h.lookup+":cmp", rng.Pos(), "names compared with "+h.cmp+" over the whole name")
	c.check(retOK, "H3", h.lookup+":hit", rng.Pos(), "a hit returns the matching entry's own type")
	last := fd.Body.List[len(fd.Body.List)-1]
	r, ok := last.(*ast.ReturnStmt)
	c.check(ok && len(r.Results) == 1 && c.constName(r.Results[0]) == h.miss, "H3", h.lookup+":miss", last.Pos(), "a miss returns "+h.miss)
	// every return in the function is either hit or miss
	nret := 0
	ast.Inspect(fd.Body, func(n ast.Node) bool {
		if _, ok := n.(*ast.ReturnStmt); ok {
			nret++
		}
		return true
	})
	c.check(nret >= 2 && nret <= 3, "H3", h.lookup+":returns", fd.Pos(), fmt.Sprintf("%d returns: hit, miss (and optionally the empty-name miss)", nret))
	if nret == 3 {
		// the third return must be a miss under an emptiness test
		cnt := 0
		ast.Inspect(fd.Body, func(n ast.Node) bool {
			if r, ok := n.(*ast.ReturnStmt); ok && len(r.Results) == 1 && c.constName(r.Results[0]) == h.miss {
				cnt++
			}
			return true
		})
		c.check(cnt == 2, "H3", h.lookup+":empty-miss", fd.Pos(), "the extra return is also "+h.miss)
	}
}

func ruleH3(c *Ctx) {
	// comparator checks are emitted by checkLookup (run under H2 for shared extraction); here: dependency pin
	b, err := os.ReadFile(filepath.Join(c.Dir, "go.mod"))
	if err != nil {
		c.fail("H3", "go.mod", token.NoPos, err.Error())
		return
	}
	s := string(b)
	c.check(strings.Contains(s, "github.com/intuitivelabs/bytescase v1.0.2") && !strings.Contains(s, "replace"),
		"H3", "bytescase-pin", token.NoPos, "bytescase pinned at v1.0.2 without replace (trusted summaries CmpEq/Prefix/ByteToLower)")
	for _, h := range hashes {
		checkLookupOnly(c, h)
	}
}

func checkLookupOnly(c *Ctx, h hashInfo) {
	// recompute into a scratch ctx and copy H3 obligations
	t := &Ctx{Prog: c.Prog, Prop: c.Prop}
	checkLookup(t, h)
	for _, o := range t.obls {
		if o.Rule == "H3" {
			c.obls = append(c.obls, o)
		}
	}
}

// H4: the hash's n[0] read needs a non-empty name on every path from an exported entry.
func ruleH4(c *Ctx) {
	for _, h := range hashes {
		fn := c.SFuncs[h.fn]
		if fn == nil {
			c.fail("H4", h.fn, token.NoPos, "no SSA for hash function")
			continue
		}
		if nonEmptyGuarded(fn, fn.Params[0]) {
			c.ok("H4", h.fn+":guard", fn.Pos(), "hash guards the first-byte read itself")
			continue
		}
		// otherwise each non-init caller must establish len(arg) >= 1 before the call
		for _, caller := range c.SFuncs {
			for _, b := range caller.Blocks {
				for _, ins := range b.Instrs {
					call, ok := ins.(*ssa.Call)
					if !ok || call.Call.StaticCallee() != fn {
						continue
					}
					ck := ssaKey(caller)
					if strings.HasPrefix(ck, "init@") {
						c.ok("H4", h.fn+":call:"+ck, call.Pos(), "init call on table literals (non-empty by H1)")
						continue
					}
					env := newLinEnv(linOpts{})
					goal := linConst(1).add(Lin{T: map[string]int64{"len(" + env.sliceKey(call.Call.Args[0]) + ")": 1}}, -1) // 1 - len <= 0
					okk, why := entails(env.factsAt(b), goal)
					c.check(okk, "H4", h.fn+":call:"+ck, call.Pos(),
						fmt.Sprintf("call %s(name) is dominated by a test establishing len(name) >= 1 [%s]; an empty name would index name[0] out of range", h.fn, why))
				}
			}
		}
	}
	c.expectMin("H4", 4)
}

// nonEmptyGuarded: every Index/IndexAddr with constant index 0 on param is dominated by len(param) >= 1.
func nonEmptyGuarded(fn *ssa.Function, p *ssa.Parameter) bool {
	env := newLinEnv(linOpts{})
	found := false
	for _, b := range fn.Blocks {
		for _, ins := range b.Instrs {
			ia, ok := ins.(*ssa.IndexAddr)
			if !ok || ia.X != ssa.Value(p) {
				continue
			}
			found = true
			goal := env.norm(ia.Index).add(linConst(1), 1).add(Lin{T: map[string]int64{"len(param:" + p.Name() + ")": 1}}, -1)
			if ok, _ := entails(env.factsAt(b), goal); !ok {
				return false
			}
		}
	}
	return found
}

// H5: SIPMethod.Name indexes Method2Name under the m > MOther guard.
func ruleH5(c *Ctx) {
	fn := c.SFuncs["SIPMethod.Name"]
	if fn == nil {
		c.fail("H5", "SIPMethod.Name", token.NoPos, "not found")
		return
	}
	moth, _ := c.namedConstInt("MOther")
	env := newLinEnv(linOpts{})
	n := 0
	for _, b := range fn.Blocks {
		for _, ins := range b.Instrs {
			ia, ok := ins.(*ssa.IndexAddr)
			if !ok {
				continue
			}
			if _, isConst := constIntOf(ia.Index); isConst {
				c.ok("H5", "Name:const-index", ia.Pos(), "constant index")
				continue
			}
			n++
			goal := env.norm(ia.Index).add(linConst(moth), -1) // idx - MOther <= 0
			okk, why := entails(env.factsAt(b), goal)
			c.check(okk, "H5", "Name:index", ia.Pos(), "Method2Name[m] dominated by m <= MOther ["+why+"]")
		}
	}
	if n == 0 {
		c.fail("H5", "Name:index", fn.Pos(), "no variable index into Method2Name found")
	}
}

func init() {
	register(&PropDef{
		ID: "C16",
		Rules: []Rule{
			{"H1", "hdrName2Type holds exactly the 19 (name,type) pairs of the property, lower-case, no duplicates; Method2Name has a unique non-empty upper-case RFC name for every constant strictly between MUndef and MOther", ruleH1},
			{"H2", "insert and lookup use the same hash function; the hash reads only the case-folded first byte and the length and is masked below the bucket-array length; every table entry is filed under the hash of its own name", ruleH2},
			{"H3", "lookup compares whole names with bytescase.CmpEq (headers) / bytes.Equal (methods), a hit returns the entry's type, a miss HdrOther/MOther; bytescase pinned", ruleH3},
			{"H4", "totality: the first-byte read of the hash is guarded by a non-emptiness test in the hash itself or at every non-init call site", ruleH4},
			{"H4b", "totality: every index / slice expression inside the lookup functions (GetHdrType, GetMethodNo, the two hash functions, SIPMethod.Name) is discharged by the index-guard proof rules of C04-G", func(c *Ctx) {
				ruleGFor(c, "H4b", map[string]bool{"GetHdrType": true, "GetMethodNo": true, "hashHdrName": true, "hashMthName": true, "SIPMethod.Name": true, "SIPMethod.String": true})
			}},
			{"H5", "method number to name: Method2Name indexed only under the m <= MOther guard (round trip is the identity given H1 uniqueness)", ruleH5},
			{"T1", "the header parser assigns exactly this classification: every entry into the body-start state stores h.Type = GetHdrType(h.Name.Get(buf))", ruleT1},
		},
		Assumptions: []string{
			"bytescase.CmpEq is exact ASCII case-insensitive equality, bytescase.ByteToLower folds only A-Z, bytes.Equal is exact equality (dependency pinned at v1.0.2, checked)",
			"enum values are the declared constants",
		},
		NotDecided: "nothing about run-time values beyond the table/hash/comparator argument; T1 covers the parser's use of the classification, not the extent of the name it classifies (C07)",
	})
}
