package main

import (
	"go/token"
	"go/types"
	"sort"
	"strings"

	"golang.org/x/tools/go/ssa"
)

// E-EFFECT: which functions write memory reachable from a package-level variable.

func isRefType(t types.Type) bool {
	switch t.Underlying().(type) {
	case *types.Pointer, *types.Slice, *types.Map, *types.Interface, *types.Chan, *types.Signature:
		return true
	}
	return false
}

// external callees known not to write through their arguments
var readOnlyExternal = map[string]bool{
	"bytes.Equal": true, "bytes.IndexByte": true,
	"github.com/intuitivelabs/bytescase.CmpEq": true, "github.com/intuitivelabs/bytescase.Prefix": true,
	"github.com/intuitivelabs/bytescase.ByteToLower": true,
	"fmt.Sprintf": true,
}

type effWrite struct {
	fn   *ssa.Function
	pos  token.Pos
	what string
	root string
}

type effects struct {
	p        *Prog
	mayWrite map[*ssa.Function]map[int]bool // param index -> may write through it
	retDeriv map[*ssa.Function]map[int]bool // returns a reference derived from param i (-1: from a global)
	keepsArg map[*ssa.Function]map[int]bool // stores a reference derived from param i into memory that outlives the call
}

// derived computes, inside fn, the set of values derived (by address arithmetic,
// loads of references, phis, calls) from the seed values.
func (e *effects) derived(fn *ssa.Function, seed func(v ssa.Value) string) map[ssa.Value]string {
	d := map[ssa.Value]string{}
	get := func(v ssa.Value) string {
		if r, ok := d[v]; ok {
			return r
		}
		return seed(v)
	}
	changed := true
	for changed {
		changed = false
		set := func(v ssa.Value, r string) {
			if r != "" && d[v] == "" {
				d[v] = r
				changed = true
			}
		}
		for _, b := range fn.Blocks {
			for _, ins := range b.Instrs {
				v, ok := ins.(ssa.Value)
				if !ok {
					continue
				}
				switch x := ins.(type) {
				case *ssa.FieldAddr:
					set(v, get(x.X))
				case *ssa.IndexAddr:
					set(v, get(x.X))
				case *ssa.Slice:
					set(v, get(x.X))
				case *ssa.ChangeType:
					set(v, get(x.X))
				case *ssa.Convert:
					if isRefType(x.Type()) {
						set(v, get(x.X))
					}
				case *ssa.MakeInterface:
					if isRefType(x.X.Type()) {
						set(v, get(x.X))
					}
				case *ssa.Field:
					if isRefType(x.Type()) || isAggregate(x.Type()) {
						set(v, get(x.X))
					}
				case *ssa.Index:
					if isRefType(x.Type()) || isAggregate(x.Type()) {
						set(v, get(x.X))
					}
				case *ssa.Lookup:
					if isRefType(x.Type()) {
						set(v, get(x.X))
					}
				case *ssa.UnOp:
					if x.Op == token.MUL && (isRefType(x.Type()) || isAggregate(x.Type())) {
						set(v, get(x.X))
					}
				case *ssa.Phi:
					for _, ed := range x.Edges {
						set(v, get(ed))
					}
				case *ssa.Range:
					set(v, get(x.X))
				case *ssa.Next:
					set(v, get(x.Iter))
				case *ssa.Extract:
					if isRefType(x.Type()) || isAggregate(x.Type()) {
						set(v, get(x.Tuple))
					}
				case *ssa.TypeAssert:
					set(v, get(x.X))
				case *ssa.Call:
					if callee := x.Call.StaticCallee(); callee != nil && e.retDeriv[callee] != nil {
						for i := range e.retDeriv[callee] {
							if i == -1 {
								set(v, "G:(via "+callee.Name()+")")
							} else if i < len(x.Call.Args) {
								set(v, get(x.Call.Args[i]))
							}
						}
					}
					if b, ok := x.Call.Value.(*ssa.Builtin); ok && b.Name() == "append" {
						set(v, get(x.Call.Args[0]))
					}
				}
			}
		}
	}
	return d
}

func isAggregate(t types.Type) bool {
	switch u := t.Underlying().(type) {
	case *types.Struct:
		for i := 0; i < u.NumFields(); i++ {
			if isRefType(u.Field(i).Type()) || isAggregate(u.Field(i).Type()) {
				return true
			}
		}
	case *types.Array:
		return isRefType(u.Elem()) || isAggregate(u.Elem())
	case *types.Tuple:
		for i := 0; i < u.Len(); i++ {
			if isRefType(u.At(i).Type()) || isAggregate(u.At(i).Type()) {
				return true
			}
		}
	}
	return false
}

func extName(f *ssa.Function) string {
	if f.Pkg != nil {
		if recv := f.Signature.Recv(); recv != nil {
			return f.Pkg.Pkg.Path() + "." + recv.Type().String() + "." + f.Name()
		}
		return f.Pkg.Pkg.Path() + "." + f.Name()
	}
	return f.String()
}

// writesOf lists the writes in fn through values for which get() is non-empty.
func (e *effects) writesOf(fn *ssa.Function, d map[ssa.Value]string, seed func(ssa.Value) string) []effWrite {
	get := func(v ssa.Value) string {
		if r, ok := d[v]; ok {
			return r
		}
		return seed(v)
	}
	var out []effWrite
	for _, b := range fn.Blocks {
		for _, ins := range b.Instrs {
			switch x := ins.(type) {
			case *ssa.Store:
				if r := get(x.Addr); r != "" {
					out = append(out, effWrite{fn, x.Pos(), "store", r})
				} else if r := get(x.Val); r != "" && strings.HasPrefix(r, "G:") && (isRefType(x.Val.Type()) || isAggregate(x.Val.Type())) && !strings.HasPrefix(addrRoot(x.Addr), "alloc:") {
					// a reference into package-level storage is planted in an object that outlives the call
					out = append(out, effWrite{fn, x.Pos(), "publishes a reference to", r})
				}
			case *ssa.MapUpdate:
				if r := get(x.Map); r != "" {
					out = append(out, effWrite{fn, x.Pos(), "map update", r})
				}
			case *ssa.Go:
				out = append(out, effWrite{fn, x.Pos(), "go statement", "goroutine"})
			case ssa.CallInstruction:
				com := x.Common()
				if b, ok := com.Value.(*ssa.Builtin); ok {
					switch b.Name() {
					case "copy", "append", "clear", "delete":
						if r := get(com.Args[0]); r != "" {
							out = append(out, effWrite{fn, x.Pos(), b.Name() + " into", r})
						}
					}
					continue
				}
				callee := com.StaticCallee()
				args := com.Args
				if callee == nil {
					// dynamic call: interface method or func value
					for _, a := range args {
						if r := get(a); r != "" && isRefType(a.Type()) {
							out = append(out, effWrite{fn, x.Pos(), "dynamic call with reference argument", r})
						}
					}
					if com.IsInvoke() {
						if r := get(com.Value); r != "" {
							out = append(out, effWrite{fn, x.Pos(), "method call on interface value " + com.Method.Name(), r})
						}
					}
					continue
				}
				if callee.Pkg == e.p.SSA || (callee.Parent() != nil && callee.Parent().Pkg == e.p.SSA) {
					for i, a := range args {
						if r := get(a); r != "" && e.mayWrite[callee][i] {
							out = append(out, effWrite{fn, x.Pos(), "call " + ssaKey(callee) + " (writes through arg " + itoa(i) + ")", r})
						}
						if r := get(a); r != "" && strings.HasPrefix(r, "G:") && e.keepsArg[callee][i] {
							out = append(out, effWrite{fn, x.Pos(), "call " + ssaKey(callee) + " keeps (stores in an object) a reference to", r})
						}
					}
					continue
				}
				// external
				for _, a := range args {
					if r := get(a); r != "" && (isRefType(a.Type()) || isAggregate(a.Type())) && !readOnlyExternal[extName(callee)] {
						out = append(out, effWrite{fn, x.Pos(), "external call " + extName(callee) + " with reference argument", r})
					}
				}
			}
		}
	}
	return out
}

func computeEffects(p *Prog) *effects {
	e := &effects{p: p, mayWrite: map[*ssa.Function]map[int]bool{}, retDeriv: map[*ssa.Function]map[int]bool{}, keepsArg: map[*ssa.Function]map[int]bool{}}
	var fns []*ssa.Function
	for _, f := range p.SFuncs {
		fns = append(fns, f)
		e.mayWrite[f] = map[int]bool{}
		e.retDeriv[f] = map[int]bool{}
		e.keepsArg[f] = map[int]bool{}
	}
	sort.Slice(fns, func(i, j int) bool { return ssaKey(fns[i]) < ssaKey(fns[j]) })
	changed := true
	for changed {
		changed = false
		for _, f := range fns {
			for i, prm := range f.Params {
				if !isRefType(prm.Type()) {
					continue
				}
				pv := prm
				seed := func(v ssa.Value) string {
					if v == ssa.Value(pv) {
						return "param:" + pv.Name()
					}
					return ""
				}
				d := e.derived(f, seed)
				if !e.mayWrite[f][i] && len(e.writesOf(f, d, seed)) > 0 {
					e.mayWrite[f][i] = true
					changed = true
				}
				if !e.retDeriv[f][i] && returnsDerived(f, d, seed) {
					e.retDeriv[f][i] = true
					changed = true
				}
				if !e.keepsArg[f][i] && keepsDerived(e, f, d, seed) {
					e.keepsArg[f][i] = true
					changed = true
				}
			}
			gseed := globalSeed
			d := e.derived(f, gseed)
			if !e.retDeriv[f][-1] && returnsDerived(f, d, gseed) {
				e.retDeriv[f][-1] = true
				changed = true
			}
		}
	}
	return e
}

func globalSeed(v ssa.Value) string {
	if g, ok := v.(*ssa.Global); ok {
		return "G:" + g.Name()
	}
	return ""
}

func returnsDerived(f *ssa.Function, d map[ssa.Value]string, seed func(ssa.Value) string) bool {
	for _, b := range f.Blocks {
		for _, ins := range b.Instrs {
			if r, ok := ins.(*ssa.Return); ok {
				for _, v := range r.Results {
					if !isRefType(v.Type()) && !isAggregate(v.Type()) {
						continue
					}
					if d[v] != "" || seed(v) != "" {
						return true
					}
				}
			}
		}
	}
	return false
}

func isInitFn(f *ssa.Function) bool {
	k := ssaKey(f)
	return strings.HasPrefix(k, "init@") || k == "init"
}

// keepsDerived: fn stores a reference derived from the seeded parameter into memory that is not a local
// variable (another parameter's object, a global), or hands it to a callee that does.
func keepsDerived(e *effects, f *ssa.Function, d map[ssa.Value]string, seed func(ssa.Value) string) bool {
	get := func(v ssa.Value) string {
		if r, ok := d[v]; ok {
			return r
		}
		return seed(v)
	}
	for _, b := range f.Blocks {
		for _, ins := range b.Instrs {
			switch x := ins.(type) {
			case *ssa.Store:
				if get(x.Val) != "" && (isRefType(x.Val.Type()) || isAggregate(x.Val.Type())) && get(x.Addr) == "" && !strings.HasPrefix(addrRoot(x.Addr), "alloc:") {
					return true
				}
			case ssa.CallInstruction:
				if cal := x.Common().StaticCallee(); cal != nil && e.keepsArg[cal] != nil {
					for i, a := range x.Common().Args {
						if get(a) != "" && e.keepsArg[cal][i] {
							return true
						}
					}
				}
			}
		}
	}
	return false
}
