package main

import (
	"fmt"
	"go/token"
	"regexp"
	"sort"
	"strings"

	"golang.org/x/tools/go/ssa"
)

func isVarPhi(v ssa.Value, name string, depth int) bool {
	ph, ok := v.(*ssa.Phi)
	if !ok || depth > 4 {
		return false
	}
	return phiName(ph) == name
}

// R1: nothing live is lost at a suspension.
func ruleR1(c *Ctx) {
	e := newErrAnalysis(c.Prog)
	mb, _ := c.namedConstInt("ErrHdrMoreBytes")
	nloops, ncarried := 0, 0
	for _, f := range streamingFuncs(c, e) {
		head, _ := mainLoop(f)
		if head == nil {
			continue
		}
		nloops++
		fk := ssaKey(f)
		ei := errResultIndex(f)
		bp := bufParam(f)
		var idx *ssa.Phi
		var others []*ssa.Phi
		for _, ins := range head.Instrs {
			ph, ok := ins.(*ssa.Phi)
			if !ok {
				break
			}
			carried := false
			for i, ed := range ph.Edges {
				if head.Dominates(head.Preds[i]) && ed != ssa.Value(ph) {
					carried = true
				}
			}
			if !carried {
				continue
			}
			// the scan index: compared with len(buf) in the loop condition
			isIdx := false
			if iff, ok := head.Instrs[len(head.Instrs)-1].(*ssa.If); ok {
				if bo, ok := iff.Cond.(*ssa.BinOp); ok && (bo.X == ssa.Value(ph) || bo.Y == ssa.Value(ph)) {
					isIdx = true
				}
			}
			if isIdx {
				idx = ph
			} else {
				others = append(others, ph)
			}
		}
		if idx == nil {
			c.fail("R1", fk+":index", head.Instrs[0].Pos(), "scan index of the main loop not identified")
			continue
		}
		// (a) the index is re-read from the offs parameter at entry and is what every more-bytes exit returns
		entryOK := false
		for i, ed := range idx.Edges {
			if !head.Dominates(head.Preds[i]) {
				for j, p := range f.Params {
					if p == bp && j+1 < len(f.Params) && ed == ssa.Value(f.Params[j+1]) {
						entryOK = true
					}
				}
			}
		}
		c.check(entryOK, "R1", fk+":index-from-offs", idx.Pos(), "the scan index "+phiName(idx)+" starts from the offs parameter (the continuation offset of the previous call)")
		nret := 0
		for _, ri := range e.returnsOf(f) {
			if !ri.set.has(mb) || ei < 0 {
				continue
			}
			nret++
			rv := ri.ret.Results[0]
			okv := rv == ssa.Value(idx) || isVarPhi(rv, phiName(idx), 0)
			// or: the continuation offset of the very callee whose verdict is being passed on
			if ex, ok := rv.(*ssa.Extract); ok && ex.Index == 0 {
				if ev, ok := ri.ret.Results[ei].(*ssa.Extract); ok && ev.Tuple == ex.Tuple {
					okv = true
				}
			}
			if call, ok := rv.(*ssa.Call); ok && call.Call.StaticCallee() != nil {
				okv = true // return f(buf, offs): tail call of a streaming callee
			}
			c.check(okv, "R1", fmt.Sprintf("%s:more-bytes-returns-index#%d", fk, nret), ri.ret.Pos(), "a return that may carry more-bytes returns the current value of the scan index variable, or the continuation offset of the callee whose verdict it passes on")
		}
		// (b) every other carried local is saved in the state object, or never read across iterations
		for _, ph := range others {
			ncarried++
			key := fk + ":" + phiName(ph)
			// entry value = load of a state field?
			var fld *ssa.FieldAddr
			for i, ed := range ph.Edges {
				if head.Dominates(head.Preds[i]) {
					continue
				}
				if u, ok := ed.(*ssa.UnOp); ok && u.Op == token.MUL {
					if fa, ok := u.X.(*ssa.FieldAddr); ok && strings.HasPrefix(addrRoot(fa), "param:") {
						fld = fa
					}
				}
			}
			if fld != nil {
				cell := fieldCell(fld)
				c.ok("R1", key+":restore", ph.Pos(), "carried local "+phiName(ph)+" is re-loaded from "+cell+" at entry")
				n := 0
				for _, ri := range e.returnsOf(f) {
					if !ri.set.has(mb) {
						continue
					}
					n++
					saved := false
					for _, ins := range ri.ret.Block().Instrs {
						if st, ok := ins.(*ssa.Store); ok {
							if fa, ok := st.Addr.(*ssa.FieldAddr); ok && fieldCell(fa) == cell && (st.Val == ssa.Value(ph) || isVarPhi(st.Val, phiName(ph), 0)) {
								saved = true
							}
						}
					}
					c.check(saved, "R1", fmt.Sprintf("%s:save#%d", key, n), ri.ret.Pos(), "every return that may carry more-bytes first saves "+phiName(ph)+" into "+cell)
				}
				continue
			}
			// not saved: it must never be read across iterations on a feasible path
			r := fsmOf(c, fk)
			if r == nil || r.head == nil || r.capped {
				c.fail("R1", key+":unsaved", ph.Pos(), "local "+phiName(ph)+" is modified inside the loop, live across iterations and not saved in the parser state: its value is lost when the parse is suspended")
				continue
			}
			re := regexp.MustCompile(`(^|[^A-Za-z0-9_.])` + regexp.QuoteMeta(phiName(ph)) + `($|[^A-Za-z0-9_(])`)
			var reads []string
			for _, t := range append(r.grouped(r.trans), r.grouped(r.post)...) {
				var texts []string
				texts = append(texts, t.RetOffs)
				texts = append(texts, t.Calls...)
				texts = append(texts, t.Conds...)
				texts = append(texts, t.Stores...)
				for k, v := range t.Locals {
					if k != phiName(ph) {
						texts = append(texts, v)
					}
				}
				for _, s := range texts {
					if re.MatchString(s) {
						reads = append(reads, r.name(t.From)+": "+s)
					}
				}
			}
			sort.Strings(reads)
			if len(reads) > 3 {
				reads = reads[:3]
			}
			c.check(len(reads) == 0, "R1", key+":unsaved", ph.Pos(), fmt.Sprintf("local %s is carried across iterations without being saved in the parser state; no feasible path reads the carried value (verdict-infeasible branches pruned) %v", phiName(ph), reads))
		}
	}
	c.check(nloops >= 10, "R1", "loops", token.NoPos, fmt.Sprintf("%d resumable loops analysed, %d carried locals besides the index", nloops, ncarried))
}

// R1b: outside the scanning loop (value loops, header loops), a local that is carried round a loop must not be
// call history: it starts from the offs parameter (continuation offset), or from the state object, or its
// carried value is never observed (no branch, store, call argument, index or return depends on it).
func ruleR1b(c *Ctx) {
	e := newErrAnalysis(c.Prog)
	nheads, nphis := 0, 0
	for _, f := range streamingFuncs(c, e) {
		mh, _ := mainLoop(f)
		fk := ssaKey(f)
		bp := bufParam(f)
		var offsP *ssa.Parameter
		for j, p := range f.Params {
			if p == bp && j+1 < len(f.Params) {
				offsP = f.Params[j+1]
			}
		}
		for _, head := range f.Blocks {
			if head == mh {
				continue
			}
			isHead := false
			for _, p := range head.Preds {
				if head.Dominates(p) {
					isHead = true
				}
			}
			if !isHead {
				continue
			}
			nheads++
			cnt := map[string]int{}
			for _, ins := range head.Instrs {
				ph, ok := ins.(*ssa.Phi)
				if !ok {
					break
				}
				carried := false
				for i, ed := range ph.Edges {
					if head.Dominates(head.Preds[i]) && ed != ssa.Value(ph) {
						carried = true
					}
				}
				if !carried {
					continue
				}
				nphis++
				name := phiName(ph)
				if name == "" {
					name = "tmp"
				}
				cnt[name]++
				key := fk + ":" + name
				if cnt[name] > 1 {
					key += "#" + itoa(cnt[name])
				}
				// entry values
				fromOffs, fromState := true, true
				for i, ed := range ph.Edges {
					if head.Dominates(head.Preds[i]) {
						continue
					}
					if !derivedFromParam(ed, offsP, 0) {
						fromOffs = false
					}
					u, isLoad := ed.(*ssa.UnOp)
					if !(isLoad && u.Op == token.MUL && strings.HasPrefix(addrRoot(u.X), "param:")) {
						fromState = false
					}
				}
				switch {
				case fromOffs:
					c.ok("R1b", key, ph.Pos(), "carried local "+name+" starts from the offs parameter: the continuation offset the caller passes back")
				case fromState:
					c.ok("R1b", key, ph.Pos(), "carried local "+name+" is re-loaded from the state object at entry")
				default:
					sink := observedUse(ph)
					if sink == "" && perCallResult {
						c.excepted("R1b", key, ph.Pos(), "carried local "+name+" counts work done in this call and is only handed back in a result of its own (neither offset nor verdict): a documented per-call count, no state, branch or offset depends on it")
						continue
					}
					c.check(sink == "", "R1b", key, ph.Pos(), "carried local "+name+" starts afresh on every call (not from offs, not from the state object), so its value counts work done in this call only; nothing observable may depend on it"+sink)
				}
			}
		}
	}
	c.check(nheads >= 4, "R1b", "loops", token.NoPos, fmt.Sprintf("%d non-scanning loops in resumable functions analysed, %d carried locals", nheads, nphis))
}

func derivedFromParam(v ssa.Value, p *ssa.Parameter, depth int) bool {
	if p == nil || depth > 6 {
		return false
	}
	switch x := v.(type) {
	case *ssa.Parameter:
		return x == p
	case *ssa.BinOp:
		_, cx := x.X.(*ssa.Const)
		_, cy := x.Y.(*ssa.Const)
		return (cy && derivedFromParam(x.X, p, depth+1)) || (cx && derivedFromParam(x.Y, p, depth+1))
	case *ssa.Phi:
		for _, e := range x.Edges {
			if !derivedFromParam(e, p, depth+1) {
				return false
			}
		}
		return len(x.Edges) > 0
	case *ssa.Convert:
		return derivedFromParam(x.X, p, depth+1)
	case *ssa.ChangeType:
		return derivedFromParam(x.X, p, depth+1)
	}
	return false
}

// observedUse: does anything observable depend on v (other than v's own update)? "" if not.
var perCallResult bool

func observedUse(root *ssa.Phi) string {
	perCallResult = false
	seen := map[ssa.Value]bool{root: true}
	work := []ssa.Value{root}
	for len(work) > 0 {
		v := work[0]
		work = work[1:]
		refs := v.Referrers()
		if refs == nil {
			continue
		}
		for _, r := range *refs {
			switch x := r.(type) {
			case *ssa.DebugRef:
			case *ssa.If:
				return ": a branch at " + posStr(x.Block().Parent(), x.Cond.Pos()) + " tests it"
			case *ssa.Store:
				return ": it is stored at " + posStr(x.Block().Parent(), x.Pos())
			case *ssa.Return:
				ei := errResultIndex(x.Block().Parent())
				own := true
				for i, rv := range x.Results {
					if rv == v && (i == 0 || i == ei) {
						own = false
					}
				}
				if own && len(x.Results) > 2 {
					perCallResult = true // a result of its own (neither the offset nor the verdict)
					continue
				}
				return ": it is returned at " + posStr(x.Block().Parent(), x.Pos())
			case *ssa.Call:
				return ": it is passed to a call at " + posStr(x.Block().Parent(), x.Pos())
			case *ssa.IndexAddr, *ssa.Index, *ssa.Lookup, *ssa.Slice:
				return ": it selects an element at " + posStr(r.Block().Parent(), r.Pos())
			case ssa.Value:
				if !seen[x] {
					seen[x] = true
					work = append(work, x)
				}
			default:
				return ": it is used by " + r.String()
			}
		}
	}
	return ""
}

func posStr(fn *ssa.Function, p token.Pos) string {
	if fn == nil || fn.Prog == nil || !p.IsValid() {
		return "?"
	}
	ps := fn.Prog.Fset.Position(p)
	return fmt.Sprintf("%s:%d", ps.Filename[strings.LastIndex(ps.Filename, "/")+1:], ps.Line)
}

// R2: verdict <-> typestate.
func ruleR2(c *Ctx) {
	type spec struct{ fn, fin, err string; okStates []string }
	mb, _ := c.namedConstInt("ErrHdrMoreBytes")
	mv, _ := c.namedConstInt("ErrHdrMoreValues")
	eoh, _ := c.namedConstInt("ErrHdrEOH")
	for _, s := range []spec{
		{"ParseNameAddrPVal", "fbFIN", "", nil},
		{"ParseCSeqVal", "csFIN", "", nil},
		{"ParseCallIDVal", "ciFIN", "", nil},
		{"ParseUIntVal", "clFIN", "", nil},
		{"ParseTokenParam", "paramFIN", "paramERR", []string{"paramInitNxtVal"}},
		{"ParseHdrLine", "hFIN", "", nil},
	} {
		r := fsmOf(c, s.fn)
		if r == nil || r.head == nil || r.capped {
			c.fail("R2", s.fn+":fsm", token.NoPos, "state machine could not be extracted")
			continue
		}
		nmb, nok := 0, 0
		var badMB, badOK []string
		for _, t := range append(r.grouped(r.trans), r.grouped(r.post)...) {
			if t.Exit != "return" || r.name(t.From) == s.fin || (s.err != "" && r.name(t.From) == s.err) {
				continue
			}
			to := r.name(t.To)
			if t.Verd.has(mb) {
				nmb++
				if to == s.fin || (s.err != "" && to == s.err) {
					badMB = append(badMB, r.name(t.From)+"->"+to)
				}
			}
			succ := t.Verd.has(0) || t.Verd.has(mv)
			if s.fn == "ParseTokenParam" && t.Verd.has(eoh) && to != "paramInit" && to != "paramInitNxtVal" {
				succ = true
			}
			if succ && !t.Verd.has(mb) {
				nok++
				okTo := to == s.fin
				for _, o := range s.okStates {
					if to == o && t.Verd.has(mv) {
						okTo = true
					}
				}
				if !okTo {
					badOK = append(badOK, r.name(t.From)+"->"+to+" "+fmt.Sprint(t.Verd))
				}
			}
		}
		c.check(len(badMB) == 0 && nmb > 0, "R2", s.fn+":more-bytes-not-final", token.NoPos, fmt.Sprintf("none of the %d more-bytes exits leaves the object in its finished/error state (else the resumed call would return at once) %v", nmb, badMB))
		c.check(len(badOK) == 0 && nok > 0, "R2", s.fn+":success-is-final", token.NoPos, fmt.Sprintf("every one of the %d success exits leaves the object in its finished state (or the documented next-value state) %v", nok, badOK))
	}
	// the 'called again after finishing' guards
	for _, fn := range []string{"ParseNameAddrPVal", "ParseCSeqVal", "ParseCallIDVal", "ParseUIntVal", "ParseTokenParam"} {
		f := c.SFuncs[fn]
		if f == nil {
			continue
		}
		// entry block: if state == FIN return offs, 0
		okG := false
		head, _ := mainLoop(f)
		for _, gb := range f.Blocks {
			if head != nil && !gb.Dominates(head) {
				continue
			}
			iff, ok := gb.Instrs[len(gb.Instrs)-1].(*ssa.If)
			if !ok {
				continue
			}
			if bo, ok := iff.Cond.(*ssa.BinOp); ok && bo.Op == token.EQL {
				tb := gb.Succs[0]
				if ret, ok := tb.Instrs[len(tb.Instrs)-1].(*ssa.Return); ok {
					if k, isC := constIntOf(ret.Results[errResultIndex(f)]); isC && k == 0 {
						if _, isP := ret.Results[0].(*ssa.Parameter); isP {
							okG = true
						}
					}
				}
			}
		}
		c.check(okG, "R2", fn+":finished-guard", f.Pos(), "a call on a finished object returns (offs, 0) immediately")
	}
	// ParseFLine / ParseHdrLine / ParseSIPMsg by path enumeration per state
	e := newErrAnalysis(c.Prog)
	for _, s := range []struct{ fn, prefix, fin string }{{"ParseFLine", "fl", "flFIN"}, {"ParseSIPMsg", "SIPMsg", "SIPMsgFIN"}} {
		f := c.SFuncs[s.fn]
		if f == nil {
			continue
		}
		sp := fsmSpec{fn: f, stateFld: "state", constName: stateConstsOf(c, s.fn, s.prefix)}
		var badMB, badOK []string
		n := 0
		for k, name := range sp.constName {
			if name == s.fin || strings.HasSuffix(name, "Err") || strings.HasSuffix(name, "NoCLen") {
				continue
			}
			for _, t := range enumPaths(c, e, sp, k) {
				n++
				to := sp.constName[t.To]
				if t.Verd.has(mb) && to == s.fin {
					badMB = append(badMB, name+"->"+to)
				}
				if t.Verd.only(0) && to != s.fin {
					badOK = append(badOK, name+"->"+to)
				}
			}
		}
		c.check(len(badMB) == 0 && len(badOK) == 0 && n >= 8, "R2", s.fn+":typestate", f.Pos(), fmt.Sprintf("over %d paths: more-bytes never ends in %s, success always does %v %v", n, s.fin, badMB, badOK))
	}
}

// R4: a sub-parser's more-bytes is never dropped.
func ruleR4(c *Ctx) {
	e := newErrAnalysis(c.Prog)
	mb, _ := c.namedConstInt("ErrHdrMoreBytes")
	n := 0
	for _, f := range streamingFuncs(c, e) {
		fk := ssaKey(f)
		cnt := map[string]int{}
		for _, b := range f.Blocks {
			for _, ins := range b.Instrs {
				call, ok := ins.(*ssa.Call)
				if !ok {
					continue
				}
				cal := call.Call.StaticCallee()
				if cal == nil {
					continue
				}
				ei := errResultIndex(cal)
				if ei < 0 || !e.ret[cal][ei].has(mb) {
					continue
				}
				n++
				cnt[cal.Name()]++
				key := fmt.Sprintf("%s:%s#%d", fk, cal.Name(), cnt[cal.Name()])
				used := false
				if cal.Signature.Results().Len() == 1 {
					used = len(nonDebugRefs(call)) > 0
				}
				for _, r := range nonDebugRefs(call) {
					if ex, ok := r.(*ssa.Extract); ok && ex.Index == ei && len(nonDebugRefs(ex)) > 0 {
						used = true
					}
				}
				c.check(used, "R4", key, call.Pos(), "the verdict of "+cal.Name()+" (which may be more-bytes) is returned or tested, not discarded")
			}
		}
	}
	c.check(n >= 40, "R4", "calls", token.NoPos, fmt.Sprintf("%d calls to callees that may report more-bytes (frozen minimum 40)", n))
}

func nonDebugRefs(v ssa.Value) []ssa.Instruction {
	var out []ssa.Instruction
	if refs := v.Referrers(); refs != nil {
		for _, r := range *refs {
			if _, dbg := r.(*ssa.DebugRef); !dbg {
				out = append(out, r)
			}
		}
	}
	return out
}

// R3: dispatch agreement (C05-V2) + every suspended state has a re-entry case.
func ruleR3(c *Ctx) {
	t := &Ctx{Prog: c.Prog, Prop: c.Prop}
	ruleV2(t)
	for _, o := range t.obls {
		o.Rule = "R3"
		o.Key = "R3:" + strings.TrimPrefix(o.Key, "V2:")
		c.obls = append(c.obls, o)
	}
	// ParseHdrLine: every state a more-bytes exit can leave behind is handled on re-entry
	f := c.SFuncs["ParseHdrLine"]
	if f == nil {
		return
	}
	e := newErrAnalysis(c.Prog)
	mb, _ := c.namedConstInt("ErrHdrMoreBytes")
	bug, _ := c.namedConstInt("ErrHdrBug")
	sp := fsmSpec{fn: f, stateFld: "state", constName: stateConstsOf(c, "ParseHdrLine", "h")}
	for k, v := range sp.constName {
		if len(v) < 2 || !(v[1] >= 'A' && v[1] <= 'Z') {
			delete(sp.constName, k)
		}
	}
	r := extractFSM(c, e, sp)
	left := map[int64]bool{}
	for _, t := range append(r.trans, r.post...) {
		if t.Exit == "return" && t.Verd.has(mb) && t.To >= 0 && r.name(t.From) != "hFIN" {
			left[t.To] = true
		}
	}
	var ks []int64
	for k := range left {
		ks = append(ks, k)
	}
	sort.Slice(ks, func(i, j int) bool { return ks[i] < ks[j] })
	for _, k := range ks {
		handled := false
		for _, t := range r.trans {
			if t.From == k && !(t.Exit == "return" && t.Verd.only(bug)) {
				handled = true
			}
		}
		c.check(handled, "R3", "reentry:"+r.name(k), token.NoPos, "state "+r.name(k)+", which a more-bytes exit can leave in the header object, has a re-entry case (does not fall into the default/BUG arm)")
	}
	c.check(len(ks) >= 10, "R3", "suspended-states", token.NoPos, fmt.Sprintf("%d states can be left by a more-bytes exit of ParseHdrLine", len(ks)))
}

// R3b: the dispatch state of the header-line parser is never left in the object without the dispatcher having
// run. The dispatcher is the closure that selects the typed sub-parser; the dispatch state is the constant the
// caller compares the state with right after calling it. On every path from a store of that constant to a
// return whose verdict is not an error, the dispatcher is called or the state is overwritten first: otherwise a
// resume re-enters in the generic-value state and the typed value is never parsed.
func ruleR3b(c *Ctx) {
	e := newErrAnalysis(c.Prog)
	n := 0
	for _, f := range streamingFuncs(c, e) {
		fk := ssaKey(f)
		ei := errResultIndex(f)
		// dispatcher calls + dispatch state constants
		disp := map[ssa.Instruction]bool{}
		var stateFA *ssa.FieldAddr
		consts := map[int64]bool{}
		for _, b := range f.Blocks {
			for _, ins := range b.Instrs {
				call, ok := ins.(*ssa.Call)
				if !ok {
					continue
				}
				var callee *ssa.Function
				switch v := call.Call.Value.(type) {
				case *ssa.Function:
					callee = v
				case *ssa.MakeClosure:
					callee, _ = v.Fn.(*ssa.Function)
				}
				if callee == nil || callee.Parent() != f {
					continue
				}
				// the state test that follows
				for _, ins2 := range b.Instrs {
					iff, ok := ins2.(*ssa.If)
					if !ok {
						continue
					}
					bo, ok := iff.Cond.(*ssa.BinOp)
					if !ok || (bo.Op != token.NEQ && bo.Op != token.EQL) {
						continue
					}
					ld, ok := bo.X.(*ssa.UnOp)
					k, isC := constIntOf(bo.Y)
					if !ok || !isC || ld.Op != token.MUL {
						continue
					}
					if fa, ok := ld.X.(*ssa.FieldAddr); ok && strings.HasPrefix(addrRoot(fa), "param:") {
						stateFA = fa
						consts[k] = true
						disp[call] = true
					}
				}
			}
		}
		if stateFA == nil {
			continue
		}
		cell := fieldCell(stateFA)
		cnt := 0
		for _, b := range f.Blocks {
			for idx, ins := range b.Instrs {
				st, ok := ins.(*ssa.Store)
				if !ok {
					continue
				}
				fa, ok := st.Addr.(*ssa.FieldAddr)
				k, isC := constIntOf(st.Val)
				if !ok || !isC || !consts[k] || fieldCell(fa) != cell {
					continue
				}
				cnt++
				n++
				// forward search
				bad := token.NoPos
				seen := map[*ssa.BasicBlock]bool{}
				type item struct {
					b    *ssa.BasicBlock
					from int
				}
				work := []item{{b, idx + 1}}
				for len(work) > 0 && bad == token.NoPos {
					it := work[len(work)-1]
					work = work[:len(work)-1]
					killed := false
					for _, i2 := range it.b.Instrs[it.from:] {
						if disp[i2] {
							killed = true
							break
						}
						if s2, ok := i2.(*ssa.Store); ok {
							if fa2, ok := s2.Addr.(*ssa.FieldAddr); ok && fieldCell(fa2) == cell {
								killed = true
								break
							}
						}
						if ret, ok := i2.(*ssa.Return); ok {
							if ei >= 0 && e.at(ret.Results[ei], it.b)&VSet(0x1f) != 0 {
								bad = ret.Pos()
							}
						}
					}
					if killed {
						continue
					}
					for _, sb := range it.b.Succs {
						if !seen[sb] {
							seen[sb] = true
							work = append(work, item{sb, 0})
						}
					}
				}
				c.check(bad == token.NoPos, "R3b", fmt.Sprintf("%s:dispatch-state-store#%d", fk, cnt), st.Pos(), "from this store of the dispatch state to "+cell+", every path to a non-error return first calls the typed-header dispatcher or overwrites the state"+map[bool]string{true: "", false: "; a return at " + posStr(f, bad) + " is reachable with the dispatch state left in the object and no dispatch done"}[bad == token.NoPos])
			}
		}
	}
	c.check(n >= 2, "R3b", "stores", token.NoPos, fmt.Sprintf("%d stores of a dispatch state analysed", n))
	// the dispatcher itself: its caller ignores the dispatcher's verdict while the object is still in the dispatch
	// state, so the dispatcher may report a non-zero verdict only after it has stored a typed state: every verdict it
	// returns is the constant 0 or the verdict of a typed parser called after a store to the state field
	nd := 0
	for _, f := range streamingFuncs(c, e) {
		for _, cl := range f.AnonFuncs {
			ei := errResultIndex(cl)
			if ei < 0 || bufParam(cl) == nil {
				continue
			}
			// state stores of the closure
			var stores []*ssa.Store
			for _, b := range cl.Blocks {
				for _, ins := range b.Instrs {
					if st, ok := ins.(*ssa.Store); ok {
						if fa, ok := st.Addr.(*ssa.FieldAddr); ok && strings.HasSuffix(fieldCell(fa), ".state") {
							if _, isC := constIntOf(st.Val); isC {
								stores = append(stores, st)
							}
						}
					}
				}
			}
			if len(stores) < 3 {
				continue // not a dispatcher
			}
			nd++
			// every typed parser is handed the object its getter returned, and only when that object exists: the
			// call is dominated by the non-nil edge of a test of the getter's result (a header whose value object
			// is absent falls back to the generic scanner; a nil object is never dereferenced)
			ng := 0
			for _, b := range cl.Blocks {
				for _, ins := range b.Instrs {
					call, ok := ins.(*ssa.Call)
					if !ok || call.Call.StaticCallee() == nil || bufParam(call.Call.StaticCallee()) == nil || errResultIndex(call.Call.StaticCallee()) < 0 {
						continue
					}
					for _, a := range call.Call.Args {
						g, ok := a.(*ssa.Call)
						if !ok || !g.Call.IsInvoke() {
							continue
						}
						ng++
						guarded := false
						for cur := b; cur != nil; cur = cur.Idom() {
							d := cur.Idom()
							if d == nil || len(cur.Preds) != 1 || cur.Preds[0] != d {
								continue
							}
							iff, ok := d.Instrs[len(d.Instrs)-1].(*ssa.If)
							if !ok {
								continue
							}
							bo, ok := iff.Cond.(*ssa.BinOp)
							if !ok || bo.X != ssa.Value(g) {
								continue
							}
							if kc, ok := bo.Y.(*ssa.Const); ok && kc.Value == nil {
								if (bo.Op == token.NEQ && d.Succs[0] == cur) || (bo.Op == token.EQL && d.Succs[1] == cur) {
									guarded = true
								}
							}
						}
						c.check(guarded, "R3b", fmt.Sprintf("%s:typed-call-guard:%s", ssaKey(cl), call.Call.StaticCallee().Name()+"<-"+g.Call.Method.Name()), call.Pos(), "the typed parser is called only on the non-nil edge of a test of its getter's result")
					}
				}
			}
			c.check(ng >= 6, "R3b", ssaKey(cl)+":typed-calls", cl.Pos(), fmt.Sprintf("%d typed parser calls on getter results in the dispatcher (frozen minimum 6)", ng))
			cnt := 0
			for _, b := range cl.Blocks {
				ret, ok := b.Instrs[len(b.Instrs)-1].(*ssa.Return)
				if !ok {
					continue
				}
				var leaves []ssa.Value
				var walk func(v ssa.Value, d int)
				seen := map[ssa.Value]bool{}
				walk = func(v ssa.Value, d int) {
					if seen[v] || d > 8 {
						return
					}
					seen[v] = true
					if ph, ok := v.(*ssa.Phi); ok {
						for _, ed := range ph.Edges {
							walk(ed, d+1)
						}
						return
					}
					leaves = append(leaves, v)
				}
				walk(ret.Results[ei], 0)
				bad := ""
				for _, lf := range leaves {
					if k, isC := constIntOf(lf); isC {
						if k != 0 {
							bad = fmt.Sprintf("the constant verdict %d", k)
						}
						continue
					}
					ex, ok := lf.(*ssa.Extract)
					call, ok2 := (ssa.Value)(nil), false
					if ok {
						call, ok2 = ex.Tuple.(*ssa.Call)
					}
					if !ok || !ok2 {
						bad = "a verdict that is not a callee's"
						continue
					}
					cb := call.(*ssa.Call).Block()
					after := false
					for _, st := range stores {
						if st.Block() == cb {
							for _, ins := range cb.Instrs {
								if ins == ssa.Instruction(st) {
									after = true
									break
								}
								if ins == ssa.Instruction(call.(*ssa.Call)) {
									break
								}
							}
						} else if st.Block().Dominates(cb) {
							after = true
						}
					}
					if !after {
						bad = "the verdict of a call made before any typed state is stored"
					}
				}
				cnt++
				c.check(bad == "", "R3b", fmt.Sprintf("%s:dispatcher-verdict#%d", ssaKey(cl), cnt), ret.Pos(), "the dispatcher hands back verdict 0 or the verdict of a typed parser called after the typed state was stored (its caller ignores the verdict while the object is still in the dispatch state)"+map[bool]string{true: "", false: " — returns " + bad}[bad == ""])
			}
		}
	}
	c.check(nd >= 1, "R3b", "dispatchers", token.NoPos, fmt.Sprintf("%d dispatcher closure(s) analysed", nd))
}

// R7: the buffer length only matters relative to a position. In a function that takes (buf, offs), a branch that
// compares len(buf) with a constant alone (no position term) measures from byte 0 of the buffer, not from where this
// message / this call starts: it behaves differently for offs > 0 and for a resumed call on a grown buffer.
func ruleR7(c *Ctx) {
	e := newErrAnalysis(c.Prog)
	n, nabs := 0, 0
	for _, f := range streamingFuncs(c, e) {
		bp := bufParam(f)
		if bp == nil {
			continue
		}
		fk := ssaKey(f)
		lenKey := "len(param:" + bp.Name() + ")"
		cnt := 0
		for _, b := range f.Blocks {
			iff, ok := b.Instrs[len(b.Instrs)-1].(*ssa.If)
			if !ok {
				continue
			}
			env := newLinEnv(linOpts{})
			for _, fa := range env.condFacts(iff.Cond, true) {
				if fa.L.T[lenKey] == 0 {
					continue
				}
				n++
				others := 0
				for k, cf := range fa.L.T {
					if k != lenKey && cf != 0 {
						others++
					}
				}
				if others == 0 {
					nabs++
					cnt++
					c.fail("R7", fmt.Sprintf("%s:absolute-length-test#%d", fk, cnt), iff.Cond.Pos(), "this branch compares len(buf) with a constant only ("+env.pretty(fa.L)+"<=0): the bytes available to this call are len(buf) minus its position, so the test gives a different answer when the message starts at offs > 0 or when the call is a resume on a grown buffer")
				}
				break
			}
		}
	}
	c.check(n >= 20, "R7", "length-tests", token.NoPos, fmt.Sprintf("%d branches on len(buf) in resumable functions inspected, %d without a position term (frozen minimum 20)", n, nabs))
}

// R8: an offset handed back after input was consumed is a position of the scan, not the offset this call happened to
// start at. In a resumable function, a return whose offset is the bare offs parameter must not be dominated by a call
// to a streaming callee (which consumed input from offs on): a one-shot call and a resumed call start at different
// offsets, so such a return reports different offsets for the same input.
func ruleR8(c *Ctx) {
	e := newErrAnalysis(c.Prog)
	streaming := map[*ssa.Function]bool{}
	for _, f := range streamingFuncs(c, e) {
		streaming[f] = true
	}
	n, nbare := 0, 0
	for _, f := range streamingFuncs(c, e) {
		fk := ssaKey(f)
		bp := bufParam(f)
		var offsP *ssa.Parameter
		for j, p := range f.Params {
			if p == bp && j+1 < len(f.Params) {
				offsP = f.Params[j+1]
			}
		}
		if offsP == nil {
			continue
		}
		cnt := 0
		for _, b := range f.Blocks {
			ret, ok := b.Instrs[len(b.Instrs)-1].(*ssa.Return)
			if !ok || len(ret.Results) < 2 {
				continue
			}
			n++
			if ret.Results[0] != ssa.Value(offsP) {
				continue
			}
			nbare++
			// a streaming call that dominates this return (started at offs or later)?
			var dom *ssa.Call
			for _, b2 := range f.Blocks {
				if !b2.Dominates(b) {
					continue
				}
				for _, ins := range b2.Instrs {
					if call, ok := ins.(*ssa.Call); ok {
						if cal := call.Call.StaticCallee(); cal != nil && streaming[cal] {
							dom = call
						}
					}
				}
			}
			cnt++
			c.check(dom == nil, "R8", fmt.Sprintf("%s:bare-offs-return#%d", fk, cnt), ret.Pos(), "this return hands back the offs parameter itself; no streaming callee has consumed input before it (otherwise the offset would depend on where this call started)"+map[bool]string{true: "", false: " — dominated by a streaming call"}[dom == nil])
		}
	}
	c.check(n >= 100, "R8", "returns", token.NoPos, fmt.Sprintf("%d returns of resumable functions inspected, %d hand back the bare offs parameter (frozen minimum 100 returns)", n, nbare))
}

// R9: the token-parameter parser suspends *before* the whitespace it cannot classify yet (shared with C17-L2): its
// step-back-to-the-separator return and its trimming rely on a resumed call seeing that whitespace again.
func ruleR9(c *Ctx) {
	t := &Ctx{Prog: c.Prog, Prop: c.Prop}
	ruleL2(t)
	for _, o := range t.obls {
		if strings.Contains(o.Key, "suspend-before-ws") {
			o.Key = "R9:" + strings.TrimPrefix(o.Key, "L2:")
			o.Rule = "R9"
			c.obls = append(c.obls, o)
		}
	}
	c.expectMin("R9", 5)
}

// R5: slot persistence (C13-K2 keep-on-more-bytes).
func ruleR5(c *Ctx) {
	t := &Ctx{Prog: c.Prog, Prop: c.Prop}
	ruleK2(t)
	for _, o := range t.obls {
		if strings.Contains(o.Key, "keep-on-more-bytes") || strings.Contains(o.Key, "pre-call-reset") || strings.Contains(o.Key, "clean-before-next") {
			o.Rule = "R5"
			o.Key = "R5:" + strings.TrimPrefix(o.Key, "K2:")
			c.obls = append(c.obls, o)
		}
	}
	c.expectMin("R5", 10)
}

// R6: resume-independent bookkeeping that the caller reads back (shared with C05-V1 and C13-K3).
func ruleR6(c *Ctx) {
	t := &Ctx{Prog: c.Prog, Prop: c.Prop}
	ruleV1(t)
	ruleK3(t)
	for _, o := range t.obls {
		if o.Rule == "V1" || strings.Contains(o.Key, "HNo") {
			o.Key = "R6:" + strings.TrimPrefix(strings.TrimPrefix(o.Key, "V1:"), "K3:")
			o.Rule = "R6"
			c.obls = append(c.obls, o)
		}
	}
	c.expectMin("R6", 12)
}

func init() {
	rules := []Rule{
		{"R1", "nothing live is lost at a suspension: in every resumable loop the scan index starts from the offs parameter and is what every more-bytes-capable return returns; every other local that is modified in the loop and live across iterations (loop-head phi) is re-loaded from a state field at entry and saved to it before every more-bytes-capable return, or is never read across iterations on any verdict-feasible path", ruleR1},
		{"R1b", "value loops and header loops (every loop of a resumable function other than its scanning loop): a local carried round the loop starts from the offs parameter or from the state object, or nothing observable (branch, store, call argument, element selection, return) depends on it — a counter that starts afresh on every call counts work done in this call only, which differs between a one-shot and a resumed parse", ruleR1b},
		{"R2", "verdict <-> typestate on the extracted automata and per-state path enumerations: no more-bytes exit leaves the object in its finished/error state, every success exit does leave it finished (or in the documented next-value state), and a finished object returns (offs, 0) at once", ruleR2},
		{"R3", "dispatch-table agreement (writer = reader) for the 8 typed headers, and every state a more-bytes exit can leave in the header object has a re-entry case", ruleR3},
		{"R3b", "the dispatch state of the header-line parser (the state its caller compares with right after calling the typed-header dispatcher closure) is never left in the object undispatched: from every store of it, every path to a non-error return first calls the dispatcher or overwrites the state", ruleR3b},
		{"R7", "the buffer length is only ever tested relative to a position: no branch in a resumable function compares len(buf) with a constant alone — such a test measures from byte 0, not from the continuation offset, and answers differently for offs > 0 or a resumed call", ruleR7},
		{"R8", "an offset handed back after input was consumed is a position of the scan: in a resumable function no return of the bare offs parameter is dominated by a call to a streaming callee (a resumed call starts elsewhere than a one-shot call, so the reported offset would differ)", ruleR8},
		{"R9", "ParseTokenParam suspends before the whitespace it cannot classify yet: in every token state the more-bytes exit taken on whitespace returns the position before it (shared with C17-L2), which the step-back return and the trimming of a resumed call rely on", ruleR9},
		{"R10", "the automata of the three small header-value parsers (ParseCSeqVal, ParseCallIDVal, ParseUIntVal) and of the two stateless scanners (SkipQuoted, skipLWS) equal their reviewed reference tables (ref/*.txt): state x byte class -> next state / exit, verdicts, field actions, returned offset", func(c *Ctx) {
			for _, f := range []string{"ParseCSeqVal", "ParseCallIDVal", "ParseUIntVal", "SkipQuoted", "skipLWS"} {
				fsmRefRule(c, "R10", f)
			}
		}},
		{"R11", "the resumed epilogue of the first line equals the one-shot one (shared with C08-S7): both Reason.Extend sites of ParseFLine use skipLine's offset minus the line-end length of the same call, so a reply cut inside its reason phrase ends the reason where the one-shot parse does for CR LF, lone CR and lone LF", func(c *Ctx) {
			t := &Ctx{Prog: c.Prog, Prop: c.Prop}
			ruleS7(t)
			for _, o := range t.obls {
				o.Key = "R11:" + strings.TrimPrefix(o.Key, "S7:")
				o.Rule = "R11"
				c.obls = append(c.obls, o)
			}
			c.expectMin("R11", 2)
		}},
		{"R4", "the verdict of every call to a callee that may report more-bytes is returned or tested, never discarded", ruleR4},
		{"R6", "read-back values that must not depend on how the input was cut: the raw-message / buffer views use the start offset saved on the first call (never the current call's offset), and the header counters advance exactly on first entry of a header, not on resume", ruleR6},
		{"R5", "slot persistence of the list parsers: no reset of the in-progress slot on more-bytes paths or before the sub-parser is re-entered; reset before the next element", ruleR5},
	}
	notDecided := "equality of parsed values and of the returned offset after a cut inside CR LF / folds / escapes (needs the values computed by two executions); which offset is kept before trailing whitespace"
	register(&PropDef{ID: "C01", Rules: rules, Assumptions: []string{"the caller resumes with the returned offset, the same object and a buffer that extends the previous one"}, NotDecided: notDecided})
	register(&PropDef{ID: "C02", Rules: rules, Assumptions: []string{"the caller resumes with the returned offset, the same object and a buffer that extends the previous one"}, NotDecided: notDecided})
}
