package main

import (
	"fmt"
	"go/ast"
	"go/token"
	"regexp"
	"sort"
	"strings"

	"golang.org/x/tools/go/ssa"
)

type (
	ssa_Value      = ssa.Value
	ssa_Block      = ssa.BasicBlock
	ssa_Phi        = ssa.Phi
	ast_AssignStmt = ast.AssignStmt
	ssa_Store      = ssa.Store
	ssa_FieldAddr  = ssa.FieldAddr
	ssa_Return     = ssa.Return
	ssa_Slice      = ssa.Slice
)

const unreservedMarks = "-_.!~*'()"

// L1: character class of tokAllowedChar = the documented one, exactly.
func ruleL1(c *Ctx) {
	fn := c.SFuncs["tokAllowedChar"]
	if fn == nil {
		c.fail("L1", "tokAllowedChar", token.NoPos, "not found")
		return
	}
	outs := byteDecision(c, fn)
	acc := map[string]*ByteSet{}
	flagConds := map[string]bool{}
	for _, o := range outs {
		var fl []string
		for _, cd := range o.Conds {
			fl = append(fl, cd)
			flagConds[strings.TrimPrefix(cd, "!")] = true
		}
		// a path with no flag test applies to every flag combination
		keys := []string{strings.Join(fl, "&")}
		for _, k := range keys {
			if acc[k] == nil {
				acc[k] = emptySet()
			}
			if o.Result == "true" {
				acc[k] = acc[k].union(o.Bytes)
			}
		}
	}
	c.check(len(flagConds) == 1, "L1", "flag-tests", fn.Pos(), fmt.Sprintf("the class depends on exactly one option (URI-parameter mode): %v", keysOf(flagConds)))
	base := emptySet()
	for ch := 'a'; ch <= 'z'; ch++ {
		base.b.SetBit(&base.b, int(ch), 1)
		base.b.SetBit(&base.b, int(ch-32), 1)
	}
	for ch := '0'; ch <= '9'; ch++ {
		base.b.SetBit(&base.b, int(ch), 1)
	}
	base = base.union(setOfString(unreservedMarks)).union(setOfString("%")).union(setOfString("[]/:+$"))
	common := acc[""]
	if common == nil {
		common = emptySet()
	}
	var flagName string
	for k := range flagConds {
		flagName = k
	}
	withFlag, without := common, common
	for k, v := range acc {
		if k == flagName {
			withFlag = withFlag.union(v)
		} else if k == "!"+flagName {
			without = without.union(v)
		}
	}
	wantWith := base.union(setOfString("&"))
	wantWithout := base.union(setOfString("?"))
	c.check(withFlag.eq(wantWith), "L1", "class:uri-param", fn.Pos(), "URI-parameter mode accepts letters, digits, -_.!~*'() % []/:+$ and '&' exactly (got "+withFlag.String()+")")
	c.check(without.eq(wantWithout), "L1", "class:other", fn.Pos(), "otherwise the same set with '?' instead of '&' (got "+without.String()+")")
	mask, _ := c.namedConstInt("POptTokURIParamF")
	c.check(strings.Contains(flagName, fmt.Sprintf("flags&%d", mask)), "L1", "flag-is-uriparam", fn.Pos(), "the option tested is POptTokURIParamF ("+flagName+")")
}

func keysOf(m map[string]bool) []string {
	var ks []string
	for k := range m {
		ks = append(ks, k)
	}
	sort.Strings(ks)
	return ks
}

func hasCond(t fsmTrans, want string) bool {
	for _, cd := range t.Conds {
		if cd == want {
			return true
		}
	}
	return false
}

var delimCondRe = regexp.MustCompile(`^\+\w+\[\*\]==\+[A-Za-z_]\w*$`)

// hasDelimCond: the path took the true edge of `inputByte == <variable>` (the configured separator / terminator).
func hasDelimCond(t fsmTrans) bool {
	for _, cd := range t.Conds {
		if delimCondRe.MatchString(cd) {
			return true
		}
	}
	return false
}

func hasCondContaining(t fsmTrans, sub string, positive bool) bool {
	for _, cd := range t.Conds {
		if strings.Contains(cd, sub) && strings.HasPrefix(cd, "!") != positive {
			return true
		}
	}
	return false
}

// L2: nothing is absorbed unchecked (ParseTokenParam automaton + SkipQuoted byte partition).
func ruleL2(c *Ctx) {
	r := fsmOf(c, "ParseTokenParam")
	if r == nil || r.head == nil || r.capped {
		c.fail("L2", "ParseTokenParam:fsm", token.NoPos, "state machine could not be extracted")
		return
	}
	g := r.grouped(r.trans)
	c.check(len(r.states) >= 11 && len(g) >= 100, "L2", "fsm-size", token.NoPos, fmt.Sprintf("ParseTokenParam automaton: %d states, %d grouped transitions", len(r.states), len(g)))
	ws := setOfString(" \t\r\n")
	nkeep := 0
	tokenStates := map[string]bool{"paramInit": true, "paramInitNxtVal": true, "paramFNxt": true, "paramName": true, "paramFEq": true, "paramFVal": true, "paramVal": true, "paramFSep": true}
	for _, t := range g {
		from := r.name(t.From)
		if !tokenStates[from] {
			continue
		}
		key := fmt.Sprintf("%s:%s:%s", from, t.Bytes.String(), strings.Join(t.Conds, "&"))
		if hasCond(t, "!tokAllowedChar()") {
			c.check(t.Exit == "return" && t.Verd.only(6) && r.name(t.To) == "paramERR", "L2", "reject:"+key, t.RetPos, "a byte that fails tokAllowedChar is rejected with ErrHdrBadChar and the error state")
			continue
		}
		if t.Exit != "" {
			continue
		}
		// the byte is kept (next iteration): why was it acceptable?
		nkeep++
		isWS := t.Bytes.filter(func(i int) bool { return !ws.has(i) }).empty()
		switch {
		case isWS && t.has("skipLWS"):
			c.ok("L2", "keep:"+key, token.NoPos, "linear whitespace, consumed through skipLWS")
		case hasCond(t, "tokAllowedChar()"):
			c.ok("L2", "keep:"+key, token.NoPos, "kept after tokAllowedChar accepted it")
		case hasDelimCond(t):
			c.ok("L2", "keep:"+key, token.NoPos, "the configured separator / terminator")
		case t.Bytes.eq(setOfString("=")) || t.Bytes.eq(setOfString("\"")):
			c.ok("L2", "keep:"+key, token.NoPos, "structural delimiter "+t.Bytes.String())
		case from == "paramFNxt" || from == "paramInit" || from == "paramInitNxtVal":
			// separators repeated between items are skipped (c == sep)
			c.check(hasDelimCond(t), "L2", "keep:"+key, token.NoPos, "between items only the separator is skipped")
		default:
			c.fail("L2", "keep:"+key, token.NoPos, "a byte is absorbed in a token state without passing tokAllowedChar or being a delimiter")
		}
	}
	// the terminator test is armed only when a terminator is configured: every path that takes `byte == T` for the
	// run-time terminator T also took `T != 0` (otherwise a NUL byte would end the list with success when no
	// terminator is configured)
	reT := regexp.MustCompile(`^\+(?:buf\[\*\]|[A-Za-z_][A-Za-z0-9_]*)==\+([A-Za-z_][A-Za-z0-9_]*)$`)
	nterm := 0
	for _, t := range g {
		// the terminator exit: success at the current byte, taken right after `byte == T`
		if !(t.Exit == "return" && t.Verd.only(0) && t.RetOffs == "+i" && len(t.Calls) <= 2) {
			continue
		}
		// decided by exactly two tests, last on the path, in either order: byte == T and T != 0
		if len(t.Conds) < 2 {
			continue
		}
		l1, l2 := t.Conds[len(t.Conds)-2], t.Conds[len(t.Conds)-1]
		for _, pair := range [][2]string{{l1, l2}, {l2, l1}} {
			m := reT.FindStringSubmatch(pair[0])
			if m == nil {
				continue
			}
			tv := m[1]
			if !(strings.HasPrefix(pair[1], "+"+tv+"!=+") || strings.HasPrefix(pair[1], "!+"+tv+"!=+") || strings.HasPrefix(pair[1], "+"+tv+"==+") || strings.HasPrefix(pair[1], "!+"+tv+"==+")) {
				continue // the other test is not about T: not a terminator exit
			}
			nterm++
			c.check(pair[1] == "+"+tv+"!=+0" || pair[1] == "!+"+tv+"==+0", "L2", "terminator-armed:"+r.name(t.From)+":"+t.Bytes.String(), t.RetPos, "the list ends with success at a byte equal to the configured terminator "+tv+" only if a terminator is configured: the accompanying test is "+tv+" != 0 (got "+pair[1]+")")
			break
		}
	}
	c.check(nterm >= 4, "L2", "terminator-tests", token.NoPos, fmt.Sprintf("%d terminator exits checked (frozen minimum 4)", nterm))
	c.check(nkeep >= 30, "L2", "keep-count", token.NoPos, fmt.Sprintf("%d byte-keeping transitions classified (frozen minimum 30)", nkeep))
	// quoted values are consumed by SkipQuoted only
	for _, t := range g {
		if r.name(t.From) == "paramQuotedVal" && t.Exit == "" {
			c.check(t.has("SkipQuoted"), "L2", "quoted:"+t.Bytes.String()+":"+strings.Join(t.Conds, "&"), token.NoPos, "inside a quoted value every byte goes through SkipQuoted")
		}
	}
	// suspension before whitespace: in the name/value states a more-bytes exit caused by skipLWS returns i (before the whitespace)
	nsusp := 0
	for _, t := range g {
		from := r.name(t.From)
		if t.Exit == "return" && t.Verd.only(3) && t.has("skipLWS") && from != "paramQuotedVal" {
			nsusp++
			c.check(t.RetOffs == "+i", "L2", "suspend-before-ws:"+from, t.RetPos, "when the whitespace after a token cannot be classified yet, the continuation offset is the position before it (offs = "+t.RetOffs+"), so trimming is redone on resume - the same in every state")
		}
	}
	c.check(nsusp >= 6, "L2", "suspend-sites", token.NoPos, fmt.Sprintf("%d whitespace suspension sites (frozen minimum 6)", nsusp))
	// SkipQuoted partition
	sq := c.SFuncs["SkipQuoted"]
	if sq != nil {
		rq := extractFSM(c, newErrAnalysis(c.Prog), fsmSpec{fn: sq, stateVar: "none", constName: map[int64]string{0: "q"}})
		keep := emptySet()
		for _, t := range rq.grouped(rq.trans) {
			if t.Exit == "" && t.Locals["i"] == "+i+1" {
				keep = keep.union(t.Bytes)
			}
		}
		want := fullSet().filter(func(i int) bool {
			return i != '"' && i != '\\' && i != '\r' && i != '\n' && i != 0x7f && (i >= 0x20 || i == '\t')
		})
		c.check(keep.eq(want), "L2", "SkipQuoted:kept", sq.Pos(), "inside quotes exactly the bytes other than '\"', '\\\\', CR, LF, DEL and control characters (TAB allowed) are skipped one at a time (got "+keep.String()+")")
	}
}

// L3: separator / terminator selection (decision table of the prologue).
func ruleL3(c *Ctx) {
	fn := c.SFuncs["ParseTokenParam"]
	r := fsmOf(c, "ParseTokenParam")
	if fn == nil || r == nil || r.head == nil {
		c.fail("L3", "ParseTokenParam", token.NoPos, "not found")
		return
	}
	// walk from the entry to the loop head, forking on flag tests; locals at the head give sep/term
	run := &fsmRunner{c: c, e: newErrAnalysis(c.Prog), spec: r.spec, res: &fsmResult{spec: r.spec, head: r.head, body: r.body}}
	var paths []fsmTrans
	p := fsmPath{st: 0, bytes: fullSet(), verd: map[ssa_Value]VSet{}, visited: map[*ssa_Block]int{}, phis: map[*ssa_Phi]ssa_Value{}}
	run.walk(fn.Blocks[0], p, 0, &paths, true)
	f := func(name string) int64 { v, _ := c.namedConstInt(name); return v }
	amp, uhdr, semi, uprm := f("POptParamAmpSepF"), f("POptTokURIHdrF"), f("POptParamSemiSepF"), f("POptTokURIParamF")
	qm, comma, sp := f("POptTokQmTermF"), f("POptTokCommaTermF"), f("POptTokSpTermF")
	_ = semi
	_ = sp
	// the separator / terminator variables are found by the values they take, not by name
	domain := map[string]map[string]bool{}
	for _, t := range paths {
		for k, v := range t.Locals {
			if domain[k] == nil {
				domain[k] = map[string]bool{}
			}
			domain[k][v] = true
		}
	}
	sepN, termN := "", ""
	for k, vs := range domain {
		if vs["+59"] && vs["+38"] && len(vs) == 2 {
			sepN = k
		}
		if vs["+0"] && vs["+63"] && vs["+44"] && len(vs) == 3 {
			termN = k
		}
	}
	c.check(sepN != "" && termN != "", "L3", "variables", token.NoPos, "separator variable (values ';' '&') and terminator variable (values none '?' ',') identified: "+sepN+", "+termN)
	n := 0
	for _, t := range paths {
		if t.Exit != "" {
			continue
		}
		n++
		set := map[int64]bool{}
		okAll := true
		for _, cd := range t.Conds {
			pos := !strings.HasPrefix(cd, "!")
			cd = strings.TrimPrefix(cd, "!")
			var m int64
			if _, err := fmt.Sscanf(cd, "+(flags&%d)!=+0", &m); err != nil {
				okAll = false
				continue
			}
			set[m] = pos
		}
		key := "path:" + strings.Join(t.Conds, "&")
		wantSep := "+59" // ';'
		if set[amp|uhdr] {
			wantSep = "+38" // '&'
		}
		wantTerm := "+0"
		if set[qm|uprm] {
			wantTerm = "+63" // '?'
		} else if set[comma] {
			wantTerm = "+44" // ','
		}
		c.check(okAll && t.Locals[sepN] == wantSep && t.Locals[termN] == wantTerm, "L3", key, token.NoPos,
			fmt.Sprintf("separator %s terminator %s for this option combination (want %s / %s)", t.Locals[sepN], t.Locals[termN], wantSep, wantTerm))
	}
	c.check(n >= 6, "L3", "paths", token.NoPos, fmt.Sprintf("%d option combinations of the prologue enumerated", n))
	// wrappers OR in the documented options
	for fnName, want := range map[string]int64{"ParseAllURIParams": semi, "ParseAllURIHdrs": amp | uhdr} {
		fd := c.Decls[fnName]
		ok := false
		if fd != nil && len(fd.Body.List) > 0 {
			if as, isAs := fd.Body.List[0].(*ast_AssignStmt); isAs && as.Tok == token.OR_ASSIGN && c.src(as.Lhs[0]) == "flags" {
				v, _ := c.constInt(as.Rhs[0])
				ok = v == want
			}
		}
		c.check(ok, "L3", "wrapper:"+fnName, token.NoPos, fmt.Sprintf("%s adds exactly its documented separator options (%#x) before parsing", fnName, want))
	}
}

// L5: end-of-input finalisation covers every state and is reached only under the end-of-input option.
func ruleL5(c *Ctx) {
	r := fsmOf(c, "ParseTokenParam")
	if r == nil || r.head == nil {
		c.fail("L5", "ParseTokenParam:fsm", token.NoPos, "state machine could not be extracted")
		return
	}
	pg := r.grouped(r.post)
	byState := map[int64][]fsmTrans{}
	for _, t := range pg {
		byState[t.From] = append(byState[t.From], t)
	}
	for _, k := range r.states {
		name := r.name(k)
		if name == "paramFIN" || name == "paramERR" {
			continue
		}
		var withFlag, withoutFlag []fsmTrans
		for _, t := range byState[k] {
			if hasCondContaining(t, "(flags&8)!=+0", true) {
				withFlag = append(withFlag, t)
			} else {
				withoutFlag = append(withoutFlag, t)
			}
		}
		okNo := len(withoutFlag) > 0
		for _, t := range withoutFlag {
			if !t.Verd.only(3) {
				okNo = false
			}
		}
		c.check(okNo, "L5", "exhausted:"+name, token.NoPos, "buffer exhausted in state "+name+" without the end-of-input option: more-bytes only")
		okFin := len(withFlag) > 0
		for _, t := range withFlag {
			switch name {
			case "paramQuotedVal":
				if !t.Verd.only(3) {
					okFin = false
				}
			case "paramName":
				if !(t.has("Name.Extend") && t.has("All.Extend")) {
					okFin = false
				}
			case "paramVal":
				if !(t.has("Val.Extend") && t.has("All.Extend")) {
					okFin = false
				}
			}
		}
		c.check(okFin, "L5", "final:"+name, token.NoPos, "end-of-input finalisation handles state "+name+" (open name/value closed at the end; an open quote stays more-bytes)")
	}
}

// L4: list wrappers count and classify every parameter (shared with C13-K3).
func ruleL4(c *Ctx) {
	t := &Ctx{Prog: c.Prog, Prop: c.Prop}
	ruleK3(t)
	for _, o := range t.obls {
		if strings.Contains(o.Key, "ParseAllURI") {
			o.Rule = "L4"
			o.Key = "L4:" + strings.TrimPrefix(o.Key, "K3:")
			c.obls = append(c.obls, o)
		}
	}
	// known-parameter resolution is case-insensitive (C15-Q3 table)
	t2 := &Ctx{Prog: c.Prog, Prop: c.Prop}
	ruleQ3(t2)
	for _, o := range t2.obls {
		if strings.Contains(o.Key, "URIParamResolve") {
			o.Rule = "L4"
			o.Key = "L4:" + strings.TrimPrefix(o.Key, "Q3:")
			c.obls = append(c.obls, o)
		}
	}
	c.expectMin("L4", 10)
}

// L6: stepping back to the separator. Where a branch chooses between returning X-1 (the separator before the
// token just seen) and X with the same verdict, the X arm is taken only when stepping back is impossible, i.e. when
// X-1 would lie before the offset this call started at: the facts on the X arm entail X <= offs. A stronger guard
// returns the token start instead of the separator for some inputs (and only when the call was resumed there).
func ruleL6(c *Ctx) {
	e := newErrAnalysis(c.Prog)
	n := 0
	for _, f := range streamingFuncs(c, e) {
		fk := ssaKey(f)
		ei := errResultIndex(f)
		bp := bufParam(f)
		var offsP *ssa.Parameter
		for j, p := range f.Params {
			if p == bp && j+1 < len(f.Params) {
				offsP = f.Params[j+1]
			}
		}
		if offsP == nil || ei < 0 {
			continue
		}
		cnt := 0
		for _, b := range f.Blocks {
			iff, ok := b.Instrs[len(b.Instrs)-1].(*ssa.If)
			if !ok || len(b.Succs) != 2 {
				continue
			}
			// the decision is about this call's region: it compares something with the offs parameter
			{
				env := newLinEnv(linOpts{})
				onOffs := false
				for _, fa := range env.condFacts(iff.Cond, true) {
					if fa.L.T[env.atomKey(offsP)] != 0 {
						onOffs = true
					}
				}
				if !onOffs {
					continue
				}
			}
			r0, ok0 := b.Succs[0].Instrs[len(b.Succs[0].Instrs)-1].(*ssa.Return)
			r1, ok1 := b.Succs[1].Instrs[len(b.Succs[1].Instrs)-1].(*ssa.Return)
			if !ok0 || !ok1 || len(b.Succs[0].Preds) != 1 || len(b.Succs[1].Preds) != 1 {
				continue
			}
			v0, c0 := constIntOf(r0.Results[ei])
			v1, c1 := constIntOf(r1.Results[ei])
			if !c0 || !c1 || v0 != v1 {
				continue
			}
			env := newLinEnv(linOpts{})
			d := env.norm(r0.Results[0]).add(env.norm(r1.Results[0]), -1)
			if !d.isConst() || (d.C != 1 && d.C != -1) {
				continue
			}
			stay := r0 // the arm that returns X (not stepped back)
			if d.C == -1 {
				stay = r1
			}
			n++
			cnt++
			x := stay.Results[0]
			r := prove(c, f, stay, func(env *linEnv) Lin { return env.norm(x).add(env.norm(offsP), -1) })
			le := newLinEnv(linOpts{})
			c.check(r.ok, "L6", fmt.Sprintf("%s:step-back#%d", fk, cnt), stay.Pos(), "the arm that returns "+le.pretty(le.norm(x))+" instead of stepping back to the separator is taken only when "+le.pretty(le.norm(x))+" <= "+offsP.Name()+" (stepping back would leave this call's region): "+r.how)
		}
	}
	c.check(n >= 2, "L6", "sites", token.NoPos, fmt.Sprintf("%d step-back decisions found (frozen minimum 2)", n))
}


// L8: classification and type accumulation read the parameter before its slot is recycled (the C13-K5 analysis on the
// two parameter-list wrappers).
func ruleL8(c *Ctx) {
	t := &Ctx{Prog: c.Prog, Prop: c.Prop}
	ruleK5(t)
	for _, o := range t.obls {
		if strings.Contains(o.Key, "ParseAllURIParams") || strings.Contains(o.Key, "ParseAllURIHdrs") {
			o.Key = "L8:" + strings.TrimPrefix(o.Key, "K5:")
			o.Rule = "L8"
			c.obls = append(c.obls, o)
		}
	}
	c.expectMin("L8", 4)
}

func init() {
	register(&PropDef{
		ID: "C17",
		Rules: []Rule{
			{"L1", "exact byte-set partition of tokAllowedChar: URI-parameter mode accepts letters, digits, the unreserved marks, '%', '[]/:+$' and '&'; otherwise the same with '?' instead of '&'; the only option consulted is POptTokURIParamF", ruleL1},
			{"L2", "from the extracted ParseTokenParam automaton: in every token state a byte is kept only as linear whitespace (through skipLWS), as the configured separator/terminator, as '=' or a quote, or after tokAllowedChar accepted it; a rejected byte returns ErrHdrBadChar in the error state; quoted values are consumed only by SkipQuoted, whose kept set is exact; every whitespace suspension returns the offset before the whitespace", ruleL2},
			{"L3", "separator/terminator selection: decision table of the prologue over the option bits (sep '&' iff AmpSep|URIHdr else ';'; term '?' iff QmTerm|URIParam, else ',' iff CommaTerm, else none); the wrappers add exactly their documented options", ruleL3},
			{"L4", "list wrappers count, classify (URIParamResolve, case-insensitive, six names) and accumulate type flags on every completed parameter as unconditional statements", ruleL4},
			{"L7", "the automaton extracted from ParseTokenParam equals the reviewed reference table (ref/ParseTokenParam.txt): for every state and byte class the next state or exit, the verdict set, the field actions with their arguments (locals other than the scan index abstracted) and the returned offset; a transition that loses an action, changes target, verdict or byte class shows up as a missing and an extra row", func(c *Ctx) { fsmRefRule(c, "L7", "ParseTokenParam") }},
			{"L8", "the parameter-list wrappers read the parameter just parsed (its name for URIParamResolve, its type for the Types summary) before the overflow slot it may live in is Reset(): no read through the slot pointer follows the recycling in the same iteration", ruleL8},
			{"L6", "stepping back to the separator: where a branch chooses between returning X-1 (the separator before the token just seen) and X with the same verdict, the X arm is taken only when the dominating facts entail X <= offs — the returned offset is the separator whenever the separator lies inside this call's region", ruleL6},
			{"L5", "buffer exhaustion gives more-bytes in every state without the end-of-input option; with it, every state has a finalisation (open name/value closed, open quote stays more-bytes)", ruleL5},
		},
		Assumptions: []string{"skipLWS consumes only SP/HT/CR/LF sequences (C07-T4, C03)"},
		NotDecided:  "name/value extents, trimming and that the returned offset is the terminator's, as values",
	})
}
