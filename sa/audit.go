package main

import (
	"fmt"
	"os"
	"os/exec"
	"path/filepath"
	"sort"
	"strings"
	"sync"
)

// selfAudit (thorough tier): audits the *checker*, not sipsp. Every catalogued breaking change for the
// property (hand-written mutants under sa/mutants/<id>, independently seeded changes under seeded/<id>-*)
// is applied to a scratch copy of the repository outside /repo and /verif and must be reported; every
// behaviour-preserving rewrite under sa/neutral must leave the check silent. Nothing of sipsp is executed.
type auditResult struct {
	Patch  string `json:"patch"`
	Kind   string `json:"kind"` // mutant | seed | neutral
	Status string `json:"status"`
	Report string `json:"report,omitempty"`
}

func selfAudit(prop, repo string) []auditResult {
	verif := "/verif"
	var jobs []auditResult
	add := func(glob, kind string) {
		ms, _ := filepath.Glob(glob)
		sort.Strings(ms)
		for _, m := range ms {
			jobs = append(jobs, auditResult{Patch: m, Kind: kind})
		}
	}
	add(filepath.Join(verif, "sa/mutants", prop, "*.patch"), "mutant")
	if prop == "C02" {
		add(filepath.Join(verif, "sa/mutants", "C01", "*.patch"), "mutant") // C01 and C02 share their rules
	}
	add(filepath.Join(verif, "seeded", prop+"-*", "patch.diff"), "seed")
	add(filepath.Join(verif, "sa/neutral", "*.patch"), "neutral")
	self, _ := os.Executable()
	sem := make(chan struct{}, 6)
	var wg sync.WaitGroup
	for i := range jobs {
		wg.Add(1)
		go func(j *auditResult) {
			defer wg.Done()
			sem <- struct{}{}
			defer func() { <-sem }()
			dir, err := os.MkdirTemp("", "sipsp-audit-")
			if err != nil {
				j.Status = "error: " + err.Error()
				return
			}
			defer os.RemoveAll(dir)
			if out, err := exec.Command("rsync", "-a", "--exclude", ".git", repo+"/", dir+"/").CombinedOutput(); err != nil {
				j.Status = "error: copy: " + string(out)
				return
			}
			cmd := exec.Command("patch", "-s", "-p1", "-i", j.Patch)
			cmd.Dir = dir
			if out, err := cmd.CombinedOutput(); err != nil {
				j.Status = "stale (patch does not apply): " + strings.TrimSpace(string(out))
				return
			}
			props := []string{prop}
			if j.Kind == "seed" {
				// a seed written for this property may be caught by the check of a sibling property
				if b, err := os.ReadFile(filepath.Join(filepath.Dir(j.Patch), "meta.json")); err == nil {
					for _, q := range []string{"C01", "C03", "C04", "C05", "C06", "C07", "C08", "C09", "C10", "C12", "C13", "C14", "C16", "C18"} {
						if q != prop && strings.Contains(string(b), `"`+q+`": {`) {
							props = append(props, q)
						}
					}
				}
			}
			caughtBy := ""
			report := ""
			for _, q := range props {
				out, _ := exec.Command(self, "check", q, "--repo", dir, "--no-evidence", "--tier", "quick").CombinedOutput()
				if strings.Contains(string(out), "VIOLATION property="+q) {
					caughtBy = q
					for _, l := range strings.Split(string(out), "\n") {
						if strings.HasPrefix(l, "FAIL") {
							report = l
							if len(report) > 220 {
								report = report[:220]
							}
							break
						}
					}
					break
				}
			}
			switch {
			case j.Kind == "neutral" && caughtBy == "":
				j.Status = "silent"
			case j.Kind == "neutral":
				j.Status = "FALSE ALARM"
				j.Report = report
			case caughtBy == prop:
				j.Status = "caught"
				j.Report = report
			case caughtBy != "":
				j.Status = "caught by " + caughtBy
				j.Report = report
			default:
				j.Status = "MISSED"
			}
		}(&jobs[i])
	}
	wg.Wait()
	return jobs
}

func summariseAudit(rs []auditResult) (string, map[string]interface{}) {
	n := map[string]int{}
	var missed, alarms []string
	for _, r := range rs {
		n[r.Kind]++
		switch {
		case strings.HasPrefix(r.Status, "caught"):
			n[r.Kind+":caught"]++
		case r.Status == "silent":
			n["neutral:silent"]++
		case r.Status == "MISSED":
			missed = append(missed, strings.TrimPrefix(r.Patch, "/verif/"))
		case r.Status == "FALSE ALARM":
			alarms = append(alarms, strings.TrimPrefix(r.Patch, "/verif/"))
		}
	}
	s := fmt.Sprintf("self-audit: mutants caught %d/%d, independent seeds caught %d/%d, neutral rewrites silent %d/%d",
		n["mutant:caught"], n["mutant"], n["seed:caught"], n["seed"], n["neutral:silent"], n["neutral"])
	if len(missed) > 0 {
		s += fmt.Sprintf("; missed: %v", missed)
	}
	if len(alarms) > 0 {
		s += fmt.Sprintf("; false alarms: %v", alarms)
	}
	return s, map[string]interface{}{"summary": s, "results": rs, "missed": missed, "false_alarms": alarms}
}
