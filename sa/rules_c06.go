package main

import (
	"golang.org/x/tools/go/ssa"
	"go/types"
	"fmt"
	"go/token"
	"sort"
	"strings"
)

// F1: decision table of the body section of ParseSIPMsg.
func ruleF1(c *Ctx) {
	fn := c.SFuncs["ParseSIPMsg"]
	if fn == nil {
		c.fail("F1", "ParseSIPMsg", token.NoPos, "not found")
		return
	}
	e := newErrAnalysis(c.Prog)
	body, _ := c.namedConstInt("SIPMsgBody")
	fin, _ := c.namedConstInt("SIPMsgFIN")
	nocl, _ := c.namedConstInt("SIPMsgNoCLen")
	spec := fsmSpec{fn: fn, stateFld: "state", constName: stateConstsOf(c, "ParseSIPMsg", "SIPMsg")}
	paths := enumPaths(c, e, spec, body)
	f := func(n string) int64 { v, _ := c.namedConstInt(n); return v }
	skip, req, nomore := f("SIPMsgSkipBodyF"), f("SIPMsgCLenReqF"), f("SIPMsgNoMoreDataF")
	mb, ncl := f("ErrHdrMoreBytes"), f("ErrHdrNoCLen")
	c.check(len(paths) >= 7 && len(paths) <= 12, "F1", "paths", fn.Pos(), fmt.Sprintf("%d paths through the body section", len(paths)))
	seenRows := map[string]bool{}
	for _, t := range paths {
		pred := map[string]int{} // 1 true, -1 false
		okParse := true
		for _, cd := range t.Conds {
			v := 1
			if strings.HasPrefix(cd, "!") {
				v = -1
				cd = cd[1:]
			}
			var m int64
			switch {
			case strings.Contains(cd, "Parsed()"):
				pred["parsed"] = v
			case strings.Contains(cd, ">+len(buf)"):
				if cd != "+msg.PV.CLen.UIVal+o>+len(buf)" && cd != "+msg.PV.CLen.UIVal+offs>+len(buf)" {
					okParse = false
				}
				pred["short"] = v
			default:
				if _, err := fmt.Sscanf(cd, "+(flags&%d)!=+0", &m); err == nil {
					switch m {
					case skip:
						pred["skip"] = v
					case req:
						pred["req"] = v
					case nomore:
						pred["nomore"] = v
					default:
						okParse = false
					}
				} else {
					okParse = false
				}
			}
		}
		var ks []string
		for k, v := range pred {
			ks = append(ks, fmt.Sprintf("%s=%d", k, (v+1)/2))
		}
		sort.Strings(ks)
		key := strings.Join(ks, ",")
		if !okParse {
			c.fail("F1", "row:"+key, t.RetPos, "unrecognised predicate on a body-section path (undecided): "+strings.Join(t.Conds, " && "))
			continue
		}
		// expected outcome from the property
		var wantVerd int64
		wantOffs, wantState := "+offs", fin
		switch {
		case pred["skip"] == 1 && pred["req"] == 1 && pred["parsed"] == -1:
			wantVerd, wantState = ncl, nocl
		case pred["skip"] == 1:
		case pred["parsed"] == 1 && pred["short"] == -1:
			wantOffs = "+msg.PV.CLen.UIVal+offs"
		case pred["parsed"] == 1 && pred["short"] == 1 && pred["nomore"] == -1:
			wantVerd, wantState = mb, body
		case pred["parsed"] == 1 && pred["short"] == 1 && pred["nomore"] == 1:
			wantOffs = "+len(buf)"
		case pred["parsed"] == -1 && pred["req"] == 1:
		case pred["parsed"] == -1 && pred["req"] == -1:
			wantOffs = "+len(buf)"
		default:
			c.fail("F1", "row:"+key, t.RetPos, "path predicates do not match any row of the documented table")
			continue
		}
		seenRows[key] = true
		got := t.RetOffs
		c.check(t.Verd.only(wantVerd) && got == wantOffs && t.To == wantState, "F1", "row:"+key, t.RetPos,
			fmt.Sprintf("verdict %s offset %s state %s (want verdict %d offset %s state %s)", e.setName("ErrorHdr", t.Verd), got, spec.constName[t.To], wantVerd, wantOffs, spec.constName[wantState]))
		// views: Body.Set(o,o) first; on success Body.Extend(ret), Buf = buf[0:ret], RawMsg = Buf[msg.offs:ret]
		if t.Verd.only(0) {
			okBody := (t.has("Body.Set(+offs,+offs)") || t.has("Body.Set(+o,+o)")) && (t.has("Body.Extend("+got+")") || t.has("Body.Extend(+o)"))
			c.check(okBody, "V1", "body:"+key, t.RetPos, "the body starts where the headers ended and is extended to the returned offset")
		}
	}
	c.check(len(seenRows) >= 7, "F1", "rows", fn.Pos(), fmt.Sprintf("%d distinct rows of the documented table matched", len(seenRows)))
}

// F2: guard/use agreement for the Content-Length arithmetic (SSA linear forms).
func ruleF2(c *Ctx) {
	fn := c.SFuncs["ParseSIPMsg"]
	if fn == nil {
		c.fail("F2", "ParseSIPMsg", token.NoPos, "not found")
		return
	}
	e := newErrAnalysis(c.Prog)
	env := newLinEnv(linOpts{pathLoads: true})
	exh, _ := exhaustionEdges(fn, env)
	_ = e
	n := 0
	for _, ed := range exh {
		if ed.fact.L.isConst() {
			continue
		}
		n++
		// need more iff hdrEnd + clen > len(buf): fact len - (o+clen) + 1 <= 0 on the exhaustion edge
		s := env.pretty(ed.fact.L)
		c.check(s == "+len(buf)-msg.PV.CLen.UIVal-o+1", "F2", "guard", token.NoPos, "more bytes are needed exactly when bodyStart + Content-Length > len(buf) (strict): "+s+" <= 0")
	}
	c.check(n == 1, "F2", "guard-count", fn.Pos(), fmt.Sprintf("%d length guard(s) in ParseSIPMsg", n))
}

// F3/F4: Content-Length bounded before use; pipelining facts.
func ruleF3(c *Ctx) {
	t := &Ctx{Prog: c.Prog, Prop: c.Prop}
	ruleR(t)
	for _, o := range t.obls {
		if strings.Contains(o.Key, "CLen") || strings.Contains(o.Key, "Clen") || strings.Contains(o.Key, "clen") {
			o.Rule = "F3"
			o.Key = "F3:" + strings.TrimPrefix(o.Key, "R:")
			c.obls = append(c.obls, o)
		}
	}
	c.expectMin("F3", 4)
}

func ruleF4(c *Ctx) {
	fn := c.SFuncs["ParseSIPMsg"]
	if fn == nil {
		c.fail("F4", "ParseSIPMsg", token.NoPos, "not found")
		return
	}
	// who-writes msg.offs: only in ParseSIPMsg, only from the offs parameter, only in the Init state
	e := newErrAnalysis(c.Prog)
	nst := 0
	for k, f := range c.SFuncs {
		for _, b := range f.Blocks {
			for _, ins := range b.Instrs {
				st, ok := ins.(*ssa_Store)
				if !ok {
					continue
				}
				fa, ok := st.Addr.(*ssa_FieldAddr)
				if !ok || fieldCell(fa) != "SIPMsgIState.offs" {
					continue
				}
				nst++
				c.check(k == "ParseSIPMsg" && st.Val == ssa_Value(fn.Params[1]), "F4", "msg.offs:writer:"+k, st.Pos(), "the message start offset is stored only by ParseSIPMsg, from its offs parameter")
			}
		}
	}
	c.check(nst == 1, "F4", "msg.offs:stores", fn.Pos(), fmt.Sprintf("%d store(s) to the message start offset (whole-struct wipes in Reset aside)", nst))
	spec := fsmSpec{fn: fn, stateFld: "state", constName: stateConstsOf(c, "ParseSIPMsg", "SIPMsg")}
	initS, _ := c.namedConstInt("SIPMsgInit")
	for _, st := range []string{"SIPMsgFLine", "SIPMsgHeaders", "SIPMsgBody"} {
		v, _ := c.namedConstInt(st)
		for _, t := range enumPaths(c, e, spec, v) {
			for _, s := range t.Stores {
				if strings.HasPrefix(s, "SIPMsgIState.offs=") {
					c.fail("F4", "msg.offs:resume:"+st, t.RetPos, "the start offset is overwritten when the parse is resumed in state "+st)
				}
			}
		}
	}
	okInit := false
	for _, t := range enumPaths(c, e, spec, initS) {
		for _, s := range t.Stores {
			if s == "SIPMsgIState.offs=+offs" {
				okInit = true
			}
		}
	}
	c.check(okInit, "F4", "msg.offs:init", fn.Pos(), "a fresh parse (state Init) records its start offset")
	// RawMsg = Buf[msg.offs : ret], Buf = buf[0:ret] on every success / NoCLen return
	body, _ := c.namedConstInt("SIPMsgBody")
	for _, t := range enumPaths(c, e, spec, body) {
		if !(t.Verd.only(0) || t.Verd.only(14)) {
			continue
		}
		key := strings.Join(t.Conds, "&")
		okBuf, okRaw := false, false
		for _, s := range t.Stores {
			if strings.HasPrefix(s, "Buf=") {
				okBuf = true
			}
			if strings.HasPrefix(s, "RawMsg=") {
				okRaw = true
			}
		}
		c.check(okBuf && okRaw, "V1", "views:"+key, t.RetPos, "Buf and RawMsg are (re)assigned on this definitive return")
	}
	// the slices themselves: Buf = buf[0:o], RawMsg = Buf[msg.offs:o] with o the returned value (SSA identity)
	for _, b := range fn.Blocks {
		ret, ok := b.Instrs[len(b.Instrs)-1].(*ssa_Return)
		if !ok {
			continue
		}
		for _, ins := range b.Instrs {
			sl, ok := ins.(*ssa_Slice)
			if !ok {
				continue
			}
			le := newLinEnv(linOpts{pathLoads: true})
			hi := le.pretty(le.norm(sl.High))
			rv := le.pretty(le.norm(ret.Results[0]))
			lo := "0"
			if sl.Low != nil {
				lo = le.pretty(le.norm(sl.Low))
			}
			name := operandName(sl.X)
			c.check(hi == rv && (lo == "+0" || lo == "0" || lo == "+msg.SIPMsgIState.offs"), "V1", fmt.Sprintf("slice:%s[%s:%s]", name, lo, hi), sl.Pos(),
				"the view ends at the returned offset and starts at 0 (Buf) or at the saved message start (RawMsg)")
		}
	}
	// Reset completeness of the whole message is C12; referenced here for pipelining
	t := &Ctx{Prog: c.Prog, Prop: c.Prop}
	ruleZ3(t)
	for _, o := range t.obls {
		o.Rule = "F4"
		o.Key = "F4:" + strings.TrimPrefix(o.Key, "Z3:")
		c.obls = append(c.obls, o)
	}
}

// F5: shared with C01/C02 rule R3b.
func ruleF5(c *Ctx) {
	t := &Ctx{Prog: c.Prog, Prop: c.Prop}
	ruleR3b(t)
	for _, o := range t.obls {
		o.Key = "F5:" + strings.TrimPrefix(o.Key, "R3b:")
		o.Rule = "F5"
		c.obls = append(c.obls, o)
	}
	c.expectMin("F5", 4)
}


// F7: one store per header. The typed-value accessors of a holder type (PHdrVals.GetCLen, GetExpires, GetFrom, GetTo,
// ...: methods without parameters that return the address of a field of the receiver) are injective: no two of them
// hand out the same field. If Expires and Content-Length shared one store, an Expires header would become the
// declared body length (and the other way round).
func ruleF7(c *Ctx) {
	type acc struct {
		key, path string
		pos       token.Pos
	}
	byType := map[string][]acc{}
	var keys []string
	for k := range c.Prog.SFuncs {
		keys = append(keys, k)
	}
	sort.Strings(keys)
	n := 0
	for _, k := range keys {
		fn := c.Prog.SFuncs[k]
		if fn == nil || fn.Signature.Recv() == nil || fn.Signature.Params().Len() != 0 || fn.Signature.Results().Len() != 1 || len(fn.Blocks) != 1 {
			continue
		}
		if _, isPtr := fn.Signature.Results().At(0).Type().Underlying().(*types.Pointer); !isPtr {
			continue
		}
		ret, ok := fn.Blocks[0].Instrs[len(fn.Blocks[0].Instrs)-1].(*ssa.Return)
		if !ok || len(ret.Results) != 1 {
			continue
		}
		fa, ok := ret.Results[0].(*ssa.FieldAddr)
		if !ok || len(fn.Params) == 0 || !derivesFrom(fa, fn.Params[0]) {
			continue
		}
		pth := addrPath(fa)
		if i := strings.Index(pth, "."); i >= 0 {
			pth = pth[i+1:]
		}
		tn := strings.TrimPrefix(fn.Signature.Recv().Type().String(), "*")
		byType[tn] = append(byType[tn], acc{k, pth, fn.Pos()})
	}
	var tns []string
	for tn := range byType {
		tns = append(tns, tn)
	}
	sort.Strings(tns)
	for _, tn := range tns {
		as := byType[tn]
		seen := map[string]string{}
		for _, a := range as {
			n++
			other, dup := seen[a.path]
			c.check(!dup, "F7", a.key+":own-field", a.pos, fmt.Sprintf("accessor %s returns &recv.%s, which no other accessor of the type returns (also returned by %s)", a.key, a.path, other))
			if !dup {
				seen[a.path] = a.key
			}
		}
	}
	c.check(n >= 8, "F7", "instances", token.NoPos, fmt.Sprintf("%d field-address accessors (frozen minimum 8)", n))
}

func init() {
	register(&PropDef{
		ID: "C06",
		Rules: []Rule{
			{"F1", "decision table of the body section of ParseSIPMsg: every path (enumerated with the state fixed to Body) is labelled with its predicates (SkipBody, CLenReq, NoMoreData, CLen.Parsed(), start+CLen > len(buf)), verdict, returned offset as a linear form and final state, and must equal the row the property states; unknown predicates fail", ruleF1},
			{"F2", "guard/use agreement: more bytes are needed exactly when bodyStart + Content-Length > len(buf) (strict), the same linear expression that is returned on success", ruleF2},
			{"F3", "Content-Length is bounded (9 digits, 2^24) before it is used as an offset, and its body object is parsed only by ParseCLenVal", ruleF3},
			{"F6", "the per-state path table of ParseSIPMsg (for every state every path to a return: verdict set, returned offset, state left in the object, field actions; variables abstracted, conditions merged) equals the reviewed reference table committed under sa/ref/", func(c *Ctx) { pathRefRule(c, "F6", "ParseSIPMsg", "SIPMsg") }},
			{"F5", "the Content-Length header is always handed to its typed parser (shared with C01-R3b): the dispatch state of ParseHdrLine is never left undispatched and the dispatcher reports a non-zero verdict only after storing a typed state, so a cut after the colon cannot turn Content-Length into a generic header and lose the body length", ruleF5},
			{"F7", "one store per header: the typed-value accessors (parameterless methods returning the address of a receiver field: PHdrVals.GetCLen, GetExpires, GetFrom, GetTo, ...) are injective per holder type, so Content-Length is never stored in, or read from, the object of another header", ruleF7},
			{"F8", "where the body starts: the decision table of the empty line in ParseHdrLine (shared with C07-T7) — CR LF ends the header block at index+2, a lone CR at index+1 once the next byte is there, a lone LF at index+1 at once without look-ahead — so a message whose blank line is the last byte of the buffer is complete", func(c *Ctx) {
				t := &Ctx{Prog: c.Prog, Prop: c.Prop}
				ruleT7(t)
				for _, o := range t.obls {
					o.Key = "F8:" + strings.TrimPrefix(o.Key, "T7:")
					o.Rule = "F8"
					c.obls = append(c.obls, o)
				}
				c.expectMin("F8", 4)
			}},
			{"F4", "pipelining: the message start offset is written once, in state Init, from the offs parameter, never on resume; views Buf/RawMsg end at the returned offset; PSIPMsg.Reset composition (C12-Z3)", ruleF4},
		},
		Assumptions: []string{"ParseHeaders returns the offset after the blank line (C07)"},
		NotDecided:  "that ParseHeaders stops at the right blank line, i.e. that the body start itself is right",
	})
}
