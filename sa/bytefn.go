package main

import (
	"go/token"

	"golang.org/x/tools/go/ssa"
)

// byteDecision: for a function f(c byte, ...) bool, the exact partition of c over its boolean result,
// per combination of the non-byte conditions it tests (flags).
type byteOutcome struct {
	Bytes  *ByteSet
	Conds  []string
	Result string // "true" / "false" / other constant
}

func byteDecision(c *Ctx, fn *ssa.Function) []byteOutcome {
	if len(fn.Params) == 0 {
		return nil
	}
	bv := ssa.Value(fn.Params[0])
	var out []byteOutcome
	var walk func(b, prev *ssa.BasicBlock, bs *ByteSet, conds []string, depth int)
	is := func(o ssa.Value) bool { return o == bv }
	emit := func(v ssa.Value, at, prev *ssa.BasicBlock, bs *ByteSet, conds []string) {
		// resolve a returned phi by the predecessor we came from
		for i := 0; i < 4; i++ {
			ph, ok := v.(*ssa.Phi)
			if !ok || prev == nil {
				break
			}
			for j, p := range ph.Block().Preds {
				if p == prev {
					v = ph.Edges[j]
				}
			}
			break
		}
		if k, ok := v.(*ssa.Const); ok {
			out = append(out, byteOutcome{bs, conds, k.Value.String()})
			return
		}
		if bo, ok := v.(*ssa.BinOp); ok && (bo.X == bv || bo.Y == bv) {
			ts := refineByCond(bs, bo, true, is)
			fs := refineByCond(bs, bo, false, is)
			if ts.count()+fs.count() == bs.count() {
				if !ts.empty() {
					out = append(out, byteOutcome{ts, conds, "true"})
				}
				if !fs.empty() {
					out = append(out, byteOutcome{fs, conds, "false"})
				}
				return
			}
		}
		out = append(out, byteOutcome{bs, conds, "?"})
	}
	walk = func(b, prev *ssa.BasicBlock, bs *ByteSet, conds []string, depth int) {
		if depth > 200 {
			return
		}
		switch t := b.Instrs[len(b.Instrs)-1].(type) {
		case *ssa.Return:
			emit(t.Results[0], b, prev, bs, conds)
		case *ssa.If:
			if bo, ok := t.Cond.(*ssa.BinOp); ok && (bo.X == bv || bo.Y == bv) {
				ts := refineByCond(bs, bo, true, is)
				fs := refineByCond(bs, bo, false, is)
				if !ts.empty() {
					walk(b.Succs[0], b, ts, conds, depth+1)
				}
				if !fs.empty() {
					walk(b.Succs[1], b, fs, conds, depth+1)
				}
				return
			}
			l := condLabel(c, t.Cond)
			walk(b.Succs[0], b, bs, append(append([]string{}, conds...), l), depth+1)
			walk(b.Succs[1], b, bs, append(append([]string{}, conds...), "!"+l), depth+1)
		default:
			for _, s := range b.Succs {
				walk(s, b, bs, conds, depth+1)
			}
		}
	}
	walk(fn.Blocks[0], nil, fullSet(), nil, 0)
	return out
}

func setOfString(s string) *ByteSet {
	bs := emptySet()
	for i := 0; i < len(s); i++ {
		bs.b.SetBit(&bs.b, int(s[i]), 1)
	}
	return bs
}

var _ = token.NoPos
