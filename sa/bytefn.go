package main

import (
	"go/token"

	"golang.org/x/tools/go/ssa"
)

// byteDecision: for a function f(c byte, ...) bool, the exact partition of c over its boolean result,
// per combination of the non-byte conditions it tests (flags).
type byteOutcome struct {
	Bytes  *ByteSet
	Conds  []string
	Result string // "true" / "false" / other constant
}

func byteDecision(c *Ctx, fn *ssa.Function) []byteOutcome {
	if len(fn.Params) == 0 {
		return nil
	}
	bv := ssa.Value(fn.Params[0])
	var out []byteOutcome
	var walk func(b, prev *ssa.BasicBlock, bs *ByteSet, conds []string, depth int)
	phiVal := map[*ssa.Phi]ssa.Value{} // value of each phi on the path being walked (set on block entry, restored on the way back)
	is := func(o ssa.Value) bool { return o == bv }
	emit := func(v ssa.Value, at, prev *ssa.BasicBlock, bs *ByteSet, conds []string) {
		// resolve a returned phi by the predecessor we came from
		for i := 0; i < 4; i++ {
			ph, ok := v.(*ssa.Phi)
			if !ok {
				break
			}
			if r, ok := phiVal[ph]; ok {
				v = r
				continue
			}
			if prev == nil {
				break
			}
			for j, p := range ph.Block().Preds {
				if p == prev {
					v = ph.Edges[j]
				}
			}
			break
		}
		if k, ok := v.(*ssa.Const); ok {
			out = append(out, byteOutcome{bs, conds, k.Value.String()})
			return
		}
		if bo, ok := v.(*ssa.BinOp); ok && (bo.X == bv || bo.Y == bv) {
			ts := refineByCond(bs, bo, true, is)
			fs := refineByCond(bs, bo, false, is)
			if ts.count()+fs.count() == bs.count() {
				if !ts.empty() {
					out = append(out, byteOutcome{ts, conds, "true"})
				}
				if !fs.empty() {
					out = append(out, byteOutcome{fs, conds, "false"})
				}
				return
			}
		}
		// a returned test that does not involve the byte (an option flag): one outcome per truth value
		if bo, ok := v.(*ssa.BinOp); ok && (bo.Op == token.NEQ || bo.Op == token.EQL) && bo.X != bv && bo.Y != bv {
			l, pos := flagLabel(c, bo)
			tl, fl := l, "!"+l
			if !pos {
				tl, fl = fl, tl
			}
			out = append(out, byteOutcome{bs, append(append([]string{}, conds...), tl), "true"})
			out = append(out, byteOutcome{bs, append(append([]string{}, conds...), fl), "false"})
			return
		}
		out = append(out, byteOutcome{bs, conds, "?"})
	}
	walk = func(b, prev *ssa.BasicBlock, bs *ByteSet, conds []string, depth int) {
		if depth > 200 {
			return
		}
		// phis of b take the value of the edge we came in on
		if prev != nil {
			type saved struct {
				ph  *ssa.Phi
				old ssa.Value
				had bool
			}
			var undo []saved
			for j, p := range b.Preds {
				if p != prev {
					continue
				}
				for _, ins := range b.Instrs {
					ph, ok := ins.(*ssa.Phi)
					if !ok {
						break
					}
					v := ph.Edges[j]
					if p2, ok := v.(*ssa.Phi); ok {
						if r, ok := phiVal[p2]; ok {
							v = r
						}
					}
					old, had := phiVal[ph]
					undo = append(undo, saved{ph, old, had})
					phiVal[ph] = v
				}
				break
			}
			defer func() {
				for _, u := range undo {
					if u.had {
						phiVal[u.ph] = u.old
					} else {
						delete(phiVal, u.ph)
					}
				}
			}()
		}
		switch t := b.Instrs[len(b.Instrs)-1].(type) {
		case *ssa.Return:
			emit(t.Results[0], b, prev, bs, conds)
		case *ssa.If:
			// a short-circuit condition used as a value (`case a || b:`): the boolean phi is resolved by the
			// edge this path came in on
			cond := t.Cond
			for i := 0; i < 4; i++ {
				ph, ok := cond.(*ssa.Phi)
				if !ok {
					break
				}
				r, ok := phiVal[ph]
				if !ok {
					break
				}
				cond = r
			}
			if k, ok := cond.(*ssa.Const); ok && k.Value != nil {
				if k.Value.String() == "true" {
					walk(b.Succs[0], b, bs, conds, depth+1)
				} else {
					walk(b.Succs[1], b, bs, conds, depth+1)
				}
				return
			}
			if bo, ok := cond.(*ssa.BinOp); ok && (bo.X == bv || bo.Y == bv) {
				ts := refineByCond(bs, bo, true, is)
				fs := refineByCond(bs, bo, false, is)
				if !ts.empty() {
					walk(b.Succs[0], b, ts, conds, depth+1)
				}
				if !fs.empty() {
					walk(b.Succs[1], b, fs, conds, depth+1)
				}
				return
			}
			l, pos := condLabel(c, cond), true
			if bo, ok := cond.(*ssa.BinOp); ok {
				l, pos = flagLabel(c, bo)
			}
			tl, fl := l, "!"+l
			if !pos {
				tl, fl = fl, tl
			}
			walk(b.Succs[0], b, bs, append(append([]string{}, conds...), tl), depth+1)
			walk(b.Succs[1], b, bs, append(append([]string{}, conds...), fl), depth+1)
		default:
			for _, s := range b.Succs {
				walk(s, b, bs, conds, depth+1)
			}
		}
	}
	walk(fn.Blocks[0], nil, fullSet(), nil, 0)
	return out
}

// flagLabel: canonical label of a test x != k / x == k: always the "!=" spelling, with the polarity of the test.
func flagLabel(c *Ctx, bo *ssa.BinOp) (string, bool) {
	if bo.Op == token.EQL {
		le := newLinEnv(linOpts{pathLoads: true})
		return le.pretty(le.norm(bo.X)) + "!=" + le.pretty(le.norm(bo.Y)), false
	}
	return condLabel(c, bo), true
}

func setOfString(s string) *ByteSet {
	bs := emptySet()
	for i := 0; i < len(s); i++ {
		bs.b.SetBit(&bs.b, int(s[i]), 1)
	}
	return bs
}

var _ = token.NoPos
