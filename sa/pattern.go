package main

import (
	"strings"
	"unicode"
)

// Source patterns that are neutral to renaming of locals and parameters:
// in a pattern, @a, @b, ... stand for "some identifier", bound consistently.
// Whitespace is ignored. Field, function and constant names stay literal.

func tokenize(s string) []string {
	var out []string
	i := 0
	for i < len(s) {
		ch := rune(s[i])
		switch {
		case unicode.IsSpace(ch):
			i++
		case ch == '@':
			j := i + 1
			for j < len(s) && (unicode.IsLetter(rune(s[j])) || unicode.IsDigit(rune(s[j]))) {
				j++
			}
			out = append(out, s[i:j])
			i = j
		case unicode.IsLetter(ch) || ch == '_':
			j := i
			for j < len(s) && (unicode.IsLetter(rune(s[j])) || unicode.IsDigit(rune(s[j])) || s[j] == '_') {
				j++
			}
			out = append(out, s[i:j])
			i = j
		case unicode.IsDigit(ch):
			j := i
			for j < len(s) && (unicode.IsLetter(rune(s[j])) || unicode.IsDigit(rune(s[j]))) {
				j++
			}
			out = append(out, s[i:j])
			i = j
		default:
			out = append(out, s[i:i+1])
			i++
		}
	}
	// spelling-neutral increments: `x += 1` and `x -= 1` read as `x++` / `x--`
	var norm []string
	for k := 0; k < len(out); k++ {
		if k+2 < len(out) && (out[k] == "+" || out[k] == "-") && out[k+1] == "=" && out[k+2] == "1" && (k+3 >= len(out) || out[k+3] != ".") {
			norm = append(norm, out[k], out[k])
			k += 2
			continue
		}
		norm = append(norm, out[k])
	}
	return norm
}

func isIdentTok(t string) bool {
	return t != "" && (unicode.IsLetter(rune(t[0])) || t[0] == '_')
}

func matchAt(src, pat []string, at int, bind map[string]string) bool {
	if at+len(pat) > len(src) {
		return false
	}
	for i, p := range pat {
		s := src[at+i]
		if strings.HasPrefix(p, "@") {
			if !isIdentTok(s) {
				return false
			}
			// an identifier that follows a '.' is a field/method name: placeholders bind variables only
			if at+i > 0 && src[at+i-1] == "." {
				return false
			}
			if b, ok := bind[p]; ok {
				if b != s {
					return false
				}
			} else {
				bind[p] = s
			}
			continue
		}
		if p != s {
			return false
		}
	}
	return true
}

// patEq: src matches pat entirely.
func patEq(src, pat string) bool {
	s, p := tokenize(src), tokenize(pat)
	return len(s) == len(p) && matchAt(s, p, 0, map[string]string{})
}

// patIn: pat occurs somewhere in src (each occurrence binds independently).
func patIn(src, pat string) bool {
	s, p := tokenize(src), tokenize(pat)
	for at := 0; at+len(p) <= len(s); at++ {
		if matchAt(s, p, at, map[string]string{}) {
			return true
		}
	}
	return false
}

// patInAll: all patterns occur in src with one consistent binding.
func patInAll(src string, pats ...string) bool {
	s := tokenize(src)
	var rec func(k int, bind map[string]string) bool
	rec = func(k int, bind map[string]string) bool {
		if k == len(pats) {
			return true
		}
		p := tokenize(pats[k])
		for at := 0; at+len(p) <= len(s); at++ {
			nb := map[string]string{}
			for a, b := range bind {
				nb[a] = b
			}
			if matchAt(s, p, at, nb) && rec(k+1, nb) {
				return true
			}
		}
		return false
	}
	return rec(0, map[string]string{})
}
