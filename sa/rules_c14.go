package main

import (
	"fmt"
	"go/ast"
	"go/token"
	"regexp"
	"sort"
	"strings"

	"golang.org/x/tools/go/ssa"
)

var fsmCache = map[string]*fsmResult{}

func fsmOf(c *Ctx, fn string) *fsmResult {
	key := c.Cfg + ":" + c.Dir + ":" + fn
	if r, ok := fsmCache[key]; ok {
		return r
	}
	spec, ok := fsmSpecFor(c, fn)
	if !ok {
		return nil
	}
	r := extractFSM(c, newErrAnalysis(c.Prog), spec)
	fsmCache[key] = r
	return r
}

func setCalls(t fsmTrans) []string {
	var out []string
	for _, cl := range t.Calls {
		if strings.Contains(cl, ".Set(") {
			out = append(out, cl)
		}
	}
	return out
}

// U1: component boundaries are contiguous up to exactly one delimiter.
func ruleU1(c *Ctx) {
	r := fsmOf(c, "ParseURI")
	if r == nil || r.head == nil || r.capped {
		c.fail("U1", "ParseURI:fsm", token.NoPos, "state machine could not be extracted")
		return
	}
	g := r.grouped(r.trans)
	c.check(len(r.states) >= 18 && len(g) >= 80, "U1", "fsm-size", token.NoPos, fmt.Sprintf("ParseURI automaton: %d states, %d grouped transitions", len(r.states), len(g)))
	// roles of the loop-carried locals, found structurally (neutral to renaming)
	iN, sN, accN, pwN, root := "", "", uriAccName(g), "", ""
	if iff, ok := r.head.Instrs[len(r.head.Instrs)-1].(*ssa.If); ok {
		if bo, ok := iff.Cond.(*ssa.BinOp); ok {
			if ph, ok := bo.X.(*ssa.Phi); ok {
				iN = phiName(ph)
			}
		}
	}
	cntS := map[string]int{}
	reSet := regexp.MustCompile(`\.Set\(\+([A-Za-z_]\w*),\+` + regexp.QuoteMeta(iN) + `\)$`)
	rePw := regexp.MustCompile(`^Pass\.Set\(\+([A-Za-z_]\w*)\+1,\+` + regexp.QuoteMeta(iN) + `\)$`)
	reRoot := regexp.MustCompile(`^User\.Set\(\+([A-Za-z_]\w*)\.Host\.Offs,`)
	for _, t := range g {
		for _, cl := range t.Calls {
			if m := reSet.FindStringSubmatch(cl); m != nil {
				cntS[m[1]]++
			}
			if m := rePw.FindStringSubmatch(cl); m != nil {
				pwN = m[1]
			}
			if m := reRoot.FindStringSubmatch(cl); m != nil {
				root = m[1]
			}
		}
	}
	for k, n := range cntS {
		if n > cntS[sN] {
			sN = k
		}
	}
	c.check(iN != "" && sN != "" && accN != "" && pwN != "" && root != "", "U1", "roles", token.NoPos,
		fmt.Sprintf("loop-carried locals identified by role: index %s, component start %s, port accumulator %s, password candidate %s, result object %s", iN, sN, accN, pwN, root))
	setSI := ".Set(+" + sN + ",+" + iN + ")"
	nclose := 0
	for _, t := range g {
		if t.Exit != "" {
			continue
		}
		sets := setCalls(t)
		if len(sets) == 0 {
			continue
		}
		key := fmt.Sprintf("%s:%s->%s", r.name(t.From), t.Bytes.String(), r.name(t.To))
		if len(t.Conds) > 0 {
			key += ":" + strings.Join(t.Conds, "&")
		}
		nclose++
		back := false
		for _, s := range sets {
			if strings.Contains(s, root+".Host.Offs") {
				back = true
			}
		}
		if back {
			// '@' after a ';' / '?' / ':' : the host-so-far becomes the user part
			hasPass := false
			for _, cd := range t.Conds {
				if strings.Contains(cd, pwN) && !strings.HasPrefix(cd, "!") {
					hasPass = true
				}
			}
			want := "User.Set(+" + root + ".Host.Offs,+" + iN + ")"
			if hasPass {
				want = "User.Set(+" + root + ".Host.Offs,+" + pwN + ") Pass.Set(+" + pwN + "+1,+" + iN + ")"
			}
			c.check(strings.Join(sets, " ") == want, "U1", "backtrack-sets:"+key, token.NoPos, "a late '@' rebuilds User/Pass from (Host.Offs, passOffs, passOffs+1, i): "+strings.Join(sets, " "))
			var resets []string
			for _, cl := range t.Calls {
				if strings.HasSuffix(cl, ".Reset") || strings.Contains(cl, ".Reset(") {
					resets = append(resets, strings.TrimSuffix(strings.Split(cl, ".")[0], "("))
				}
			}
			sort.Strings(resets)
			wantR := "Headers,Host,Params,Port"
			if !hasPass {
				wantR = "Headers,Host,Params,Pass,Port"
			}
			c.check(strings.Join(resets, ",") == wantR, "U1", "backtrack-resets:"+key, token.NoPos, fmt.Sprintf("every later component is reset when the parse restarts at the host (%v)", resets))
			okNo := false
			for _, st := range t.Stores {
				if st == "PortNo=+0" {
					okNo = true
				}
			}
			c.check(okNo && t.Locals[accN] == "+0", "U1", "backtrack-port:"+key, token.NoPos, "the numeric port and its accumulator restart at 0 (PortNo store: "+strings.Join(t.Stores, ",")+", accumulator: "+t.Locals[accN]+")")
			c.check(t.Locals[sN] == "+"+iN+"+1" && r.name(t.To) == "uHost0", "U1", "backtrack-next:"+key, token.NoPos, "the host starts right after the '@'")
			continue
		}
		// ordinary closing transition: X.Set(s, i) at the delimiter, next component starts at i+1
		okSet := len(sets) == 1 && strings.HasSuffix(sets[0], setSI)
		c.check(okSet, "U1", "close:"+key, token.NoPos, "the component is closed exactly at the delimiter: "+strings.Join(sets, " "))
		c.check(t.Locals[sN] == "+"+iN+"+1", "U1", "next:"+key, token.NoPos, "the next component starts one past the delimiter (start = "+t.Locals[sN]+")")
	}
	c.check(nclose >= 20, "U1", "close-count", token.NoPos, fmt.Sprintf("%d component-closing transitions checked (frozen minimum 20)", nclose))
	// password candidate offset convention: every site that sets passOffs sets it to the ':' position
	npo := 0
	for _, t := range g {
		if v, ok := t.Locals[pwN]; ok && v != "=" && v != "+0" {
			npo++
			c.check(v == "+"+iN, "U1", fmt.Sprintf("passOffs:%s:%s", r.name(t.From), t.Bytes.String()), token.NoPos, "the password candidate offset is the position of the ':' at every site that records it ("+v+")")
		}
	}
	c.check(npo >= 3, "U1", "passOffs-sites", token.NoPos, fmt.Sprintf("%d sites record a password candidate", npo))
	// end of input: every state has a finalisation path; success paths close the open component with Set(s,i)
	pg := r.grouped(r.post)
	seenState := map[int64]bool{}
	for _, t := range pg {
		seenState[t.From] = true
		if !t.Verd.has(0) {
			continue
		}
		sets := setCalls(t)
		key := "eoi:" + r.name(t.From)
		if len(t.Conds) > 0 {
			key += ":" + strings.Join(t.Conds, "&")
		}
		c.check(len(sets) == 1 && strings.HasSuffix(sets[0], setSI), "U1", key, t.RetPos, "at end of input the open component is closed with Set(s, i) where i == len(uri): "+strings.Join(sets, " "))
	}
	for _, k := range r.states {
		c.check(seenState[k], "U1", "eoi-state:"+r.name(k), token.NoPos, "end-of-input switch handles state "+r.name(k))
	}
}

// U2: scheme table.
func ruleU2(c *Ctx) {
	fd := c.Decls["ParseURI"]
	if fd == nil {
		c.fail("U2", "ParseURI", token.NoPos, "not found")
		return
	}
	le := func(s string) int64 {
		return int64(s[0]) | int64(s[1])<<8 | int64(s[2])<<16 | int64(s[3])<<24
	}
	want := map[string]string{"SchSIP": "sip:", "SchSIPS": "sips", "SchTEL": "tel:"}
	got := 0
	ast.Inspect(fd.Body, func(n ast.Node) bool {
		vs, ok := n.(*ast.ValueSpec)
		if !ok {
			return true
		}
		for i, nm := range vs.Names {
			if w, ok := want[nm.Name]; ok && i < len(vs.Values) {
				v, _ := c.constInt(vs.Values[i])
				got++
				c.check(v == le(w), "U2", "const:"+nm.Name, vs.Pos(), fmt.Sprintf("%s == little-endian %q (%#x)", nm.Name, w, le(w)))
			}
		}
		return true
	})
	c.check(got == 3, "U2", "consts", fd.Pos(), "three scheme constants found")
	src := c.src(fd.Body)
	c.check(strings.Contains(src, "| 0x20202020"), "U2", "fold", fd.Pos(), "the first four bytes are case-folded (|0x20202020) before the scheme switch")
	c.check(patIn(src, "case SchSIPS: if @u[4] == ':' {"), "U2", "sips-colon", fd.Pos(), "sips additionally requires uri[4] == ':'")
	c.check(patIn(src, "if len(@u) < 5 { return ErrURITooShort, len(@u) }"), "U2", "min-len", fd.Pos(), "inputs shorter than 5 bytes are rejected before uri[4] can be read")
	// tel: the number is reported as the user with an empty host
	c.check(patIn(src, "if @p.URIType == TELuri { @p.User = @p.Host @p.Host.Reset() }"), "U2", "tel-swap", fd.Pos(), "for tel: the number is moved to User and Host is emptied")
}

// U3: the scheme-specific fix-up cannot be bypassed. Every success return of ParseURI is dominated by the test of
// the parsed scheme (the branch that moves a tel: number from the host to the user slot): an early success return
// from the end-of-input switch would report a tel: URI with its number in the wrong component.
func ruleU3(c *Ctx) {
	fn := c.SFuncs["ParseURI"]
	if fn == nil || len(fn.Params) < 2 {
		c.fail("U3", "ParseURI", token.NoPos, "not found")
		return
	}
	puri := fn.Params[1]
	var tests []*ssa.BasicBlock
	for _, b := range fn.Blocks {
		iff, ok := b.Instrs[len(b.Instrs)-1].(*ssa.If)
		if !ok {
			continue
		}
		bo, ok := iff.Cond.(*ssa.BinOp)
		if !ok || (bo.Op != token.EQL && bo.Op != token.NEQ) {
			continue
		}
		ld, ok := bo.X.(*ssa.UnOp)
		if !ok || ld.Op != token.MUL {
			continue
		}
		fa, ok := ld.X.(*ssa.FieldAddr)
		if !ok || fa.X != ssa.Value(puri) {
			continue
		}
		if _, isC := constIntOf(bo.Y); !isC {
			continue
		}
		if strings.HasSuffix(fa.X.Type().String(), "PsipURI") && strings.HasSuffix(ld.Type().String(), "URIScheme") {
			tests = append(tests, b)
		}
	}
	if len(tests) == 0 {
		c.fail("U3", "scheme-test", fn.Pos(), "no test of the parsed scheme found in ParseURI")
		return
	}
	n := 0
	for _, b := range fn.Blocks {
		r, ok := b.Instrs[len(b.Instrs)-1].(*ssa.Return)
		if !ok || len(r.Results) < 1 {
			continue
		}
		k, isC := constIntOf(r.Results[0])
		if !isC || k != 0 {
			continue
		}
		n++
		dom := false
		for _, t := range tests {
			if t.Dominates(b) {
				dom = true
			}
		}
		c.check(dom, "U3", "success-return#"+itoa(n), r.Pos(), "this success return is dominated by the test of the parsed scheme (tel: fix-up): no success path bypasses it")
	}
	c.check(n >= 1, "U3", "success-returns", fn.Pos(), fmt.Sprintf("%d success return(s) found", n))
}

// U4: ParseURI fills in what it finds and never clears what it does not find; it relies on a zeroed destination.
// Every call of ParseURI inside the package therefore hands it the address of a fresh local (an allocation with no
// store before the call) — never a caller-owned structure that may hold components of an earlier URI.
func ruleU4(c *Ctx) {
	target := c.SFuncs["ParseURI"]
	if target == nil {
		c.fail("U4", "ParseURI", token.NoPos, "not found")
		return
	}
	var names []string
	for k := range c.SFuncs {
		names = append(names, k)
	}
	sort.Strings(names)
	n := 0
	for _, k := range names {
		fn := c.SFuncs[k]
		cnt := 0
		for _, b := range fn.Blocks {
			for _, ins := range b.Instrs {
				call, ok := ins.(*ssa.Call)
				if !ok || call.Call.StaticCallee() != target || len(call.Call.Args) < 2 {
					continue
				}
				n++
				cnt++
				dst := call.Call.Args[1]
				al, isAlloc := dst.(*ssa.Alloc)
				fresh := isAlloc
				why := "the destination is not the address of a local variable"
				if isAlloc {
					why = ""
					// no store into the local that can reach the call
					for _, r := range *al.Referrers() {
						st, ok := r.(*ssa.Store)
						if !ok || st.Addr != ssa.Value(al) {
							if fa, ok := r.(*ssa.FieldAddr); ok {
								for _, r2 := range *fa.Referrers() {
									if st2, ok := r2.(*ssa.Store); ok && st2.Addr == ssa.Value(fa) && (st2.Block().Dominates(b) || reaches(st2.Block(), b)) && st2.Block() != b {
										fresh, why = false, "a field of the local is written before the call"
									}
								}
							}
							continue
						}
						if kk, ok := st.Val.(*ssa.Const); ok && kk.Value == nil {
							continue // zero-value initialisation
						}
						if reaches(st.Block(), b) || st.Block() == b {
							fresh, why = false, "the local is written before the call"
						}
					}
				}
				c.check(fresh, "U4", fmt.Sprintf("%s:ParseURI-destination#%d", k, cnt), call.Pos(), "ParseURI is handed a fresh zero-valued local as destination (it never clears components it does not find) "+why)
			}
		}
	}
	c.check(n >= 2, "U4", "call-sites", token.NoPos, fmt.Sprintf("%d ParseURI call sites inside the package (frozen minimum 2)", n))
}

func reaches(from, to *ssa.BasicBlock) bool {
	seen := map[*ssa.BasicBlock]bool{}
	work := []*ssa.BasicBlock{from}
	for len(work) > 0 {
		b := work[len(work)-1]
		work = work[:len(work)-1]
		for _, s := range b.Succs {
			if s == to {
				return true
			}
			if !seen[s] {
				seen[s] = true
				work = append(work, s)
			}
		}
	}
	return false
}

func init() {
	register(&PropDef{
		ID: "C14",
		Rules: []Rule{
			{"U1", "from the extracted ParseURI automaton (18 states x byte classes, loop-carried locals tracked): every transition that closes a component does X.Set(s,i) at the delimiter and sets s = i+1; a late '@' rebuilds User/Pass from (Host.Offs, passOffs, passOffs+1, i), resets every later component, PortNo and the port accumulator, and restarts at the host; all sites record the password candidate as the ':' position; the end-of-input switch handles every state and closes the open component with Set(s,i)", ruleU1},
			{"U5", "the automaton extracted from ParseURI equals the reviewed reference table (ref/ParseURI.txt): for every state and byte class the next state or exit, the verdict set, the field actions with their arguments (locals other than the scan index abstracted) and the returned offset; a transition that loses an action, changes target, verdict or byte class shows up as a missing and an extra row", func(c *Ctx) { fsmRefRule(c, "U5", "ParseURI") }},
			{"U4", "ParseURI never clears components it does not find, so inside the package it is only ever handed the address of a fresh zero-valued local (no store before the call) — never a caller-owned structure that may still hold an earlier URI's components", ruleU4},
			{"U3", "every success return of ParseURI is dominated by the test of the parsed scheme that performs the tel: fix-up (number moved from the host to the user slot): no early success return bypasses it", ruleU3},
			{"U2", "scheme table: the three little-endian constants equal sip: / sips / tel: lower-cased, the fold precedes the switch, sips needs uri[4]==':' under the length guard, tel: moves the number to User", ruleU2},
		},
		Assumptions: []string{"state constants are the declared u* constants"},
		NotDecided:  "that the ambiguity resolution (';' '?' ':' before a later '@') attributes bytes to the right component; byte-for-byte reproduction as a value statement",
	})
}
