package main

import (
	"bytes"
	"go/ast"
	"go/constant"
	"go/printer"
	"go/token"
	"go/types"
	"strings"

	"golang.org/x/tools/go/types/typeutil"
)

// src renders an AST node back to (normalised) source text.
func (p *Prog) src(n ast.Node) string {
	if n == nil {
		return ""
	}
	var b bytes.Buffer
	printer.Fprint(&b, p.Fset, n)
	s := b.String()
	s = strings.Join(strings.Fields(s), " ")
	return s
}

// calleeName resolves a call through type information:
// "pkg.Func", "Type.Method", "Func" (this package), "builtin.len", or "" (dynamic / conversion).
func (p *Prog) calleeName(call *ast.CallExpr) string {
	if tv, ok := p.Info.Types[call.Fun]; ok && tv.IsType() {
		return "" // conversion
	}
	o := typeutil.Callee(p.Info, call)
	if o == nil {
		return ""
	}
	return objName(o, p.Types)
}

func objName(o types.Object, self *types.Package) string {
	switch f := o.(type) {
	case *types.Builtin:
		return "builtin." + f.Name()
	case *types.Func:
		sig := f.Type().(*types.Signature)
		if r := sig.Recv(); r != nil {
			t := r.Type()
			if pt, ok := t.(*types.Pointer); ok {
				t = pt.Elem()
			}
			if nt, ok := t.(*types.Named); ok {
				pre := ""
				if nt.Obj().Pkg() != nil && nt.Obj().Pkg() != self {
					pre = nt.Obj().Pkg().Name() + "."
				}
				return pre + nt.Obj().Name() + "." + f.Name()
			}
			return "?." + f.Name()
		}
		if f.Pkg() != nil && f.Pkg() != self {
			return f.Pkg().Name() + "." + f.Name()
		}
		return f.Name()
	}
	return ""
}

func (p *Prog) constValue(e ast.Expr) constant.Value {
	if tv, ok := p.Info.Types[e]; ok {
		return tv.Value
	}
	return nil
}

func (p *Prog) constInt(e ast.Expr) (int64, bool) {
	v := p.constValue(e)
	if v == nil {
		return 0, false
	}
	v = constant.ToInt(v)
	if v.Kind() != constant.Int {
		return 0, false
	}
	return constant.Int64Val(v)
}

func (p *Prog) namedConstInt(name string) (int64, bool) {
	c := p.constOf(name)
	if c == nil {
		return 0, false
	}
	return constant.Int64Val(constant.ToInt(c.Val()))
}

// constName returns the declared constant an expression refers to ("" if none).
func (p *Prog) constName(e ast.Expr) string {
	e = unparen(e)
	if id, ok := e.(*ast.Ident); ok {
		if c, ok := p.Info.Uses[id].(*types.Const); ok {
			return c.Name()
		}
	}
	return ""
}

func unparen(e ast.Expr) ast.Expr {
	for {
		pe, ok := e.(*ast.ParenExpr)
		if !ok {
			return e
		}
		e = pe.X
	}
}

// objOf returns the object an identifier expression denotes.
func (p *Prog) objOf(e ast.Expr) types.Object {
	e = unparen(e)
	if id, ok := e.(*ast.Ident); ok {
		if o := p.Info.Uses[id]; o != nil {
			return o
		}
		return p.Info.Defs[id]
	}
	return nil
}

// globalVarInit finds the initialiser expression of a package-level var.
func (p *Prog) globalVarInit(name string) (ast.Expr, *ast.ValueSpec) {
	for _, f := range p.Pkg.Syntax {
		for _, d := range f.Decls {
			gd, ok := d.(*ast.GenDecl)
			if !ok || gd.Tok != token.VAR {
				continue
			}
			for _, s := range gd.Specs {
				vs := s.(*ast.ValueSpec)
				for i, n := range vs.Names {
					if n.Name == name {
						if i < len(vs.Values) {
							return vs.Values[i], vs
						}
						return nil, vs
					}
				}
			}
		}
	}
	return nil, nil
}

// byteSliceLit returns the string of `[]byte("...")` or a string constant.
func (p *Prog) byteSliceLit(e ast.Expr) (string, bool) {
	e = unparen(e)
	if call, ok := e.(*ast.CallExpr); ok && len(call.Args) == 1 {
		if tv, ok := p.Info.Types[call.Fun]; ok && tv.IsType() {
			e = call.Args[0]
		}
	}
	if v := p.constValue(e); v != nil && v.Kind() == constant.String {
		return constant.StringVal(v), true
	}
	return "", false
}

// inspectFunc walks the body of a FuncDecl.
func inspect(n ast.Node, f func(ast.Node) bool) {
	if n != nil {
		ast.Inspect(n, f)
	}
}

// fieldNames lists the fields of a named struct type in declaration order.
func (p *Prog) structFields(typeName string) []*types.Var {
	o := p.Types.Scope().Lookup(typeName)
	if o == nil {
		return nil
	}
	st, ok := o.Type().Underlying().(*types.Struct)
	if !ok {
		return nil
	}
	var out []*types.Var
	for i := 0; i < st.NumFields(); i++ {
		out = append(out, st.Field(i))
	}
	return out
}

func isUpperASCII(s string) bool {
	for i := 0; i < len(s); i++ {
		if s[i] >= 'a' && s[i] <= 'z' {
			return false
		}
	}
	return true
}
func isLowerASCII(s string) bool {
	for i := 0; i < len(s); i++ {
		if s[i] >= 'A' && s[i] <= 'Z' {
			return false
		}
	}
	return true
}

// selPath renders x.a.b selector chains as "x.a.b" ("" if not a pure chain).
func selPath(e ast.Expr) string {
	e = unparen(e)
	switch v := e.(type) {
	case *ast.Ident:
		return v.Name
	case *ast.SelectorExpr:
		b := selPath(v.X)
		if b == "" {
			return ""
		}
		return b + "." + v.Sel.Name
	case *ast.StarExpr:
		return selPath(v.X)
	}
	return ""
}
