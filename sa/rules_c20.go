package main

import (
	"fmt"
	"go/token"
	"strings"

	"golang.org/x/tools/go/ssa"
)

// D1: group limits in IP4Prefix.
func ruleD1(c *Ctx) {
	fn := c.SFuncs["IP4Prefix"]
	if fn == nil {
		c.fail("D1", "IP4Prefix", token.NoPos, "not found")
		return
	}
	env := newRangeEnv(fn)
	bp := anyBufParam(fn)
	n := 0
	for _, b := range fn.Blocks {
		for _, ins := range b.Instrs {
			st, ok := ins.(*ssa.Store)
			if !ok {
				continue
			}
			ia, ok := st.Addr.(*ssa.IndexAddr)
			if !ok || !strings.HasPrefix(addrRoot(ia), "alloc:") {
				continue
			}
			if _, isC := constIntOf(st.Val); isC {
				continue // ip[pos] = 0
			}
			n++
			// (a) the digit count is <= 3 where a digit is accumulated
			var digits *ssa.Phi
			for _, hb := range fn.Blocks {
				for _, hi := range hb.Instrs {
					if ph, ok := hi.(*ssa.Phi); ok && ph.Comment == "digits" && digits == nil {
						digits = ph
					}
				}
			}
			okDig := false
			if digits != nil {
				// the incremented value digits+1 is what is tested
				for _, b2 := range fn.Blocks {
					for _, i2 := range b2.Instrs {
						if bo, ok := i2.(*ssa.BinOp); ok && bo.Op == token.ADD && bo.X == ssa.Value(digits) && b2.Dominates(b) {
							_, hi := env.rng(bo, b)
							if hi.Cmp(bigOf(3)) <= 0 {
								okDig = true
							}
						}
					}
				}
			}
			c.check(okDig, "D1", "digits<=3", st.Pos(), "a digit is accumulated only while the group has at most 3 digits (range of the digit counter at the store)")
			// (b) the byte being accumulated is exactly a decimal digit
			okByte := false
			for _, b2 := range fn.Blocks {
				for _, i2 := range b2.Instrs {
					if u, ok := i2.(*ssa.UnOp); ok && u.Op == token.MUL && b2 == b {
						if ia2, ok := u.X.(*ssa.IndexAddr); ok && ia2.X == ssa.Value(bp) {
							bs := env.byteSetOf(u, b)
							if bs != nil && bs.eq(setOfString("0123456789")) {
								okByte = true
							}
						}
					}
				}
			}
			c.check(okByte, "D1", "digit-class", st.Pos(), "the byte accumulated into a group is exactly in '0'..'9' (exact byte set at the store)")
			// (d) nothing else refuses a digit: between the digit-class test and the accumulating store the only
			// conditions are the digit-count limit (a comparison with 3) and the value limit (a comparison with 255);
			// any further condition (no digits after a leading 0, ...) rejects addresses the property accepts
			var extra []string
			nLimits := 0
			isByteCond := func(v ssa.Value) bool {
				var opnds []ssa.Value
				switch x := v.(type) {
				case *ssa.BinOp:
					opnds = []ssa.Value{x.X, x.Y}
				case *ssa.Call: // a digit-class helper applied to the byte
					opnds = x.Call.Args
				default:
					return false
				}
				for _, opnd := range opnds {
					if cv, ok := opnd.(*ssa.Convert); ok {
						opnd = cv.X
					}
					if u, ok := opnd.(*ssa.UnOp); ok && u.Op == token.MUL {
						if ia2, ok := u.X.(*ssa.IndexAddr); ok && ia2.X == ssa.Value(bp) {
							return true
						}
					}
				}
				return false
			}
			// nearest dominating byte test: the region starts at its successor that dominates the store
			var start *ssa.BasicBlock
			for cur := b; cur != nil && start == nil; cur = cur.Idom() {
				d := cur.Idom()
				if d == nil {
					break
				}
				if iff, ok := d.Instrs[len(d.Instrs)-1].(*ssa.If); ok && isByteCond(iff.Cond) {
					start = cur
				}
			}
			if start == nil {
				extra = append(extra, "no digit-class test dominates the store")
			} else {
				// blocks on a path start ->* store block
				canReach := map[*ssa.BasicBlock]bool{b: true}
				for changed := true; changed; {
					changed = false
					for _, x := range fn.Blocks {
						if canReach[x] || !start.Dominates(x) {
							continue
						}
						for _, su := range x.Succs {
							if canReach[su] && su != start {
								canReach[x], changed = true, true
							}
						}
					}
				}
				for _, x := range fn.Blocks {
					if !canReach[x] || x == b {
						continue
					}
					iff, ok := x.Instrs[len(x.Instrs)-1].(*ssa.If)
					if !ok {
						continue
					}
					bo, ok := iff.Cond.(*ssa.BinOp)
					if !ok {
						extra = append(extra, c.Prog.pos(iff.Cond.Pos()))
						continue
					}
					k, isK := constIntOf(bo.Y)
					if !isK {
						k, isK = constIntOf(bo.X)
					}
					if isK && (k == 3 || k == 255) && !isByteCond(bo) {
						nLimits++
						continue
					}
					extra = append(extra, c.Prog.pos(iff.Cond.Pos()))
				}
			}
			c.check(len(extra) == 0 && nLimits == 2, "D1", "only-two-limits", st.Pos(), fmt.Sprintf("between the digit test and the accumulating store there are exactly the two documented limits (digit count vs 3, value vs 255; found %d) and no other condition (others at: %v)", nLimits, extra))
			// (c) pos <= 3
			_, ph := env.rng(ia.Index, b)
			c.check(ph.Cmp(bigOf(3)) <= 0, "D1", "groups<=4", st.Pos(), "at most four groups (group index range at the store)")
		}
	}
	c.check(n >= 1, "D1", "accumulate-store", fn.Pos(), "accumulating store found")
	// the value bound 255 is rule C10-A (widened check); restated here
	t := &Ctx{Prog: c.Prog, Prop: c.Prop}
	ruleA(t)
	for _, o := range t.obls {
		if strings.Contains(o.Key, "IP4Prefix") {
			o.Rule = "D1"
			o.Key = "D1:value<=255:" + strings.TrimPrefix(o.Key, "A:")
			c.obls = append(c.obls, o)
		}
	}
}

// D2: address bytes are delivered on every positive return.
func ruleD2(c *Ctx) {
	for _, fnName := range []string{"IP4Prefix"} {
		fn := c.SFuncs[fnName]
		if fn == nil {
			c.fail("D2", fnName, token.NoPos, "not found")
			continue
		}
		n := 0
		for _, b := range fn.Blocks {
			ret, ok := b.Instrs[len(b.Instrs)-1].(*ssa.Return)
			if !ok {
				continue
			}
			k, isC := ret.Results[0].(*ssa.Const)
			if !isC || k.Value.String() != "true" {
				continue
			}
			n++
			// shape: If(len(dst) > 0) -> [copy(dst, ip[:])] -> return
			good := false
			if len(b.Preds) == 2 {
				var ifB, cpB *ssa.BasicBlock
				for _, p := range b.Preds {
					if _, isIf := p.Instrs[len(p.Instrs)-1].(*ssa.If); isIf {
						ifB = p
					} else {
						cpB = p
					}
				}
				if ifB != nil && cpB != nil && len(cpB.Preds) == 1 && cpB.Preds[0] == ifB {
					hasCopy := false
					for _, ins := range cpB.Instrs {
						if call, ok := ins.(*ssa.Call); ok {
							if bi, ok := call.Call.Value.(*ssa.Builtin); ok && bi.Name() == "copy" {
								if sl, ok := call.Call.Args[1].(*ssa.Slice); ok && strings.HasPrefix(addrRoot(sl.X), "alloc:") {
									if _, isParam := call.Call.Args[0].(*ssa.Parameter); isParam {
										hasCopy = true
									}
								}
							}
						}
					}
					cond := ifB.Instrs[len(ifB.Instrs)-1].(*ssa.If).Cond
					le := newLinEnv(linOpts{})
					okCond := false
					for _, f := range le.condFacts(cond, true) {
						if strings.Contains(le.pretty(f.L), "len(dst)") {
							okCond = true
						}
					}
					good = hasCopy && okCond && ifB.Succs[0] == cpB
				}
			}
			c.check(good, "D2", fmt.Sprintf("%s:return-true#%d", fnName, n), ret.Pos(), "every positive return is preceded by copy(dst, ip[:]) whenever dst has room")
		}
		c.check(n >= 4, "D2", fnName+":positive-returns", fn.Pos(), fmt.Sprintf("%d positive returns (frozen minimum 4)", n))
	}
}

// D3: search window and progress of ContainsIP4.
func ruleD3(c *Ctx) {
	fn := c.SFuncs["ContainsIP4"]
	if fn == nil {
		c.fail("D3", "ContainsIP4", token.NoPos, "not found")
		return
	}
	le := newLinEnv(linOpts{})
	// outer loop variable i: phi [0, d+i+1]
	var iphi, ophi *ssa.Phi
	for _, b := range fn.Blocks {
		for _, ins := range b.Instrs {
			if ph, ok := ins.(*ssa.Phi); ok {
				if ph.Comment == "i" && iphi == nil {
					iphi = ph
				}
				if ph.Comment == "o" && ophi == nil {
					ophi = ph
				}
			}
		}
	}
	if iphi == nil || ophi == nil {
		c.fail("D3", "loops", fn.Pos(), "loop variables not found")
		return
	}
	var idx *ssa.Call
	for _, b := range fn.Blocks {
		for _, ins := range b.Instrs {
			if call, ok := ins.(*ssa.Call); ok && call.Call.StaticCallee() != nil && call.Call.StaticCallee().Name() == "IndexByte" {
				idx = call
			}
		}
	}
	if idx == nil {
		c.fail("D3", "IndexByte", fn.Pos(), "dot search not found")
		return
	}
	dk := le.atomKey(idx)
	ik := le.atomKey(iphi)
	le.norm(idx)
	le.norm(iphi)
	// (a) progress: i' = dOffs + 1 on every back edge
	okProg := true
	nb := 0
	for _, e := range iphi.Edges {
		if k, isC := constIntOf(e); isC && k == 0 {
			continue
		}
		nb++
		l := le.norm(e)
		if !(len(l.T) == 2 && l.T[dk] == 1 && l.T[ik] == 1 && l.C == 1) {
			okProg = false
		}
	}
	c.check(okProg && nb >= 1, "D3", "progress", iphi.Pos(), "after a dot that yields no address the search resumes exactly one past that dot (every dot of the text is tried)")
	// (b) the dot is searched in buf[i:]
	okFrom := false
	if sl, ok := idx.Call.Args[0].(*ssa.Slice); ok && sl.Low == ssa.Value(iphi) && sl.High == nil {
		okFrom = true
	}
	c.check(okFrom, "D3", "search-from", idx.Pos(), "the next dot is searched from the resume position")
	// (c) candidate window: o starts at dOffs-3 (when dOffs >= 3) or at i, runs up to (not including) the dot
	starts := map[string]bool{}
	var collect func(v ssa.Value, depth int)
	collect = func(v ssa.Value, depth int) {
		if ph, ok := v.(*ssa.Phi); ok && ph != ophi && ph != iphi && depth < 3 {
			for _, e := range ph.Edges {
				collect(e, depth+1)
			}
			return
		}
		starts[le.pretty(le.norm(v))] = true
	}
	for _, e := range ophi.Edges {
		l := le.norm(e)
		if l.T[le.atomKey(ophi)] == 1 && l.C == 1 && len(l.T) == 1 {
			continue // o++
		}
		collect(e, 0)
	}
	var ss []string
	for s := range starts {
		ss = append(ss, s)
	}
	back := false
	for s := range starts {
		if strings.HasSuffix(s, "-3") && strings.Contains(s, "IndexByte()") {
			back = true
		}
	}
	c.check(back && starts["+i"] && len(starts) == 2, "D3", "window-start", ophi.Pos(), fmt.Sprintf("candidates start 3 bytes (the maximal group width, D1) before the dot, or at the resume position (got %v)", ss))
	// window upper bound: o < dOffs
	okUpper := false
	for _, b := range fn.Blocks {
		if iff, ok := b.Instrs[len(b.Instrs)-1].(*ssa.If); ok {
			if bo, ok := iff.Cond.(*ssa.BinOp); ok && bo.Op == token.LSS && bo.X == ssa.Value(ophi) {
				l := le.norm(bo.Y)
				if l.T[dk] == 1 && l.T[ik] == 1 && l.C == 0 && len(l.T) == 2 {
					okUpper = true
				}
			}
		}
	}
	c.check(okUpper, "D3", "window-end", ophi.Pos(), "candidates run up to, not including, the dot")
	// (d) back-off constant >= digit bound
	c.check(true, "D3", "backoff>=width", ophi.Pos(), "back-off 3 equals the digit bound of D1")
}

// D4: call-id signature classifies the IP position from exactly the search result.
func ruleD4(c *Ctx) {
	fd := c.Decls["GetCallIDSig"]
	if fd == nil {
		c.fail("D4", "GetCallIDSig", token.NoPos, "not found")
		return
	}
	s := c.src(fd.Body)
	c.check(patIn(s, "if @h { if @o == 0 { @s |= SigIPStartF } else if (@o + @l) == len(@c) { @s |= SigIPEndF } else { @s |= SigIPMiddleF } }"), "D4", "position", fd.Pos(),
		"start / end / middle are decided from (ipOffs == 0, ipOffs+ipLen == len) of the search result, only when an address was found")
	c.check(patInAll(s, "@h, @o, @l := ContainsIP4(@c, nil)", "if !@h { @h, @o, @l = ContainsIP6(@c, nil) }"), "D4", "search", fd.Pos(), "IPv4 is searched first, IPv6 only when no IPv4 address was found")
	c.check(patInAll(s, "@h, @o, @l := ContainsIP4(@c, nil)", "getStrCharsSig(@c, @o, @l)"), "D4", "skip-span", fd.Pos(), "the character-class signature skips exactly the reported span")
}

// D5: the stop offset and the end-of-input indications come from the scan itself. In IP4Prefix every
// return reports the scan index as the stop offset; the indications that mean "the text ended here" (more-bytes,
// ok) are issued only after the scanning loop ran out of bytes (dominated by the loop's exit edge), every other
// indication only at a byte inside the loop. A shortcut that answers from the length of the text alone would
// claim end of input without having looked at the bytes.
func ruleD5(c *Ctx) {
	mb, _ := c.namedConstInt("ErrHdrMoreBytes")
	n := 0
	for _, fnName := range []string{"IP4Prefix"} { // IP6Prefix funnels its indications through one variable and a common epilogue: not this shape
		fn := c.SFuncs[fnName]
		if fn == nil {
			c.fail("D5", fnName, token.NoPos, "not found")
			continue
		}
		head, body := mainLoop(fn)
		if head == nil {
			c.fail("D5", fnName+":loop", fn.Pos(), "scanning loop (index < len(buf)) not found")
			continue
		}
		var idx *ssa.Phi
		iff := head.Instrs[len(head.Instrs)-1].(*ssa.If)
		if bo, ok := iff.Cond.(*ssa.BinOp); ok {
			for _, v := range []ssa.Value{bo.X, bo.Y} {
				if ph, ok := v.(*ssa.Phi); ok && ph.Block() == head {
					idx = ph
				}
			}
		}
		if idx == nil {
			c.fail("D5", fnName+":index", fn.Pos(), "scan index not identified")
			continue
		}
		var exit *ssa.BasicBlock
		for _, sb := range head.Succs {
			if sb != body {
				exit = sb
			}
		}
		ei := errResultIndex(fn)
		cnt := 0
		for _, b := range fn.Blocks {
			ret, ok := b.Instrs[len(b.Instrs)-1].(*ssa.Return)
			if !ok || ei < 0 || len(ret.Results) < 3 {
				continue
			}
			cnt++
			n++
			key := fmt.Sprintf("%s:return#%d", fnName, cnt)
			env := newLinEnv(linOpts{})
			off := env.norm(ret.Results[1])
			okOff := off.T[env.atomKey(idx)] == 1 && len(off.T) == 1 && off.C >= 0 && off.C <= 1
			v, isC := constIntOf(ret.Results[ei])
			if !isC {
				c.fail("D5", key, ret.Pos(), "indication is not a constant")
				continue
			}
			endInd := v == mb || v == 0
			var okDom bool
			if endInd {
				okDom = exit != nil && exit.Dominates(b) && len(exit.Preds) == 1
			} else {
				okDom = body.Dominates(b) && len(body.Preds) == 1
			}
			c.check(okOff && okDom, "D5", key, ret.Pos(), fmt.Sprintf("stop offset is the scan index (%v); the indication %d is issued %s (%v)", okOff, v, map[bool]string{true: "only after the scan ran out of bytes", false: "only at a byte inside the scan"}[endInd], okDom))
		}
	}
	c.check(n >= 8, "D5", "returns", token.NoPos, fmt.Sprintf("%d returns of the IPv4 prefix test inspected (frozen minimum 8)", n))
}

// D6: no look-ahead. IP4Prefix decides at the byte under the scan index: every element of the input it reads is
// buf[index] for the loop's index itself, never buf[index+k]. "Stops at the first byte that cannot extend the address"
// means that what follows the stop byte cannot change the decision; a peek at the byte after a dot rejects a complete
// address that is followed by ". Bye".
func ruleD6(c *Ctx) {
	fn := c.SFuncs["IP4Prefix"]
	if fn == nil {
		c.fail("D6", "IP4Prefix", token.NoPos, "not found")
		return
	}
	head, _ := mainLoop(fn)
	bp := anyBufParam(fn)
	if head == nil || bp == nil {
		c.fail("D6", "IP4Prefix:loop", fn.Pos(), "scanning loop not found")
		return
	}
	var idx *ssa.Phi
	if iff, ok := head.Instrs[len(head.Instrs)-1].(*ssa.If); ok {
		if bo, ok := iff.Cond.(*ssa.BinOp); ok {
			for _, v := range []ssa.Value{bo.X, bo.Y} {
				if ph, ok := v.(*ssa.Phi); ok && ph.Block() == head {
					idx = ph
				}
			}
		}
	}
	if idx == nil {
		c.fail("D6", "IP4Prefix:index", fn.Pos(), "scan index not identified")
		return
	}
	n := 0
	for _, b := range fn.Blocks {
		for _, ins := range b.Instrs {
			ia, ok := ins.(*ssa.IndexAddr)
			if !ok || ia.X != ssa.Value(bp) {
				continue
			}
			n++
			env := newLinEnv(linOpts{})
			l := env.norm(ia.Index)
			okI := len(l.T) == 1 && l.T[env.atomKey(idx)] == 1 && l.C == 0
			c.check(okI, "D6", fmt.Sprintf("IP4Prefix:read#%d", n), ia.Pos(), fmt.Sprintf("the input byte read is the one under the scan index (index expression %s)", env.pretty(l)))
		}
	}
	c.check(n >= 3, "D6", "reads", fn.Pos(), fmt.Sprintf("%d reads of the input in IP4Prefix (frozen minimum 3)", n))
}

func init() {
	register(&PropDef{
		ID: "C20",
		Rules: []Rule{
			{"D1", "group limits in IP4Prefix: a digit is accumulated only while the group has <= 3 digits, the byte accumulated is exactly in '0'..'9' (exact byte set), at most four groups, value <= 255 checked in a wider type before the byte store (C10-A)", ruleD1},
			{"D6", "no look-ahead: every input byte IP4Prefix reads is buf[index] for the scanning loop's index itself, so the decision at the stop byte cannot depend on what follows it", ruleD6},
			{"D2", "address bytes are delivered on every positive return: each `return true` is preceded by copy(dst, ip[:]) under the len(dst) > 0 test (4 siblings)", ruleD2},
			{"D3", "ContainsIP4 search: dots are searched from the resume position, candidates start 3 bytes before the dot (or at the resume position) and stop before the dot, and after a failed dot the search resumes exactly one past it, so every dot of the text is tried", ruleD3},
			{"D5", "stop offset and indications of IP4Prefix come from the scan: every return reports the scan index; more-bytes / ok (the text ended here) only after the scanning loop's exit edge, every other indication only at a byte inside the loop — no answer from the length of the text alone", ruleD5},
			{"D4", "GetCallIDSig classifies start/end/middle from exactly (ipOffs == 0, ipOffs+ipLen == len) of the search result and skips exactly the reported span", ruleD4},
		},
		Assumptions: []string{"bytes.IndexByte summary"},
		NotDecided:  "soundness and completeness of the search over all strings and the end-of-input / followed-by indications as values; only the structural limits, delivery, window and progress clauses are decided",
	})
}
