package main

import (
	"go/token"
	"go/types"
	"math/big"

	"golang.org/x/tools/go/ssa"
)

// E-BYTE: exact set-of-small-integers abstract domain for one SSA value,
// refined along CFG edges by comparisons with constants (forward dataflow,
// union at joins). Domain 0..255 (bytes); used for digit/character classes.

type ByteSet struct{ b big.Int }

func fullSet() *ByteSet {
	s := &ByteSet{}
	for i := 0; i < 256; i++ {
		s.b.SetBit(&s.b, i, 1)
	}
	return s
}
func emptySet() *ByteSet { return &ByteSet{} }
func (s *ByteSet) has(i int) bool { return s.b.Bit(i) == 1 }
func (s *ByteSet) union(o *ByteSet) *ByteSet {
	r := &ByteSet{}
	r.b.Or(&s.b, &o.b)
	return r
}
func (s *ByteSet) eq(o *ByteSet) bool { return s.b.Cmp(&o.b) == 0 }
func (s *ByteSet) empty() bool        { return s.b.Sign() == 0 }
func (s *ByteSet) filter(f func(int) bool) *ByteSet {
	r := &ByteSet{}
	for i := 0; i < 256; i++ {
		if s.has(i) && f(i) {
			r.b.SetBit(&r.b, i, 1)
		}
	}
	return r
}
func (s *ByteSet) min() int {
	for i := 0; i < 256; i++ {
		if s.has(i) {
			return i
		}
	}
	return -1
}
func (s *ByteSet) max() int {
	for i := 255; i >= 0; i-- {
		if s.has(i) {
			return i
		}
	}
	return -1
}
func (s *ByteSet) count() int {
	n := 0
	for i := 0; i < 256; i++ {
		if s.has(i) {
			n++
		}
	}
	return n
}
func (s *ByteSet) String() string {
	out := ""
	for i := 0; i < 256; {
		if !s.has(i) {
			i++
			continue
		}
		j := i
		for j+1 < 256 && s.has(j+1) {
			j++
		}
		if out != "" {
			out += ","
		}
		if i == j {
			out += byteName(i)
		} else {
			out += byteName(i) + "-" + byteName(j)
		}
		i = j + 1
	}
	return "{" + out + "}"
}
func byteName(i int) string {
	if i > 32 && i < 127 && i != '"' && i != '\\' {
		return string(rune(i))
	}
	return "0x" + hex2(i)
}
func hex2(i int) string {
	const h = "0123456789abcdef"
	return string([]byte{h[i>>4], h[i&15]})
}

// sameByteValue: does cond operand o denote the tracked value v (allowing
// re-loads of the same structural address when `same` says so)?
type byteEq func(o ssa.Value) bool

// refineByCond returns the subset of s for which cond evaluates to truth.
// Conditions not about the value leave the set unchanged.
func refineByCond(s *ByteSet, cond ssa.Value, truth bool, is byteEq) *ByteSet {
	switch c := cond.(type) {
	case *ssa.Call:
		// a small in-package predicate f(c byte[, ...]) bool applied to the tracked value: use its exact
		// byte partition (bytes whose outcome depends on other arguments are left undecided)
		cal := c.Call.StaticCallee()
		if cal == nil || cal.Blocks == nil || len(c.Call.Args) == 0 || !is(c.Call.Args[0]) || len(cal.Blocks) > 40 {
			return s
		}
		if bt, ok := cal.Signature.Results().At(0).Type().Underlying().(*types.Basic); !ok || bt.Kind() != types.Bool || cal.Signature.Results().Len() != 1 {
			return s
		}
		yes, no := emptySet(), emptySet()
		for _, o := range byteDecision(nil, cal) {
			switch o.Result {
			case "true":
				yes = yes.union(o.Bytes)
			case "false":
				no = no.union(o.Bytes)
			default:
				yes, no = yes.union(o.Bytes), no.union(o.Bytes)
			}
		}
		if truth {
			return s.filter(func(i int) bool { return yes.has(i) })
		}
		return s.filter(func(i int) bool { return no.has(i) })
	case *ssa.Phi:
		// a boolean that remembers earlier tests of the value (`isDigit := c >= '0' && c <= '9'`): the bytes for
		// which it is true / false, computed by byteSetsFor from the sets that flow into its edges
		if tf, ok := phiTruth[c]; ok {
			want := tf[0]
			if !truth {
				want = tf[1]
			}
			return s.filter(func(i int) bool { return want.has(i) })
		}
	case *ssa.UnOp:
		if c.Op == token.NOT {
			return refineByCond(s, c.X, !truth, is)
		}
	case *ssa.BinOp:
		var k int64
		var ok, flipped bool
		if is(c.X) {
			k, ok = constIntOf(c.Y)
		} else if is(c.Y) {
			k, ok = constIntOf(c.X)
			flipped = true
		}
		if !ok {
			return s
		}
		op := c.Op
		if flipped {
			switch op {
			case token.LSS:
				op = token.GTR
			case token.LEQ:
				op = token.GEQ
			case token.GTR:
				op = token.LSS
			case token.GEQ:
				op = token.LEQ
			}
		}
		return s.filter(func(i int) bool {
			var r bool
			switch op {
			case token.EQL:
				r = int64(i) == k
			case token.NEQ:
				r = int64(i) != k
			case token.LSS:
				r = int64(i) < k
			case token.LEQ:
				r = int64(i) <= k
			case token.GTR:
				r = int64(i) > k
			case token.GEQ:
				r = int64(i) >= k
			default:
				return true
			}
			return r == truth
		})
	}
	return s
}

// byteSetsFor computes, for every block of fn, the set of values v may have
// on entry to the block (blocks not dominated by v's definition get the full set).
// phiTruth: for boolean phis, the bytes for which the phi is true / false (valid during one byteSetsFor run).
var phiTruth = map[*ssa.Phi][2]*ByteSet{}

func byteSetsFor(fn *ssa.Function, is byteEq, defBlock *ssa.BasicBlock) map[*ssa.BasicBlock]*ByteSet {
	saved := phiTruth
	defer func() { phiTruth = saved }()
	phiTruth = map[*ssa.Phi][2]*ByteSet{}
	in := byteSetsPass(fn, is, defBlock)
	for round := 0; round < 4; round++ {
		// recompute the truth sets of boolean phis from the current (sound, over-approximate) sets
		next := map[*ssa.Phi][2]*ByteSet{}
		for _, b := range fn.Blocks {
			for _, ins := range b.Instrs {
				ph, ok := ins.(*ssa.Phi)
				if !ok {
					break
				}
				if bt, ok := ph.Type().Underlying().(*types.Basic); !ok || bt.Kind() != types.Bool {
					continue
				}
				t, f := emptySet(), emptySet()
				for j, p := range b.Preds {
					se := in[p]
					if iff, ok := p.Instrs[len(p.Instrs)-1].(*ssa.If); ok && len(p.Succs) == 2 && p.Succs[0] != p.Succs[1] {
						se = refineByCond(se, iff.Cond, p.Succs[0] == b, is)
					}
					switch ev := ph.Edges[j].(type) {
					case *ssa.Const:
						if ev.Value != nil && ev.Value.String() == "true" {
							t = t.union(se)
						} else {
							f = f.union(se)
						}
					default:
						t = t.union(refineByCond(se, ev, true, is))
						f = f.union(refineByCond(se, ev, false, is))
					}
				}
				next[ph] = [2]*ByteSet{t, f}
			}
		}
		same := len(next) == len(phiTruth)
		for k, v := range next {
			if o, ok := phiTruth[k]; !ok || !o[0].eq(v[0]) || !o[1].eq(v[1]) {
				same = false
			}
		}
		if same || len(next) == 0 {
			break
		}
		phiTruth = next
		in = byteSetsPass(fn, is, defBlock)
	}
	return in
}

func byteSetsPass(fn *ssa.Function, is byteEq, defBlock *ssa.BasicBlock) map[*ssa.BasicBlock]*ByteSet {
	in := map[*ssa.BasicBlock]*ByteSet{}
	for _, b := range fn.Blocks {
		in[b] = emptySet()
	}
	start := defBlock
	if start == nil {
		start = fn.Blocks[0]
	}
	in[start] = fullSet()
	work := []*ssa.BasicBlock{start}
	for len(work) > 0 {
		b := work[len(work)-1]
		work = work[:len(work)-1]
		cur := in[b]
		if iff, ok := b.Instrs[len(b.Instrs)-1].(*ssa.If); ok && len(b.Succs) == 2 {
			for idx, s := range b.Succs {
				out := refineByCond(cur, iff.Cond, idx == 0, is)
				if s == start {
					continue // value is redefined on re-entry to its defining block
				}
				n := in[s].union(out)
				if !n.eq(in[s]) {
					in[s] = n
					work = append(work, s)
				}
			}
			continue
		}
		for _, s := range b.Succs {
			if s == start {
				continue
			}
			n := in[s].union(cur)
			if !n.eq(in[s]) {
				in[s] = n
				work = append(work, s)
			}
		}
	}
	return in
}
