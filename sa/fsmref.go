package main

import (
	"embed"
	"fmt"
	"go/token"
	"regexp"
	"sort"
	"strings"

	"golang.org/x/tools/go/ssa"
)

// Reference automata. The rules above argue the properties on the automata extracted from the pinned tree; this
// rule pins the automata themselves: for each scanning parser the set of (state, byte class) -> (next state or exit,
// verdict set, field actions, returned offset) rows, with every loop-carried local other than the scan index
// abstracted away, must equal the reviewed table stored under ref/. A transition that loses a field action, goes to
// another state, changes its verdict or moves a byte between classes shows up as a missing and an extra row. The table
// is independent of the names of locals, of switch / if spelling and of condition order (conditions are not part of a
// row; rows that differ only in conditions are merged and their byte classes united).

//go:embed ref/*.txt
var refFS embed.FS

// coarseArgs: for the loop-free path tables, call arguments and the returned offset are abstracted completely (which
// temporary carries a position differs between spellings); the table keeps verdicts, states, callee / receiver
// names and the cells stored.
var coarseArgs bool

func fsmSignature(r *fsmResult) []string {
	// names of the loop-carried locals (keys of Locals), to be abstracted
	locals := map[string]bool{}
	all := append(append([]fsmTrans{}, r.trans...), r.post...)
	for _, t := range all {
		for k := range t.Locals {
			if k != "i" {
				locals[k] = true
			}
		}
	}
	// every variable (parameter, receiver, local) is abstracted to "_": an identifier that is not a field or method
	// name (not preceded by '.'), not a callee (not followed by '(') and not the scan index
	abs := func(s string) string {
		var out strings.Builder
		for i := 0; i < len(s); {
			ch := s[i]
			if ch == '_' || (ch >= 'a' && ch <= 'z') || (ch >= 'A' && ch <= 'Z') {
				j := i
				for j < len(s) && (s[j] == '_' || (s[j] >= 'a' && s[j] <= 'z') || (s[j] >= 'A' && s[j] <= 'Z') || (s[j] >= '0' && s[j] <= '9')) {
					j++
				}
				id := s[i:j]
				isField := i > 0 && s[i-1] == '.'
				isCall := j < len(s) && s[j] == '('
				switch {
				case isField || isCall || id == "i" || id == "true" || id == "false" || id == "nil" || id == "len":
					out.WriteString(id)
				default:
					_ = locals
					out.WriteString("_")
				}
				i = j
				continue
			}
			out.WriteByte(ch)
			i++
		}
		return out.String()
	}
	// roles of the loop-carried locals: position among the integer / boolean phis of the loop head (source order
	// of the declarations), so that a renamed local keeps its role
	localRole := map[string]string{}
	if r.head != nil {
		n := 0
		for _, ins := range r.head.Instrs {
			ph, ok := ins.(*ssa.Phi)
			if !ok {
				break
			}
			nm := phiName(ph)
			if nm == "" || nm == "i" {
				continue
			}
			if _, dup := localRole[nm]; !dup {
				n++
				localRole[nm] = fmt.Sprintf("v%d", n)
			}
		}
	}
	type row struct {
		key   string
		bytes *ByteSet
	}
	rows := map[string]*row{}
	add := func(t fsmTrans, post bool) {
		var calls, stores []string
		for _, cl := range t.Calls {
			if k := strings.Index(cl, "("); k >= 0 { // calls rendered with arguments: field actions
				// the receiver path (field names) is kept, the arguments are abstracted
				if coarseArgs {
					calls = append(calls, cl[:k]+"()")
				} else {
					calls = append(calls, cl[:k]+abs(cl[k:]))
				}
			} else {
				calls = append(calls, cl)
			}
		}
		for _, st := range t.Stores {
			if k := strings.Index(st, "="); k >= 0 {
				if coarseArgs {
					stores = append(stores, st[:k])
				} else {
					stores = append(stores, st[:k]+abs(st[k:])) // cell name kept, stored value abstracted
				}
			} else {
				stores = append(stores, abs(st))
			}
		}
		idx := ""
		if v, ok := t.Locals["i"]; ok {
			idx = abs(v)
		}
		to := r.name(t.To)
		kind := "step"
		if t.Exit == "return" {
			kind = "return " + vsStr(t.Verd) + " offs=" + abs(t.RetOffs)
			if coarseArgs {
				kind = "return " + vsStr(t.Verd)
			}
		}
		if post {
			kind = "exhausted " + kind
		}
		// the conditions on loop-carried locals, object fields and option bits that select this row, in a
		// canonical form (one polarity, one relation per test; byte tests are in the byte class instead)
		var conds []string
		if !coarseArgs {
			seenC := map[string]bool{}
			for _, cd := range t.Conds {
				if cc := canonCond(cd, localRole); cc != "" && !seenC[cc] {
					seenC[cc] = true
					conds = append(conds, cc)
				}
			}
			sort.Strings(conds)
		}
		k := fmt.Sprintf("%s | %s -> %s | i:%s | calls=%s | stores=%s | when=%s", r.name(t.From), kind, to, idx, strings.Join(calls, " "), strings.Join(stores, " "), strings.Join(conds, " "))
		if rw, ok := rows[k]; ok {
			if t.Bytes != nil {
				rw.bytes = rw.bytes.union(t.Bytes)
			}
			return
		}
		b := emptySet()
		if t.Bytes != nil {
			b = t.Bytes
		}
		rows[k] = &row{k, b}
	}
	// a step that consumes nothing (index unchanged) and only moves to another state is composed with the steps of
	// that state on the same bytes: the table describes what happens to a byte, not how many times the loop goes
	// round for it
	byFrom := map[int64][]fsmTrans{}
	for _, t := range r.trans {
		byFrom[t.From] = append(byFrom[t.From], t)
	}
	var expand func(t fsmTrans, depth int) []fsmTrans
	expand = func(t fsmTrans, depth int) []fsmTrans {
		if t.Exit != "" || t.Locals["i"] != "=" || t.To == t.From || t.To < 0 || depth > 4 || t.Bytes == nil {
			return []fsmTrans{t}
		}
		var out []fsmTrans
		for _, t2 := range byFrom[t.To] {
			if t2.Bytes == nil {
				continue
			}
			inter := t.Bytes.filter(func(i int) bool { return t2.Bytes.has(i) })
			if inter.empty() {
				continue
			}
			c := t2
			c.From = t.From
			c.Bytes = inter
			c.Calls = append(append([]string{}, t.Calls...), t2.Calls...)
			c.Stores = append(append([]string{}, t.Stores...), t2.Stores...)
			out = append(out, expand(c, depth+1)...)
		}
		if len(out) == 0 {
			return []fsmTrans{t}
		}
		return out
	}
	for _, t := range r.trans {
		for _, e := range expand(t, 0) {
			add(e, false)
		}
	}
	for _, t := range r.post {
		add(t, true)
	}
	var out []string
	for _, rw := range rows {
		out = append(out, rw.key+" | bytes="+rw.bytes.String())
	}
	sort.Strings(out)
	return out
}

func fsmRefRule(c *Ctx, rule, fn string) {
	r := fsmOf(c, fn)
	if r == nil || r.head == nil || r.capped {
		c.fail(rule, fn+":fsm", token.NoPos, "state machine could not be extracted")
		return
	}
	got := fsmSignature(r)
	data, err := refFS.ReadFile("ref/" + fn + ".txt")
	if err != nil {
		c.fail(rule, fn+":reference", token.NoPos, "no reference table")
		return
	}
	want := strings.Split(strings.TrimRight(string(data), "\n"), "\n")
	ws, gs := map[string]bool{}, map[string]bool{}
	for _, l := range want {
		ws[l] = true
	}
	for _, l := range got {
		gs[l] = true
	}
	var missing, extra []string
	for _, l := range want {
		if !gs[l] {
			missing = append(missing, l)
		}
	}
	for _, l := range got {
		if !ws[l] {
			extra = append(extra, l)
		}
	}
	for i, l := range missing {
		if i < 4 {
			c.fail(rule, fmt.Sprintf("%s:row-missing#%d", fn, i+1), token.NoPos, "the reviewed automaton has this row, the tree does not: "+l)
		}
	}
	for i, l := range extra {
		if i < 4 {
			c.fail(rule, fmt.Sprintf("%s:row-extra#%d", fn, i+1), token.NoPos, "the tree's automaton has a row the reviewed one does not: "+l)
		}
	}
	c.check(len(missing) == 0 && len(extra) == 0, rule, fn+":automaton", token.NoPos, fmt.Sprintf("the extracted automaton of %s (%d rows: state x byte class -> next state / exit, verdicts, field actions, returned offset) equals the reviewed reference table; %d missing, %d extra", fn, len(got), len(missing), len(extra)))
}

// pathRefRule: the same for the loop-free state functions (first line, whole message): for each state the set of
// paths to a return - verdict set, returned offset, state left in the object, field actions - against ref/<fn>.txt.
func pathRefRule(c *Ctx, rule, fn, prefix string) {
	got := pathSignature(c, fn, prefix)
	if got == nil {
		c.fail(rule, fn+":paths", token.NoPos, "paths could not be enumerated")
		return
	}
	data, err := refFS.ReadFile("ref/" + fn + ".txt")
	if err != nil {
		c.fail(rule, fn+":reference", token.NoPos, "no reference table")
		return
	}
	want := strings.Split(strings.TrimRight(string(data), "\n"), "\n")
	ws, gs := map[string]bool{}, map[string]bool{}
	for _, l := range want {
		ws[l] = true
	}
	for _, l := range got {
		gs[l] = true
	}
	nm, ne := 0, 0
	for _, l := range want {
		if !gs[l] {
			nm++
			if nm <= 4 {
				c.fail(rule, fmt.Sprintf("%s:row-missing#%d", fn, nm), token.NoPos, "the reviewed decision table has this row, the tree does not: "+l)
			}
		}
	}
	for _, l := range got {
		if !ws[l] {
			ne++
			if ne <= 4 {
				c.fail(rule, fmt.Sprintf("%s:row-extra#%d", fn, ne), token.NoPos, "the tree's decision table has a row the reviewed one does not: "+l)
			}
		}
	}
	c.check(nm == 0 && ne == 0, rule, fn+":decision-table", token.NoPos, fmt.Sprintf("the per-state path table of %s (%d rows: state -> verdicts, returned offset, state left, field actions) equals the reviewed reference table; %d missing, %d extra", fn, len(got), nm, ne))
}

func pathSignature(c *Ctx, fn, prefix string) []string {
	f := c.SFuncs[fn]
	if f == nil {
		return nil
	}
	sp := fsmSpec{fn: f, stateFld: "state", constName: stateConstsOf(c, fn, prefix)}
	e := newErrAnalysis(c.Prog)
	res := &fsmResult{spec: sp}
	var ks []int64
	for k := range sp.constName {
		ks = append(ks, k)
	}
	sort.Slice(ks, func(i, j int) bool { return ks[i] < ks[j] })
	for _, k := range ks {
		for _, t := range enumPaths(c, e, sp, k) {
			t.From = k
			t.Exit = "return"
			res.post = append(res.post, t)
		}
	}
	if len(res.post) == 0 {
		return nil
	}
	coarseArgs = true
	defer func() { coarseArgs = false }()
	return fsmSignature(res)
}

var condRe = regexp.MustCompile(`^\+?(.+?)(==|!=|<=|>=|<|>)\+?(.+)$`)

// canonCond: a recorded branch condition in canonical form "subject rel constant : T|F", or "" for tests that are
// represented elsewhere (byte tests) or that do not compare with a constant.
func canonCond(cd string, role map[string]string) string {
	truth := true
	for strings.HasPrefix(cd, "!") {
		cd = cd[1:]
		truth = !truth
	}
	if strings.Contains(cd, "buf[*]") {
		return ""
	}
	subj, rel, k := cd, "=", "true"
	if m := condRe.FindStringSubmatch(cd); m != nil {
		subj, k = m[1], m[3]
		switch m[2] {
		case "==":
			rel = "="
		case "!=":
			rel, truth = "=", !truth
		case ">":
			rel = ">"
		case "<=":
			rel, truth = ">", !truth
		case ">=":
			rel = ">="
		case "<":
			rel, truth = ">=", !truth
		}
	}
	if k == "false" {
		k, truth = "true", !truth
	}
	// the subject: a local by role, a field path without its variable, a callee result as it is
	subj = strings.TrimPrefix(subj, "+")
	if rname, ok := role[subj]; ok {
		subj = rname
	} else if i := strings.Index(subj, "."); i > 0 && !strings.Contains(subj[:i], "(") {
		subj = "_" + subj[i:]
	} else if !strings.Contains(subj, "(") {
		// a parameter or a local that is not loop-carried: abstract
		if _, isNum := strconvAtoi(subj); !isNum {
			subj = "_"
		}
	}
	// constants only on the right-hand side
	if _, isNum := strconvAtoi(k); !isNum && k != "true" {
		if rname, ok := role[strings.TrimPrefix(k, "+")]; ok {
			k = rname
		} else {
			k = "_"
		}
	}
	// only tests of a loop-carried local, an object field or an option mask against a constant are part of the row;
	// comparisons between positions are the index-guard rules' business and are spelled in too many ways
	isRole := false
	for _, rn := range role {
		if subj == rn {
			isRole = true
		}
	}
	if !(isRole || strings.HasPrefix(subj, "_.") || strings.HasPrefix(subj, "(flags&") || strings.HasPrefix(subj, "(_&")) {
		return ""
	}
	if _, isNum := strconvAtoi(k); !isNum && k != "true" {
		return ""
	}
	t := "T"
	if !truth {
		t = "F"
	}
	return subj + rel + k + ":" + t
}

func strconvAtoi(s string) (int, bool) {
	n := 0
	if s == "" {
		return 0, false
	}
	for _, ch := range s {
		if ch < '0' || ch > '9' {
			return 0, false
		}
		n = n*10 + int(ch-'0')
	}
	return n, true
}

// plainPathSignature: decision table of a small function without an automaton state: every acyclic path from the
// entry to a return (a back edge ends a path as "again"), with its verdicts, callee / field-action names, cells
// stored and canonical conditions (object fields, option masks and verdict tests against constants, field against
// field).
func plainPathSignature(c *Ctx, fn string) []string {
	f := c.SFuncs[fn]
	if f == nil {
		return nil
	}
	sp := fsmSpec{fn: f, stateVar: "none", constName: map[int64]string{0: "any"}}
	e := newErrAnalysis(c.Prog)
	res := &fsmResult{spec: sp}
	for _, t := range enumPaths(c, e, sp, 0) {
		t.From = 0
		if t.Exit == "" {
			t.Exit = "again"
		}
		res.post = append(res.post, t)
	}
	if len(res.post) == 0 {
		return nil
	}
	plainConds = true
	defer func() { plainConds = false }()
	return fsmSignature(res)
}

var plainConds bool
