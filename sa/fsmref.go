package main

import (
	"embed"
	"fmt"
	"go/token"
	"sort"
	"strings"
)

// Reference automata. The rules above argue the properties on the automata extracted from the pinned tree; this
// rule pins the automata themselves: for each scanning parser the set of (state, byte class) -> (next state or exit,
// verdict set, field actions, returned offset) rows, with every loop-carried local other than the scan index
// abstracted away, must equal the reviewed table stored under ref/. A transition that loses a field action, goes to
// another state, changes its verdict or moves a byte between classes shows up as a missing and an extra row. The table
// is independent of the names of locals, of switch / if spelling and of condition order (conditions are not part of a
// row; rows that differ only in conditions are merged and their byte classes united).

//go:embed ref/*.txt
var refFS embed.FS


func fsmSignature(r *fsmResult) []string {
	// names of the loop-carried locals (keys of Locals), to be abstracted
	locals := map[string]bool{}
	all := append(append([]fsmTrans{}, r.trans...), r.post...)
	for _, t := range all {
		for k := range t.Locals {
			if k != "i" {
				locals[k] = true
			}
		}
	}
	// every variable (parameter, receiver, local) is abstracted to "_": an identifier that is not a field or method
	// name (not preceded by '.'), not a callee (not followed by '(') and not the scan index
	abs := func(s string) string {
		var out strings.Builder
		for i := 0; i < len(s); {
			ch := s[i]
			if ch == '_' || (ch >= 'a' && ch <= 'z') || (ch >= 'A' && ch <= 'Z') {
				j := i
				for j < len(s) && (s[j] == '_' || (s[j] >= 'a' && s[j] <= 'z') || (s[j] >= 'A' && s[j] <= 'Z') || (s[j] >= '0' && s[j] <= '9')) {
					j++
				}
				id := s[i:j]
				isField := i > 0 && s[i-1] == '.'
				isCall := j < len(s) && s[j] == '('
				switch {
				case isField || isCall || id == "i" || id == "true" || id == "false" || id == "nil" || id == "len":
					out.WriteString(id)
				default:
					_ = locals
					out.WriteString("_")
				}
				i = j
				continue
			}
			out.WriteByte(ch)
			i++
		}
		return out.String()
	}
	type row struct {
		key   string
		bytes *ByteSet
	}
	rows := map[string]*row{}
	add := func(t fsmTrans, post bool) {
		var calls, stores []string
		for _, cl := range t.Calls {
			if strings.Contains(cl, "(") { // calls rendered with arguments: field actions
				calls = append(calls, abs(cl))
			} else {
				calls = append(calls, cl)
			}
		}
		for _, st := range t.Stores {
			stores = append(stores, abs(st))
		}
		idx := ""
		if v, ok := t.Locals["i"]; ok {
			idx = abs(v)
		}
		to := r.name(t.To)
		kind := "step"
		if t.Exit == "return" {
			kind = "return " + vsStr(t.Verd) + " offs=" + abs(t.RetOffs)
		}
		if post {
			kind = "exhausted " + kind
		}
		k := fmt.Sprintf("%s | %s -> %s | i:%s | calls=%s | stores=%s", r.name(t.From), kind, to, idx, strings.Join(calls, " "), strings.Join(stores, " "))
		if rw, ok := rows[k]; ok {
			if t.Bytes != nil {
				rw.bytes = rw.bytes.union(t.Bytes)
			}
			return
		}
		b := emptySet()
		if t.Bytes != nil {
			b = t.Bytes
		}
		rows[k] = &row{k, b}
	}
	// a step that consumes nothing (index unchanged) and only moves to another state is composed with the steps of
	// that state on the same bytes: the table describes what happens to a byte, not how many times the loop goes
	// round for it
	byFrom := map[int64][]fsmTrans{}
	for _, t := range r.trans {
		byFrom[t.From] = append(byFrom[t.From], t)
	}
	var expand func(t fsmTrans, depth int) []fsmTrans
	expand = func(t fsmTrans, depth int) []fsmTrans {
		if t.Exit != "" || t.Locals["i"] != "=" || t.To == t.From || t.To < 0 || depth > 4 || t.Bytes == nil {
			return []fsmTrans{t}
		}
		var out []fsmTrans
		for _, t2 := range byFrom[t.To] {
			if t2.Bytes == nil {
				continue
			}
			inter := t.Bytes.filter(func(i int) bool { return t2.Bytes.has(i) })
			if inter.empty() {
				continue
			}
			c := t2
			c.From = t.From
			c.Bytes = inter
			c.Calls = append(append([]string{}, t.Calls...), t2.Calls...)
			c.Stores = append(append([]string{}, t.Stores...), t2.Stores...)
			out = append(out, expand(c, depth+1)...)
		}
		if len(out) == 0 {
			return []fsmTrans{t}
		}
		return out
	}
	for _, t := range r.trans {
		for _, e := range expand(t, 0) {
			add(e, false)
		}
	}
	for _, t := range r.post {
		add(t, true)
	}
	var out []string
	for _, rw := range rows {
		out = append(out, rw.key+" | bytes="+rw.bytes.String())
	}
	sort.Strings(out)
	return out
}

func fsmRefRule(c *Ctx, rule, fn string) {
	r := fsmOf(c, fn)
	if r == nil || r.head == nil || r.capped {
		c.fail(rule, fn+":fsm", token.NoPos, "state machine could not be extracted")
		return
	}
	got := fsmSignature(r)
	data, err := refFS.ReadFile("ref/" + fn + ".txt")
	if err != nil {
		c.fail(rule, fn+":reference", token.NoPos, "no reference table")
		return
	}
	want := strings.Split(strings.TrimRight(string(data), "\n"), "\n")
	ws, gs := map[string]bool{}, map[string]bool{}
	for _, l := range want {
		ws[l] = true
	}
	for _, l := range got {
		gs[l] = true
	}
	var missing, extra []string
	for _, l := range want {
		if !gs[l] {
			missing = append(missing, l)
		}
	}
	for _, l := range got {
		if !ws[l] {
			extra = append(extra, l)
		}
	}
	for i, l := range missing {
		if i < 4 {
			c.fail(rule, fmt.Sprintf("%s:row-missing#%d", fn, i+1), token.NoPos, "the reviewed automaton has this row, the tree does not: "+l)
		}
	}
	for i, l := range extra {
		if i < 4 {
			c.fail(rule, fmt.Sprintf("%s:row-extra#%d", fn, i+1), token.NoPos, "the tree's automaton has a row the reviewed one does not: "+l)
		}
	}
	c.check(len(missing) == 0 && len(extra) == 0, rule, fn+":automaton", token.NoPos, fmt.Sprintf("the extracted automaton of %s (%d rows: state x byte class -> next state / exit, verdicts, field actions, returned offset) equals the reviewed reference table; %d missing, %d extra", fn, len(got), len(missing), len(extra)))
}
