package main

import (
	"go/constant"
	"fmt"
	"go/ast"
	"go/token"
	"go/types"
	"sort"
	"strings"

	"golang.org/x/tools/go/ssa"
)

// W1: read-set bound of GetMsgSig and everything it calls.
var sigAllowedReads = map[string]string{
	"PSIPMsg.FL": "first line", "PFLine.Status": "request/reply test", "PFLine.MethodNo": "method",
	"PSIPMsg.PV": "parsed values", "PHdrVals.Callid": "Call-ID", "PCallIDBody.CallID": "Call-ID span",
	"PHdrVals.From": "From", "PFromBody.Tag": "From tag span",
	"PSIPMsg.HL": "header list", "HdrLst.Hdrs": "stored headers", "HdrLst.PFlags": "type flags", "HdrLst.N": "header count",
	"Hdr.Type": "header type", "Hdr.Name": "compact-form test", "Hdr.Val": "Via value", "PField.Len": "span length", "PField.Offs": "span start",
	"PSIPMsg.Buf": "message bytes",
	"MsgSig.Method": "own result", "MsgSig.HdrSigLen": "own result", "MsgSig.HdrSig": "own result",
	"PTokParam.Name": "Via parameter name", "PTokParam.Val": "Via parameter value", "PTokParam.All": "Via parameter span", "PTokParam.state": "Via parameter parser state",
}

func ruleW1(c *Ctx) {
	root := c.SFuncs["GetMsgSig"]
	if root == nil {
		c.fail("W1", "GetMsgSig", token.NoPos, "not found")
		return
	}
	seen := map[*ssa.Function]bool{}
	reads := map[string]token.Pos{}
	var visit func(f *ssa.Function)
	visit = func(f *ssa.Function) {
		if seen[f] || f.Blocks == nil || f.Pkg != c.SSA {
			return
		}
		seen[f] = true
		for _, b := range f.Blocks {
			for _, ins := range b.Instrs {
				switch x := ins.(type) {
				case *ssa.FieldAddr:
					if cell := fieldCell(x); cell != "" {
						if _, ok := reads[cell]; !ok {
							reads[cell] = x.Pos()
						}
					}
				case *ssa.Field:
					if st, ok := x.X.Type().Underlying().(*types.Struct); ok {
						cell := typeShort(x.X.Type()) + "." + st.Field(x.Field).Name()
						if _, ok := reads[cell]; !ok {
							reads[cell] = x.Pos()
						}
					}
				case ssa.CallInstruction:
					if cal := x.Common().StaticCallee(); cal != nil {
						visit(cal)
					}
				}
			}
		}
	}
	visit(root)
	var cells []string
	for k := range reads {
		cells = append(cells, k)
	}
	sort.Strings(cells)
	for _, cell := range cells {
		why, ok := sigAllowedReads[cell]
		if strings.HasPrefix(cell, "MsgSig.") {
			why, ok = "own result", true
		}
		c.check(ok, "W1", "reads:"+cell, reads[cell], fmt.Sprintf("GetMsgSig (with its %d callees) touches %s: %s", len(seen)-1, cell, map[bool]string{true: why, false: "NOT part of what the signature is documented to fingerprint"}[ok]))
	}
	c.expectMin("W1", 12)
	// bytes of Buf are obtained only through the three fingerprinted spans
	fd := c.Decls["GetMsgSig"]
	var gets []string
	ast.Inspect(fd.Body, func(n ast.Node) bool {
		if call, ok := n.(*ast.CallExpr); ok && c.calleeName(call) == "PField.Get" {
			gets = append(gets, c.src(call.Fun))
		}
		return true
	})
	sort.Strings(gets)
	c.check(len(gets) == 3 && patInAll(strings.Join(gets, " , "), "@h.Val.Get", "@m.PV.GetCallID().CallID.Get", "@m.PV.GetFrom().Tag.Get"), "W1", "byte-sources", fd.Pos(),
		fmt.Sprintf("message bytes enter the signature only through Call-ID, From-tag and a header value (got %v)", gets))
}

// W2/W3/W4: structure of the header walk.
func ruleW2(c *Ctx) {
	fd := c.Decls["GetMsgSig"]
	if fd == nil {
		c.fail("W2", "GetMsgSig", token.NoPos, "not found")
		return
	}
	// W4: the request test dominates everything else: first statement after the var decl
	var firstIf *ast.IfStmt
	for _, s := range fd.Body.List {
		if is, ok := s.(*ast.IfStmt); ok {
			firstIf = is
			break
		}
		if _, ok := s.(*ast.DeclStmt); !ok {
			break
		}
	}
	okReq := false
	if firstIf != nil && patIn(c.src(firstIf.Cond), "!@m.Request()") {
		if r, ok := firstIf.Body.List[0].(*ast.ReturnStmt); ok && len(r.Results) == 2 && c.constName(r.Results[1]) == "ErrHdrEmpty" {
			okReq = true
		}
	}
	c.check(okReq, "W4", "reply-no-sig", fd.Pos(), "the first statement returns (empty signature, ErrHdrEmpty) for anything that is not a request")
	// W2: loop body = if !seen.Test(h.Type) { seen.Set(h.Type); ... }
	var loop *ast.RangeStmt
	ast.Inspect(fd.Body, func(n ast.Node) bool {
		if r, ok := n.(*ast.RangeStmt); ok && loop == nil {
			loop = r
		}
		return true
	})
	if loop == nil {
		c.fail("W2", "loop", fd.Pos(), "header walk not found")
		return
	}
	c.check(patEq(c.src(loop.X), "@m.HL.Hdrs"), "W2", "walk", loop.Pos(), "the walk ranges over the stored headers in message order")
	h := c.src(loop.Value)
	okFirst := false
	if len(loop.Body.List) == 1 {
		if is, ok := loop.Body.List[0].(*ast.IfStmt); ok && is.Else == nil {
			if es, ok := is.Body.List[0].(*ast.ExprStmt); ok && patInAll(c.src(is.Cond)+" ; "+c.src(es.X), "!@s.Test("+h+".Type) ;", "; @s.Set("+h+".Type)") {
				okFirst = true
			}
		}
	}
	c.check(okFirst, "W2", "first-occurrence", loop.Pos(), "the whole contribution block is guarded by !seen.Test(type) and starts with seen.Set(type): only the first header of a type contributes")
	body := c.src(loop.Body)
	viaOnly := strings.Count(body, h+".Val") == 1
	ast.Inspect(loop.Body, func(n ast.Node) bool {
		if is, ok := n.(*ast.IfStmt); ok && strings.Contains(c.src(is.Body), h+".Val") && !strings.Contains(c.src(is.Cond), ".Test(") {
			if c.src(is.Cond) != h+".Type == HdrVia" || !patIn(c.src(is.Body), "GetViaBrSig("+h+".Val.Get(@m.Buf))") {
				viaOnly = false
			}
		}
		return true
	})
	c.check(viaOnly, "W2", "via-only", loop.Pos(), "a header value is read exactly once, under the test type == HdrVia, and only to extract the branch signature")
	c.check(patIn(body, h+".Type != HdrContact || @g.Method == MInvite"), "W3", "contact-invite", loop.Pos(), "Contact contributes only when the method is INVITE")
	c.check(patIn(body, "if @g.HdrSigLen >= len(@g.HdrSig) { return @g, ErrHdrOk }"), "W3", "eight-entries", loop.Pos(), "at most len(HdrSig) entries are produced (early return)")
	// truncation indicator
	tail := c.src(fd.Body)
	c.check(patIn(tail, "if @m.HL.N > len(@m.HL.Hdrs) {") && patIn(tail, "return @g, ErrHdrTrunc"), "W3", "trunc", fd.Pos(), "a header array too small for the message yields ErrHdrTrunc unless every fingerprinted type was already seen")
}

func ruleW3(c *Ctx) {
	init, _ := c.globalVarInit("sigHdrs")
	cl, ok := init.(*ast.CompositeLit)
	if !ok {
		c.fail("W3", "sigHdrs", token.NoPos, "table not found")
		return
	}
	var got []string
	for _, e := range cl.Elts {
		got = append(got, c.constName(e))
	}
	sort.Strings(got)
	want := []string{"HdrCSeq", "HdrCallID", "HdrContact", "HdrFrom", "HdrMaxFwd", "HdrTo", "HdrUA", "HdrVia"}
	c.check(strings.Join(got, ",") == strings.Join(want, ","), "W3", "sigHdrs", cl.Pos(), fmt.Sprintf("fingerprinted header set is %v (got %v)", want, got))
	mask, _ := c.namedConstInt("HdrSigIdCMask")
	c.check(int64(len(got)) <= mask && mask&(mask-1) == 0 && (mask|int64(len(got)-1)) < 16, "W3", "id-width", cl.Pos(),
		fmt.Sprintf("%d ids fit below the compact bit %#x and id|compact fits one hex digit", len(got), mask))
	// HdrSig array length = len(sigHdrs)
	for _, f := range c.structFields("MsgSig") {
		if f.Name() == "HdrSig" {
			at, ok := f.Type().Underlying().(*types.Array)
			c.check(ok && at.Len() == int64(len(got)), "W3", "HdrSig-len", cl.Pos(), "MsgSig.HdrSig has one slot per fingerprinted header")
		}
	}
	// compact bit iff Name.Len == 1
	if fd := c.Decls["GetHdrSigId"]; fd != nil {
		s := c.src(fd.Body)
		c.check(patIn(s, "if @h.Name.Len == 1 { return HdrSigIdCMask | @s, ErrHdrOk }"), "W3", "compact-bit", fd.Pos(), "the compact bit is set iff the header name has length 1")
	}
	// init fills hdr2SigId from sigHdrs and sigHdrsFlags from the same table
	if fd := c.Decls["init@msg_sig.go"]; fd != nil {
		s := c.src(fd.Body)
		c.check(patIn(s, "range sigHdrs") && patIn(s, "sigHdrsFlags.Set(@s)") && patIn(s, "hdr2SigId[@t] = HdrSigId(@i)"), "W3", "init-tables", fd.Pos(), "id table and flag set are both derived from sigHdrs at init")
	}
}

// W5: text rendering: every hextable index is masked (index-guard rule restricted to String).
func ruleW5(c *Ctx) {
	disableG5 = true // a forged method number must not break the rendering: require the mask, not the enum assumption
	defer func() { disableG5 = false }()
	ruleGFor(c, "W5", map[string]bool{"MsgSig.String": true})
}

// W6: Via branch extraction.
func ruleW6(c *Ctx) {
	fd := c.Decls["GetViaBrSig"]
	if fd == nil {
		c.fail("W6", "GetViaBrSig", token.NoPos, "not found")
		return
	}
	var flagsVal int64 = -1
	ast.Inspect(fd.Body, func(n ast.Node) bool {
		if vs, ok := n.(*ast.ValueSpec); ok && len(vs.Names) == 1 && vs.Names[0].Name == "flags" && len(vs.Values) == 1 {
			flagsVal, _ = c.constInt(vs.Values[0])
		}
		return true
	})
	var want int64
	for _, f := range []string{"POptParamSemiSepF", "POptTokCommaTermF", "POptInputEndF"} {
		v, _ := c.namedConstInt(f)
		want |= v
	}
	c.check(flagsVal == want, "W6", "flags", fd.Pos(), "Via parameters are parsed with exactly {semicolon separator, comma terminator, input end}")
	s := c.src(fd.Body)
	c.check(patIn(s, "@p.Name.Len == 6") && patIn(s, `bytescase.CmpEq(@n, []byte("branch"))`), "W6", "branch-name", fd.Pos(), "the branch parameter is found by length 6 and case-insensitive name")
	c.check(patIn(s, `bytescase.CmpEq(@v[:len(@x)], []byte(@x))`) && patIn(s, "len(@v) > len(@x)"), "W6", "magic-prefix", fd.Pos(), "the RFC 3261 magic prefix is skipped only when the value is longer than it")
	ruleGFor(c, "W6", map[string]bool{"GetViaBrSig": true})
	// the branch test is reached with every completion verdict of the parameter parser (0 = ended by the
	// comma terminator, more-values = another parameter follows, end-of-header = input ended)
	if fn := c.SFuncs["GetViaBrSig"]; fn != nil {
		e := newErrAnalysis(c.Prog)
		var errv ssa.Value
		var test *ssa.BasicBlock
		for _, b := range fn.Blocks {
			for _, ins := range b.Instrs {
				if call, ok := ins.(*ssa.Call); ok && call.Call.StaticCallee() != nil && call.Call.StaticCallee().Name() == "ParseTokenParam" {
					for _, r := range *call.Referrers() {
						if ex, ok := r.(*ssa.Extract); ok && ex.Index == 1 {
							errv = ex
						}
					}
				}
				if bo, ok := ins.(*ssa.BinOp); ok && bo.Op == token.EQL {
					if k, isC := constIntOf(bo.Y); isC && k == 6 {
						if u, ok := bo.X.(*ssa.UnOp); ok && strings.HasSuffix(typedPath(u.X), "Name.Len") {
							test = b
						}
					}
				}
			}
		}
		okAll := false
		got := VSet(0)
		if errv != nil && test != nil {
			got = e.at(errv, test)
			mv, _ := c.namedConstInt("ErrHdrMoreValues")
			eoh, _ := c.namedConstInt("ErrHdrEOH")
			okAll = got.has(0) && got.has(mv) && got.has(eoh)
		}
		c.check(okAll, "W6", "branch-test-reached", fd.Pos(), "the branch-name test is reached with every completion verdict of ParseTokenParam: ok (comma-terminated), more-values, end-of-header (reached with "+e.setName("ErrorHdr", got)+")")
	}
}

// W7: the header list the signature is computed from does not lose a header that fits (shared with C13-K4): the
// header slot &Hdrs[N] is selected exactly when N < len(Hdrs).
func ruleW7(c *Ctx) {
	t := &Ctx{Prog: c.Prog, Prop: c.Prop}
	ruleK4(t)
	for _, o := range t.obls {
		if strings.Contains(o.Key, "ParseHeaders") {
			o.Key = "W7:" + strings.TrimPrefix(o.Key, "K4:")
			o.Rule = "W7"
			c.obls = append(c.obls, o)
		}
	}
	c.expectMin("W7", 1)
}

// W8: the fingerprint trusts Hdr.Type; a header it does not fingerprint must not be classified as one it does. The
// classification table is exactly the documented one (shared with C16-H1): no extra name maps onto a fingerprinted type.
func ruleW8(c *Ctx) {
	t := &Ctx{Prog: c.Prog, Prop: c.Prop}
	ruleH1(t)
	n := 0
	for _, o := range t.obls {
		if strings.HasPrefix(o.Key, "H1:hdr") {
			o.Key = "W8:" + strings.TrimPrefix(o.Key, "H1:")
			o.Rule = "W8"
			c.obls = append(c.obls, o)
			n++
		}
	}
	c.check(n >= 19, "W8", "table-rows", token.NoPos, fmt.Sprintf("%d header-table obligations shared from C16-H1 (frozen minimum 19)", n))
}

// W9: the method fits its digit. MsgSig.String renders the method as one hexadecimal character and flags anything
// that does not fit ('E' plus a wrong digit, one character too many); the bound it tests (found on SSA: the constant
// the converted Method field is compared with) must exceed every declared constant of the method type, so adding a
// method in front of MOther cannot push a reported method out of the encoding.
func ruleW9(c *Ctx) {
	fn := c.SFuncs["MsgSig.String"]
	if fn == nil {
		c.fail("W9", "MsgSig.String", token.NoPos, "not found")
		return
	}
	var bound int64 = -1
	var nt *types.Named
	var pos token.Pos
	for _, b := range fn.Blocks {
		for _, ins := range b.Instrs {
			bo, ok := ins.(*ssa.BinOp)
			if !ok || (bo.Op != token.GEQ && bo.Op != token.GTR && bo.Op != token.LSS && bo.Op != token.LEQ) {
				continue
			}
			k, isK := constIntOf(bo.Y)
			if !isK {
				continue
			}
			v := bo.X
			for i := 0; i < 3; i++ {
				if cv, ok := v.(*ssa.Convert); ok {
					v = cv.X
				}
			}
			var ft types.Type
			switch x := v.(type) {
			case *ssa.Field:
				if st, ok := x.X.Type().Underlying().(*types.Struct); ok && st.Field(x.Field).Name() == "Method" {
					ft = st.Field(x.Field).Type()
				}
			case *ssa.UnOp:
				if fa, ok := x.X.(*ssa.FieldAddr); ok && x.Op == token.MUL {
					if st := derefStruct(fa.X.Type()); st != nil && st.Field(fa.Field).Name() == "Method" {
						ft = st.Field(fa.Field).Type()
					}
				}
			}
			if n, ok := ft.(*types.Named); ok {
				nt = n
				bound = k
				if bo.Op == token.GTR || bo.Op == token.LEQ {
					bound = k + 1
				}
				pos = bo.Pos()
			}
		}
	}
	if nt == nil {
		c.fail("W9", "method-range-test", fn.Pos(), "MsgSig.String does not compare the Method field with a constant bound")
		return
	}
	max, cnt := enumMax(c, nt)
	c.check(cnt >= 10 && max < bound && bound <= 16, "W9", "method-fits-one-digit", pos, fmt.Sprintf("every one of the %d declared %s constants (max %d) is below the bound %d that MsgSig.String renders as one hexadecimal digit", cnt, nt.Obj().Name(), max, bound))
}

// W10: the branch comes from the first Via value. GetViaBrSig walks the parameters one by one with the comma as
// terminator; every offset it hands to ParseTokenParam is the position after the first ';' (bytes.IndexByte of that
// byte) or the continuation offset of the previous ParseTokenParam call, so the walk cannot jump over the comma into a
// later Via value (a substring search for ";branch=" would).
func ruleW10(c *Ctx) {
	fn := c.SFuncs["GetViaBrSig"]
	if fn == nil {
		c.fail("W10", "GetViaBrSig", token.NoPos, "not found")
		return
	}
	inProg := map[ssa.Value]bool{}
	var allowed func(v ssa.Value, depth int) bool
	allowed = func(v ssa.Value, depth int) bool {
		if depth > 40 {
			return false
		}
		if inProg[v] {
			return true
		}
		if _, isPhi := v.(*ssa.Phi); isPhi {
			inProg[v] = true
			defer delete(inProg, v)
		}
		switch x := v.(type) {
		case *ssa.Const:
			return true
		case *ssa.Phi:
			for _, e := range x.Edges {
				if e != ssa.Value(x) && !allowed(e, depth+1) {
					return false
				}
			}
			return true
		case *ssa.BinOp:
			return (x.Op == token.ADD || x.Op == token.SUB) && allowed(x.X, depth+1) && allowed(x.Y, depth+1)
		case *ssa.Extract:
			call, ok := x.Tuple.(*ssa.Call)
			if !ok {
				return false
			}
			cal := call.Call.StaticCallee()
			return cal != nil && cal.Name() == "ParseTokenParam" && x.Index == 0
		case *ssa.Call:
			cal := x.Call.StaticCallee()
			if cal != nil && cal.Pkg != nil && cal.Pkg.Pkg.Path() == "bytes" && cal.Name() == "IndexByte" && len(x.Call.Args) == 2 {
				if k, ok := constIntOf(x.Call.Args[1]); ok && k == ';' {
					_, isParam := x.Call.Args[0].(*ssa.Parameter)
					return isParam
				}
			}
			return false
		}
		return false
	}
	n := 0
	for _, b := range fn.Blocks {
		for _, ins := range b.Instrs {
			call, ok := ins.(*ssa.Call)
			if !ok {
				continue
			}
			cal := call.Call.StaticCallee()
			if cal == nil || cal.Name() != "ParseTokenParam" || len(call.Call.Args) < 2 {
				continue
			}
			n++
			c.check(allowed(call.Call.Args[1], 0), "W10", "walk-offset#"+itoa(n), call.Pos(), "the offset handed to ParseTokenParam is the position after the first ';' of the Via value or the continuation offset of the previous parameter")
			_, isParam := call.Call.Args[0].(*ssa.Parameter)
			c.check(isParam, "W10", "walk-buffer#"+itoa(n), call.Pos(), "the parameters are parsed in the Via value itself (the function's parameter), not in a re-sliced window")
		}
	}
	c.check(n >= 1, "W10", "instances", fn.Pos(), fmt.Sprintf("%d parameter-walk call(s)", n))
}

// W11: every character of the rendering comes from the hexadecimal table or is a literal. Each argument of
// WriteByte in MsgSig.String is a constant (the section letters, the error marker) or an element of the constant
// 16-character table "0123456789abcdef"; arithmetic on '0' is not a hex digit for values 10..15.
func ruleW11(c *Ctx) {
	fn := c.SFuncs["MsgSig.String"]
	if fn == nil {
		c.fail("W11", "MsgSig.String", token.NoPos, "not found")
		return
	}
	n := 0
	for _, b := range fn.Blocks {
		for _, ins := range b.Instrs {
			call, ok := ins.(*ssa.Call)
			if !ok {
				continue
			}
			cal := call.Call.StaticCallee()
			if cal == nil || cal.Name() != "WriteByte" || len(call.Call.Args) != 2 {
				continue
			}
			n++
			a := call.Call.Args[1]
			good, why := false, "computed character"
			switch x := a.(type) {
			case *ssa.Const:
				good, why = true, "literal"
			case *ssa.Lookup:
				if k, ok := x.X.(*ssa.Const); ok && k.Value != nil && k.Value.Kind() == constant.String && constant.StringVal(k.Value) == "0123456789abcdef" {
					good, why = true, "hex table element"
				}
			case *ssa.Index:
				if k, ok := x.X.(*ssa.Const); ok && k.Value != nil && k.Value.Kind() == constant.String && constant.StringVal(k.Value) == "0123456789abcdef" {
					good, why = true, "hex table element"
				}
			}
			if !good {
				why += fmt.Sprintf(" %T", a)
				if lk, ok := a.(*ssa.Lookup); ok {
					why += fmt.Sprintf(" X=%T", lk.X)
				}
			}
			c.check(good, "W11", fmt.Sprintf("MsgSig.String:char#%d", n), call.Pos(), "the character written is a literal or an element of the 16-character hex table ("+why+")")
		}
	}
	c.check(n >= 10, "W11", "characters", fn.Pos(), fmt.Sprintf("%d WriteByte calls in MsgSig.String (frozen minimum 10)", n))
}

// W12: the first Via is looked at before anything can end the scan. Inside the first-occurrence block of GetMsgSig
// (after seen.Set) the test for the Via type, under which the branch part is taken, dominates every return of that
// block: otherwise the "all interesting headers seen" / "signature full" exits skip the branch of a Via that happens
// to be the last fingerprinted header, and inserting an unrelated header in front of it changes the signature.
func ruleW12(c *Ctx) {
	fn := c.SFuncs["GetMsgSig"]
	if fn == nil {
		c.fail("W12", "GetMsgSig", token.NoPos, "not found")
		return
	}
	via, okV := c.namedConstInt("HdrVia")
	var setB, viaB *ssa.BasicBlock
	for _, b := range fn.Blocks {
		for _, ins := range b.Instrs {
			if call, ok := ins.(*ssa.Call); ok {
				if cal := call.Call.StaticCallee(); cal != nil && ssaKey(cal) == "HdrFlags.Set" && setB == nil {
					setB = b
				}
			}
		}
		if iff, ok := b.Instrs[len(b.Instrs)-1].(*ssa.If); ok {
			if bo, ok := iff.Cond.(*ssa.BinOp); ok && (bo.Op == token.EQL || bo.Op == token.NEQ) {
				k, isK := constIntOf(bo.Y)
				if isK && okV && k == via && viaB == nil {
					// it must guard the branch extraction
					for _, su := range b.Succs {
						for _, in2 := range su.Instrs {
							if call, ok := in2.(*ssa.Call); ok {
								if cal := call.Call.StaticCallee(); cal != nil && cal.Name() == "GetViaBrSig" {
									viaB = b
								}
							}
						}
					}
				}
			}
		}
	}
	if setB == nil || viaB == nil {
		c.fail("W12", "GetMsgSig:anchors", fn.Pos(), "first-occurrence marker (seen.Set) or the Via test guarding GetViaBrSig not found")
		return
	}
	n := 0
	for _, b := range fn.Blocks {
		r, ok := b.Instrs[len(b.Instrs)-1].(*ssa.Return)
		if !ok || !setB.Dominates(b) {
			continue
		}
		n++
		c.check(setB.Dominates(viaB) && viaB.Dominates(b), "W12", fmt.Sprintf("GetMsgSig:return-after-first-occurrence#%d", n), r.Pos(), "this return inside the first-occurrence block is dominated by the Via test that takes the branch part")
	}
	c.check(n >= 2, "W12", "returns", fn.Pos(), fmt.Sprintf("%d returns inside the first-occurrence block (frozen minimum 2)", n))
}

func init() {
	register(&PropDef{
		ID: "C19",
		Rules: []Rule{
			{"W1", "read-set bound: the struct fields touched by GetMsgSig and all its static callees are within the documented set (method, Call-ID, From tag, stored headers' type/name length/Via value, flags, count), and message bytes enter only through Call-ID, From-tag and a header value", ruleW1},
			{"W2", "first occurrence only: the contribution block is guarded by !seen.Test(type) and starts with seen.Set(type); a value is read only for Via; replies return no signature first (W4)", ruleW2},
			{"W3", "tables: the eight fingerprinted headers, ids below the compact bit and within one hex digit, one HdrSig slot per header, compact bit iff name length 1, Contact only for INVITE, at most eight entries, explicit truncation indication", ruleW3},
			{"W5", "text rendering: every table index in MsgSig.String is discharged by the index-guard rules (masked with 0xf, or the named HdrSig exception)", ruleW5},
			{"W8", "insertion / removal of other headers: the signature reads Hdr.Type, and the name->type table is exactly the documented 19 pairs (shared with C16-H1), so no other header name is classified as a fingerprinted type", ruleW8},
			{"W7", "array-size independence at the source: ParseHeaders stores a header in the caller's array exactly when N < len(Hdrs) (C13-K4), so a message whose header count equals the capacity is fingerprinted from all of its headers", ruleW7},
			{"W9", "the method fits its digit: the bound MsgSig.String tests before rendering the method as one hexadecimal character (read from the comparison on SSA) exceeds every declared constant of the method type, so no reported method renders as the error marker plus a wrong digit", ruleW9},
			{"W10", "the branch part comes from the first Via value: every offset GetViaBrSig hands to ParseTokenParam is the position after the first ';' (bytes.IndexByte of that byte on the parameter) or the previous call's continuation offset, and the buffer is the Via value itself — the walk is stopped by the comma terminator and never jumps into a later Via value", ruleW10},
			{"W11", "every character of the text rendering is a literal or an element of the constant 16-character hexadecimal table (each WriteByte argument in MsgSig.String), so values 10..15 render as a..f", ruleW11},
			{"W12", "the first Via is looked at before anything can end the scan: inside the first-occurrence block of GetMsgSig the Via test that takes the branch part dominates every return of that block, so the branch part does not depend on which other headers precede the Via", ruleW12},
			{"W6", "Via branch extraction: flag set, branch name test, magic prefix; its index/slice expressions are guarded", ruleW6},
		},
		Assumptions: []string{"MsgSig.HdrSigLen is only produced by GetMsgSig"},
		NotDecided:  "the metamorphic invariances as relations between two runs (W1+W2 are their structural core); the character-class heuristics of getStrCharsSig themselves",
	})
}
