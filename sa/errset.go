package main

import (
	"go/constant"
	"go/token"
	"go/types"
	"sort"
	"strings"

	"golang.org/x/tools/go/ssa"
)

// E-ERR: verdict-set analysis. For every function with a result of an enum
// error type (ErrorHdr / ErrorURI) the set of constants it may return;
// flow-sensitive (forward refinement on ==/!= tests, union at joins),
// inter-procedural fixpoint.

type VSet uint64

func (s VSet) has(i int64) bool { return i >= 0 && i < 64 && s&(1<<uint(i)) != 0 }
func (s VSet) only(i int64) bool { return s == 1<<uint(i) }

type errAnalysis struct {
	p       *Prog
	names   map[string]map[int64]string // type name -> value -> const name
	top     map[string]VSet
	ret     map[*ssa.Function][]VSet
	refine  map[ssa.Value]map[*ssa.BasicBlock]*ByteSet
	changed bool
}

func isErrType(t types.Type) string {
	if n, ok := t.(*types.Named); ok {
		if n.Obj().Name() == "ErrorHdr" || n.Obj().Name() == "ErrorURI" {
			return n.Obj().Name()
		}
	}
	return ""
}

func newErrAnalysis(p *Prog) *errAnalysis {
	e := &errAnalysis{p: p, names: map[string]map[int64]string{}, top: map[string]VSet{}, ret: map[*ssa.Function][]VSet{},
		refine: map[ssa.Value]map[*ssa.BasicBlock]*ByteSet{}}
	sc := p.Types.Scope()
	for _, n := range sc.Names() {
		c, ok := sc.Lookup(n).(*types.Const)
		if !ok {
			continue
		}
		tn := isErrType(c.Type())
		if tn == "" {
			continue
		}
		v, _ := constant.Int64Val(constant.ToInt(c.Val()))
		if e.names[tn] == nil {
			e.names[tn] = map[int64]string{}
		}
		if _, dup := e.names[tn][v]; !dup || n < e.names[tn][v] {
			e.names[tn][v] = n
		}
		e.top[tn] |= 1 << uint(v)
	}
	var fns []*ssa.Function
	for _, f := range p.SFuncs {
		fns = append(fns, f)
	}
	sort.Slice(fns, func(i, j int) bool { return ssaKey(fns[i]) < ssaKey(fns[j]) })
	for _, f := range fns {
		e.ret[f] = make([]VSet, f.Signature.Results().Len())
	}
	for iter := 0; iter < 50; iter++ {
		e.changed = false
		for _, f := range fns {
			e.analyse(f)
		}
		if !e.changed {
			break
		}
	}
	return e
}

func (e *errAnalysis) setName(tn string, s VSet) string {
	var out []string
	for i := int64(0); i < 64; i++ {
		if s.has(i) {
			n := e.names[tn][i]
			if n == "" {
				n = itoa(int(i))
			}
			out = append(out, strings.TrimPrefix(strings.TrimPrefix(n, "ErrHdr"), "Err"))
		}
	}
	return "{" + strings.Join(out, ",") + "}"
}

// refined: possible values of v on entry to block b according to the tests on v alone.
func (e *errAnalysis) refined(v ssa.Value, b *ssa.BasicBlock) VSet {
	fn := b.Parent()
	m, ok := e.refine[v]
	if !ok {
		is := func(o ssa.Value) bool { return o == v }
		m = byteSetsFor(fn, is, nil)
		e.refine[v] = m
	}
	bs := m[b]
	var s VSet
	for i := 0; i < 64; i++ {
		if bs.has(i) {
			s |= 1 << uint(i)
		}
	}
	return s
}

// valueSet: constants v may hold (ignoring control refinement).
func (e *errAnalysis) valueSet(v ssa.Value, seen map[ssa.Value]bool) VSet {
	tn := isErrType(v.Type())
	if tn == "" {
		return ^VSet(0)
	}
	if _, isPhi := v.(*ssa.Phi); isPhi {
		if seen[v] {
			return 0 // cycle through a loop phi: contributes nothing new
		}
		seen[v] = true
		defer delete(seen, v)
	}
	switch a := v.(type) {
	case *ssa.Const:
		if k, ok := constIntOf(a); ok {
			return 1 << uint(k)
		}
	case *ssa.Phi:
		var s VSet
		for i, ed := range a.Edges {
			es := e.valueSet(ed, seen)
			if _, isC := ed.(*ssa.Const); !isC {
				es &= e.refinedOut(ed, a.Block().Preds[i], a.Block())
			}
			s |= es
		}
		return s
	case *ssa.Extract:
		if call, ok := a.Tuple.(*ssa.Call); ok {
			return e.callSet(call, a.Index, tn)
		}
	case *ssa.Call:
		return e.callSet(a, 0, tn)
	case *ssa.ChangeType:
		return e.valueSet(a.X, seen)
	}
	return e.top[tn]
}

// refinedOut: values of v possible when leaving block `from` along the edge to `to`.
func (e *errAnalysis) refinedOut(v ssa.Value, from, to *ssa.BasicBlock) VSet {
	s := e.refined(v, from)
	if iff, ok := from.Instrs[len(from.Instrs)-1].(*ssa.If); ok && len(from.Succs) == 2 && from.Succs[0] != from.Succs[1] {
		bs := emptySet()
		for i := 0; i < 64; i++ {
			if s.has(int64(i)) {
				bs.b.SetBit(&bs.b, i, 1)
			}
		}
		bs = refineByCond(bs, iff.Cond, from.Succs[0] == to, func(o ssa.Value) bool { return o == v })
		var r VSet
		for i := 0; i < 64; i++ {
			if bs.has(i) {
				r |= 1 << uint(i)
			}
		}
		return r
	}
	return s
}

func (e *errAnalysis) callSet(call *ssa.Call, idx int, tn string) VSet {
	if cal := call.Call.StaticCallee(); cal != nil {
		if r, ok := e.ret[cal]; ok && idx < len(r) {
			return r[idx]
		}
		return e.top[tn]
	}
	return e.top[tn]
}

// at: constants v may hold when control is at the start of block b.
func (e *errAnalysis) at(v ssa.Value, b *ssa.BasicBlock) VSet {
	return e.valueSet(v, map[ssa.Value]bool{}) & e.refined(v, b)
}

func (e *errAnalysis) analyse(f *ssa.Function) {
	for _, b := range f.Blocks {
		r, ok := b.Instrs[len(b.Instrs)-1].(*ssa.Return)
		if !ok {
			continue
		}
		for i, v := range r.Results {
			if isErrType(v.Type()) == "" {
				continue
			}
			s := e.at(v, b)
			if e.ret[f][i]|s != e.ret[f][i] {
				e.ret[f][i] |= s
				e.changed = true
			}
		}
	}
}

// errResultIndex: index of the (last) enum-error result of fn, -1 if none.
func errResultIndex(f *ssa.Function) int {
	res := f.Signature.Results()
	for i := res.Len() - 1; i >= 0; i-- {
		if isErrType(res.At(i).Type()) != "" {
			return i
		}
	}
	return -1
}

// returnsOf lists each return with the verdict set it may carry.
type retInfo struct {
	ret *ssa.Return
	set VSet
}

func (e *errAnalysis) returnsOf(f *ssa.Function) []retInfo {
	idx := errResultIndex(f)
	if idx < 0 {
		return nil
	}
	var out []retInfo
	for _, b := range f.Blocks {
		if r, ok := b.Instrs[len(b.Instrs)-1].(*ssa.Return); ok {
			out = append(out, retInfo{r, e.at(r.Results[idx], b)})
		}
	}
	return out
}

var _ = token.NoPos
