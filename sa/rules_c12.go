package main

import (
	"fmt"
	"go/ast"
	"go/token"
	"go/types"
	"golang.org/x/tools/go/ssa"
	"sort"
	"strings"
)

// E-STRUCT: what a Reset/Init method does to each field of its receiver.

type resetInfo struct {
	fd        *ast.FuncDecl
	key       string
	recv      string
	typeName  string
	fields    []string          // struct fields ("" receiver is not a struct)
	wipe      ast.Stmt          // *recv = T{}
	covered   map[string]string // field -> how (before or without wipe)
	restored  map[string]string // field path -> source expr (after wipe)
	saved     map[string]string // local -> field path saved before wipe
	preCalls  []string          // recv.X.Reset() calls before the wipe
	loops     []*ast.ForStmt
	rloops    []*ast.RangeStmt
	undecided []ast.Stmt
	delegated bool // whole receiver handed to another Reset via conversion
}

func (c *Ctx) isZeroExpr(e ast.Expr) bool {
	e = unparen(e)
	if v, ok := c.constInt(e); ok && v == 0 {
		return true
	}
	if tv, ok := c.Info.Types[e]; ok {
		if tv.IsNil() {
			return true
		}
		if tv.Value != nil && tv.Value.String() == "false" {
			return true
		}
		if tv.Value != nil && tv.Value.String() == `""` {
			return true
		}
	}
	if cl, ok := e.(*ast.CompositeLit); ok && len(cl.Elts) == 0 {
		return true
	}
	return false
}

func analyseReset(c *Ctx, key string) *resetInfo {
	fd := c.Decls[key]
	ri := &resetInfo{fd: fd, key: key, covered: map[string]string{}, restored: map[string]string{}, saved: map[string]string{}}
	if fd.Recv == nil || len(fd.Recv.List[0].Names) == 0 {
		return ri
	}
	ri.recv = fd.Recv.List[0].Names[0].Name
	ri.typeName = strings.Split(key, ".")[0]
	for _, f := range c.structFields(ri.typeName) {
		ri.fields = append(ri.fields, f.Name())
	}
	pre := ri.recv + "."
	for _, s := range fd.Body.List {
		switch st := s.(type) {
		case *ast.AssignStmt:
			if len(st.Lhs) != 1 || len(st.Rhs) != 1 {
				ri.undecided = append(ri.undecided, s)
				continue
			}
			l, r := c.src(st.Lhs[0]), c.src(st.Rhs[0])
			switch {
			case l == "*"+ri.recv:
				if c.isZeroExpr(st.Rhs[0]) {
					ri.wipe = s
				} else {
					ri.undecided = append(ri.undecided, s)
				}
			case strings.HasPrefix(l, pre):
				path := strings.TrimPrefix(l, pre)
				if ri.wipe != nil {
					if c.isZeroExpr(st.Rhs[0]) {
						continue // redundant zeroing after the wipe
					}
					ri.restored[path] = r
				} else if c.isZeroExpr(st.Rhs[0]) && !strings.Contains(path, ".") {
					ri.covered[path] = "zero"
				} else {
					ri.undecided = append(ri.undecided, s)
				}
			case st.Tok == token.DEFINE && strings.HasPrefix(r, pre):
				ri.saved[l] = strings.TrimPrefix(r, pre)
			default:
				ri.undecided = append(ri.undecided, s)
			}
		case *ast.ExprStmt:
			call, ok := st.X.(*ast.CallExpr)
			if !ok {
				ri.undecided = append(ri.undecided, s)
				continue
			}
			sel, ok := call.Fun.(*ast.SelectorExpr)
			if !ok {
				ri.undecided = append(ri.undecided, s)
				continue
			}
			base := c.src(sel.X)
			switch {
			case sel.Sel.Name == "Reset" && len(call.Args) == 0 && strings.HasPrefix(base, pre):
				path := strings.TrimPrefix(base, pre)
				if ri.wipe == nil {
					ri.preCalls = append(ri.preCalls, path)
					if !strings.Contains(path, ".") {
						ri.covered[path] = "Reset()"
					}
				}
			case sel.Sel.Name == "Reset" && len(call.Args) == 0 && base == ri.recv:
				ri.covered["*"] = "self.Reset()"
			case sel.Sel.Name == "Reset" && len(call.Args) == 0 && strings.Contains(base, ")("+ri.recv+")"):
				// (*T)(recv).Reset(): whole receiver delegated
				ri.delegated = true
			case sel.Sel.Name == "Init" && strings.HasPrefix(base, pre) && len(call.Args) == 1:
				ri.restored[strings.TrimPrefix(base, pre)+".Init"] = c.src(call.Args[0])
			default:
				ri.undecided = append(ri.undecided, s)
			}
		case *ast.ForStmt:
			ri.loops = append(ri.loops, st)
		case *ast.RangeStmt:
			ri.rloops = append(ri.rloops, st)
		case *ast.IfStmt:
			ri.undecided = append(ri.undecided, s)
		default:
			ri.undecided = append(ri.undecided, s)
		}
	}
	return ri
}

func resetMethods(c *Ctx) []string {
	var ks []string
	for k := range c.Decls {
		if strings.HasSuffix(k, ".Reset") {
			ks = append(ks, k)
		}
	}
	sort.Strings(ks)
	return ks
}

// Z1: field coverage of every Reset.
func ruleZ1(c *Ctx) {
	for _, k := range resetMethods(c) {
		ri := analyseReset(c, k)
		fd := ri.fd
		for _, u := range ri.undecided {
			c.fail("Z1", k+":stmt", u.Pos(), "statement of a Reset method not classifiable (undecided): "+c.src(u))
		}
		t := c.Types.Scope().Lookup(ri.typeName)
		if t == nil {
			c.fail("Z1", k, fd.Pos(), "receiver type not found")
			continue
		}
		if _, isStruct := t.Type().Underlying().(*types.Struct); !isStruct {
			c.check(ri.wipe != nil, "Z1", k, fd.Pos(), "non-struct receiver is assigned its zero value")
			continue
		}
		if ri.wipe != nil || ri.delegated {
			c.ok("Z1", k, fd.Pos(), "whole receiver zeroed (composite wipe or delegated Reset)")
			// restored fields must be slices supplied by the caller
			for path, src := range ri.restored {
				ok := false
				if strings.HasSuffix(path, ".Init") {
					ok = true // setter-style Init(buf): attaches a caller array
				} else if ft := c.fieldPathType(ri.typeName, path); ft != nil {
					_, ok = ft.Underlying().(*types.Slice)
				}
				if _, isSaved := ri.saved[src]; !isSaved && !strings.HasSuffix(path, ".Init") {
					ok = false
				}
				c.check(ok, "Z1", k+":restore:"+path, fd.Pos(), "only caller-supplied slice fields saved before the wipe survive it ("+path+" = "+src+")")
			}
			continue
		}
		if _, ok := ri.covered["*"]; ok {
			c.ok("Z1", k, fd.Pos(), "delegates to own Reset")
			continue
		}
		for _, f := range ri.fields {
			how, ok := ri.covered[f]
			c.check(ok, "Z1", k+":field:"+f, fd.Pos(), fmt.Sprintf("field %s of %s is reset (%s)", f, ri.typeName, how))
		}
	}
	// Init methods that re-initialise: must start with recv.Reset(); later statements only attach caller arrays
	for k, fd := range c.Decls {
		if !strings.HasSuffix(k, ".Init") || fd.Recv == nil || len(fd.Body.List) == 0 {
			continue
		}
		recv := fd.Recv.List[0].Names[0].Name
		callsReset := false
		ast.Inspect(fd.Body, func(n ast.Node) bool {
			if call, ok := n.(*ast.CallExpr); ok && c.src(call.Fun) == recv+".Reset" {
				callsReset = true
			}
			return true
		})
		if !callsReset {
			// setter-style Init(buf): not judged (documented in DESIGN.md) - but the three re-initialising
			// ones of the pinned tree must stay re-initialising
			if k == "PPAIs.Init" || k == "PHdrVals.Init" || k == "PSIPMsg.Init" {
				c.fail("Z1", k+":reset-first", fd.Pos(), "Init no longer calls Reset(): a used object passed to Init keeps its old state")
			}
			continue
		}
		first, _ := fd.Body.List[0].(*ast.ExprStmt)
		c.check(first != nil && c.src(first.X) == recv+".Reset()", "Z1", k+":reset-first", fd.Pos(), "re-initialising Init calls Reset() before anything else")
		for _, s := range fd.Body.List[1:] {
			ok := true
			ast.Inspect(s, func(n ast.Node) bool {
				as, isAs := n.(*ast.AssignStmt)
				if !isAs {
					return true
				}
				for _, l := range as.Lhs {
					tv := c.Info.Types[l]
					if _, isSlice := tv.Type.Underlying().(*types.Slice); !isSlice {
						ok = false
					}
				}
				return true
			})
			c.check(ok, "Z1", k+":after-reset", s.Pos(), "after Reset(), Init only attaches caller-supplied arrays: "+firstLine(c.src(s)))
		}
	}
	c.expectMin("Z1", 19+8)
}

// loopStartsAtZero: `for i := 0; ...` (the init statement sets the loop variable to the constant 0).
func loopStartsAtZero(c *Ctx, l *ast.ForStmt, v string) bool {
	as, ok := l.Init.(*ast.AssignStmt)
	if !ok || len(as.Lhs) != 1 || len(as.Rhs) != 1 || c.src(as.Lhs[0]) != v {
		return false
	}
	k, isC := c.constInt(as.Rhs[0])
	return isC && k == 0
}

func firstLine(s string) string {
	if len(s) > 80 {
		return s[:80] + "…"
	}
	return s
}

// fieldPathType resolves "A.B.C" from a named struct type.
func (c *Ctx) fieldPathType(typeName, path string) types.Type {
	o := c.Types.Scope().Lookup(typeName)
	if o == nil {
		return nil
	}
	t := o.Type()
	for _, part := range strings.Split(path, ".") {
		obj, _, _ := types.LookupFieldOrMethod(t, true, c.Types, part)
		v, ok := obj.(*types.Var)
		if !ok {
			return nil
		}
		t = v.Type()
	}
	return t
}

// Z2: surviving arrays are clean where the parser may have written (index N included).
func ruleZ2(c *Ctx) {
	for _, k := range resetMethods(c) {
		ri := analyseReset(c, k)
		if ri.wipe == nil {
			continue
		}
		for path, src := range ri.restored {
			if strings.Contains(path, ".") {
				continue // composition is Z3
			}
			ft := c.fieldPathType(ri.typeName, path)
			if ft == nil {
				continue
			}
			st, ok := ft.Underlying().(*types.Slice)
			if !ok {
				continue
			}
			// only element types that carry parser state (have a Reset method) can be left half-parsed
			if m, _, _ := types.LookupFieldOrMethod(st.Elem(), true, c.Types, "Reset"); m == nil {
				continue
			}
			// writer idiom: &x.S[x.N] somewhere in the package
			writers := c.writersAtCounter(ri.typeName, path)
			sl := ri.recv + "." + path
			key := k + ":clear:" + path
			done := false
			for _, l := range ri.loops {
				be, ok := l.Cond.(*ast.BinaryExpr)
				if !ok || be.Op != token.LSS {
					continue
				}
				if !loopResetsElems(c, l.Body, sl, src, c.src(be.X)) {
					continue
				}
				done = true
				bound := c.src(be.Y)
				switch {
				case (bound == "len("+sl+")" || bound == "len("+src+")") && !loopStartsAtZero(c, l, c.src(be.X)):
					c.fail("Z2", key, l.Pos(), "the clearing loop does not start at element 0: the first element of "+path+" keeps its old state")
				case bound == "len("+sl+")" || bound == "len("+src+")":
					c.ok("Z2", key, l.Pos(), fmt.Sprintf("clearing loop covers all len(%s) elements (writers hand out &%s[N] before N++: %v)", path, path, writers))
				default:
					why := "bound " + bound + " not recognised (undecided)"
					if call, ok := unparen(be.Y).(*ast.CallExpr); ok {
						if h := c.Decls[c.calleeName(call)]; h != nil && returnsMinNLen(c, h, path) {
							why = "bound " + bound + " = min(N, len(" + path + ")) does not cover index N, where a suspended/failed parse leaves a half-parsed element (writers: " + strings.Join(writers, ",") + ")"
						}
					}
					c.fail("Z2", key, l.Pos(), why)
				}
			}
			for _, l := range ri.rloops {
				if c.src(l.X) == sl && l.Key != nil && loopResetsElems(c, l.Body, sl, src, c.src(l.Key)) {
					done = true
					c.ok("Z2", key, l.Pos(), "range loop clears every element")
				}
			}
			if !done {
				c.fail("Z2", key, ri.fd.Pos(), "restored slice "+path+" is not cleared before it is restored")
			}
		}
	}
	c.expectMin("Z2", 4)
}

func loopResetsElems(c *Ctx, body *ast.BlockStmt, sl, saved, idx string) bool {
	found := false
	ast.Inspect(body, func(n ast.Node) bool {
		if call, ok := n.(*ast.CallExpr); ok {
			s := c.src(call.Fun)
			if s == sl+"["+idx+"].Reset" || s == saved+"["+idx+"].Reset" {
				found = true
			}
		}
		return true
	})
	return found
}

// returnsMinNLen recognises `if x.N > len(x.S) { return len(x.S) }; return x.N`.
func returnsMinNLen(c *Ctx, fd *ast.FuncDecl, path string) bool {
	var rets []string
	ast.Inspect(fd.Body, func(n ast.Node) bool {
		if r, ok := n.(*ast.ReturnStmt); ok && len(r.Results) == 1 {
			rets = append(rets, c.src(r.Results[0]))
		}
		return true
	})
	if len(rets) != 2 || fd.Recv == nil {
		return false
	}
	r := fd.Recv.List[0].Names[0].Name
	a, b := "len("+r+"."+path+")", r+".N"
	return (rets[0] == a && rets[1] == b) || (rets[0] == b && rets[1] == a)
}

// writersAtCounter lists functions containing &x.<path>[x.N].
func (c *Ctx) writersAtCounter(typeName, path string) []string {
	var out []string
	for _, k := range c.funcKeys() {
		fd := c.Decls[k]
		if fd.Body == nil {
			continue
		}
		ast.Inspect(fd.Body, func(n ast.Node) bool {
			u, ok := n.(*ast.UnaryExpr)
			if !ok || u.Op != token.AND {
				return true
			}
			ix, ok := u.X.(*ast.IndexExpr)
			if !ok {
				return true
			}
			se, ok := ix.X.(*ast.SelectorExpr)
			if !ok || se.Sel.Name != path {
				return true
			}
			bt := c.Info.Types[se.X].Type
			if pt, ok := bt.(*types.Pointer); ok {
				bt = pt.Elem()
			}
			if nt, ok := bt.(*types.Named); !ok || nt.Obj().Name() != typeName {
				return true
			}
			if c.src(ix.Index) == c.src(se.X)+".N" {
				out = append(out, k)
			}
			return true
		})
	}
	return out
}

// Z3: composition in PSIPMsg.Reset.
func ruleZ3(c *Ctx) {
	ri := analyseReset(c, "PSIPMsg.Reset")
	if ri.fd == nil || ri.wipe == nil {
		c.fail("Z3", "PSIPMsg.Reset", token.NoPos, "no wipe found")
		return
	}
	var got []string
	for p := range ri.restored {
		got = append(got, p)
	}
	sort.Strings(got)
	want := []string{"Buf", "HL.Hdrs", "PV.Contacts.Init"}
	c.check(strings.Join(got, ",") == strings.Join(want, ","), "Z3", "PSIPMsg.Reset:restored", ri.fd.Pos(),
		fmt.Sprintf("exactly Buf, HL.Hdrs and PV.Contacts.Vals survive the wipe (got %v)", got))
	// each restored value was saved from the same field
	for p, src := range ri.restored {
		from := ri.saved[src]
		want := strings.TrimSuffix(p, ".Init")
		if strings.HasSuffix(p, ".Init") {
			want += ".Vals"
		}
		c.check(from == want, "Z3", "PSIPMsg.Reset:pair:"+p, ri.fd.Pos(), fmt.Sprintf("%s restored from the copy of %s (saved from %s)", p, want, from))
	}
	// the arrays behind the restored slices are cleaned (through Z2-checked resets) before the wipe
	pre := strings.Join(ri.preCalls, ",")
	c.check(strings.Contains(pre, "PV"), "Z3", "PSIPMsg.Reset:pre:PV", ri.fd.Pos(), "PV.Reset() runs before the wipe (clears the contacts array, Z2)")
	c.check(strings.Contains(pre, "HL"), "Z3", "PSIPMsg.Reset:pre:HL", ri.fd.Pos(), "HL.Reset() runs before the wipe (clears the header array, Z2)")
	// PHdrVals.Reset reaches Contacts.Reset
	hv := analyseReset(c, "PHdrVals.Reset")
	c.check(hv.covered["Contacts"] == "Reset()", "Z3", "PHdrVals.Reset:Contacts", hv.fd.Pos(), "PHdrVals.Reset resets the contact list through PContacts.Reset")
}

// Z5: the typestate predicates say what the state says. Empty() is true exactly in the initial state, Parsed()
// exactly in the finished state, Pending() exactly in every other one, Err() exactly in the error state; for the
// list objects Empty() is N == 0 and Parsed() is N > 0; PFLine.Request() is Status == 0. Decided by evaluating each
// predicate's SSA for every value of the single field it reads. (A fresh or reset object must look empty, a
// finished one parsed: the dispatcher and the callers of Reset rely on these.)
func ruleZ5(c *Ctx) {
	type spec struct {
		typ, parser string
		prefixes    []string
	}
	n := 0
	evalPred := func(fn *ssa.Function, val int64) (res bool, field string, ok bool) {
		b := fn.Blocks[0]
		var prev *ssa.BasicBlock
		var ev func(v ssa.Value) (int64, bool, bool) // (int value, bool value, ok)
		ev = func(v ssa.Value) (int64, bool, bool) {
			switch x := v.(type) {
			case *ssa.Const:
				if k, isC := constIntOf(x); isC {
					return k, k != 0, true
				}
				if x.Value != nil {
					return 0, x.Value.String() == "true", true
				}
			case *ssa.UnOp:
				if x.Op == token.NOT {
					_, bv, okk := ev(x.X)
					return 0, !bv, okk
				}
				if x.Op == token.MUL {
					if fa, isF := x.X.(*ssa.FieldAddr); isF {
						if st := derefStruct(fa.X.Type()); st != nil {
							name := st.Field(fa.Field).Name()
							if field == "" || field == name {
								field = name
								return val, val != 0, true
							}
						}
					}
				}
			case *ssa.Field:
				if st, isS := x.X.Type().Underlying().(*types.Struct); isS {
					name := st.Field(x.Field).Name()
					// embedded internal-state struct: look through
					if inner, isI := x.X.(*ssa.Field); isI {
						_ = inner
					}
					if _, isStruct := x.Type().Underlying().(*types.Struct); isStruct {
						return 0, false, false
					}
					if field == "" || field == name {
						field = name
						return val, val != 0, true
					}
				}
			case *ssa.Convert:
				return ev(x.X)
			case *ssa.ChangeType:
				return ev(x.X)
			case *ssa.Phi:
				for j, p := range x.Block().Preds {
					if p == prev {
						return ev(x.Edges[j])
					}
				}
			case *ssa.BinOp:
				a, _, ok1 := ev(x.X)
				bb, _, ok2 := ev(x.Y)
				if !ok1 || !ok2 {
					return 0, false, false
				}
				var r bool
				switch x.Op {
				case token.EQL:
					r = a == bb
				case token.NEQ:
					r = a != bb
				case token.LSS:
					r = a < bb
				case token.LEQ:
					r = a <= bb
				case token.GTR:
					r = a > bb
				case token.GEQ:
					r = a >= bb
				default:
					return 0, false, false
				}
				return 0, r, true
			}
			return 0, false, false
		}
		for steps := 0; steps < 50; steps++ {
			switch t := b.Instrs[len(b.Instrs)-1].(type) {
			case *ssa.Return:
				_, r, okk := ev(t.Results[0])
				return r, field, okk
			case *ssa.If:
				_, cv, okk := ev(t.Cond)
				if !okk {
					return false, field, false
				}
				prev = b
				if cv {
					b = b.Succs[0]
				} else {
					b = b.Succs[1]
				}
			case *ssa.Jump:
				prev = b
				b = b.Succs[0]
			default:
				return false, field, false
			}
		}
		return false, field, false
	}
	for _, sp := range []spec{
		{"PCallIDBody", "ParseCallIDVal", []string{"ci"}}, {"PUIntBody", "ParseUIntVal", []string{"cl"}}, {"PCSeqBody", "ParseCSeqVal", []string{"cs"}},
		{"PFLine", "ParseFLine", []string{"fl"}}, {"PFromBody", "ParseNameAddrPVal", []string{"fb"}}, {"PSIPMsg", "ParseSIPMsg", []string{"SIPMsg"}},
	} {
		consts := stateConstsOf(c, sp.parser, sp.prefixes...)
		var initV, finV, errV int64 = -1, -1, -1
		for k, name := range consts {
			switch {
			case strings.HasSuffix(name, "Init") && !strings.Contains(strings.TrimSuffix(name, "Init"), "Init") && len(name) <= len(sp.prefixes[0])+4:
				initV = k
			case strings.HasSuffix(name, "FIN"):
				finV = k
			case strings.HasSuffix(name, "Err") || strings.HasSuffix(name, "ERR"):
				errV = k
			}
		}
		for _, m := range []string{"Empty", "Parsed", "Pending", "Err"} {
			fn := c.SFuncs[sp.typ+"."+m]
			if fn == nil {
				continue
			}
			if initV < 0 || finV < 0 {
				c.fail("Z5", sp.typ+"."+m, fn.Pos(), "initial / finished state constants not identified")
				continue
			}
			n++
			okAll, bad := true, ""
			fld := ""
			for v := int64(0); v < 64; v++ {
				got, f, okk := evalPred(fn, v)
				if !okk {
					okAll, bad = false, "the predicate could not be evaluated (reads more than one field or calls something)"
					break
				}
				fld = f
				var want bool
				switch m {
				case "Empty":
					want = v == initV
				case "Parsed":
					want = v == finV
				case "Pending":
					want = v != initV && v != finV
				case "Err":
					want = v == errV
				}
				if got != want {
					okAll, bad = false, fmt.Sprintf("for state value %d (%s) it answers %v", v, consts[v], got)
					break
				}
			}
			c.check(okAll && fld == "state", "Z5", sp.typ+"."+m, fn.Pos(), sp.typ+"."+m+"() is decided by the state field alone and is true exactly "+map[string]string{"Empty": "in the initial state", "Parsed": "in the finished state", "Pending": "in every state other than initial and finished", "Err": "in the error state"}[m]+" "+bad)
		}
	}
	for _, lp := range []struct{ typ, m, field string }{{"PContacts", "Empty", "N"}, {"PContacts", "Parsed", "N"}, {"PPAIs", "Empty", "N"}, {"PPAIs", "Parsed", "N"}, {"PFLine", "Request", "Status"}} {
		fn := c.SFuncs[lp.typ+"."+lp.m]
		if fn == nil {
			c.fail("Z5", lp.typ+"."+lp.m, token.NoPos, "not found")
			continue
		}
		n++
		okAll, bad := true, ""
		fld := ""
		for v := int64(0); v < 8; v++ {
			got, f, okk := evalPred(fn, v)
			if !okk {
				okAll, bad = false, "the predicate could not be evaluated"
				break
			}
			fld = f
			want := v == 0
			if lp.m == "Parsed" {
				want = v > 0
			}
			if got != want {
				okAll, bad = false, fmt.Sprintf("for %s == %d it answers %v", lp.field, v, got)
				break
			}
		}
		c.check(okAll && fld == lp.field, "Z5", lp.typ+"."+lp.m, fn.Pos(), lp.typ+"."+lp.m+"() is decided by "+lp.field+" alone: "+map[string]string{"Empty": "== 0", "Parsed": "> 0", "Request": "== 0"}[lp.m]+" "+bad)
	}
	c.check(n >= 20, "Z5", "predicates", token.NoPos, fmt.Sprintf("%d typestate predicates evaluated (frozen minimum 20)", n))
}

// Z6: the caller's arrays keep the caller's size. A capacity field (HdrLst.Hdrs, PContacts.Vals, URIParamsLst.Params,
// URIHdrsLst.Hdrs) is assigned only in Init / Reset methods, and what Reset puts back is the saved slice itself, not a
// re-sliced view of it (hl.Hdrs[:cap(hl.Hdrs)], hl.Hdrs[:N]): a parser that trims the array to the elements it
// stored, or a Reset that widens it again, gives a reset object a different capacity from a new one built on the same
// caller slice (and writes into the caller's neighbouring elements).
func ruleZ6(c *Ctx) {
	var keys []string
	for k := range c.Prog.SFuncs {
		keys = append(keys, k)
	}
	sort.Strings(keys)
	n := 0
	for _, k := range keys {
		fn := c.Prog.SFuncs[k]
		if fn == nil {
			continue
		}
		ord := 0
		for _, b := range fn.Blocks {
			for _, ins := range b.Instrs {
				st, ok := ins.(*ssa.Store)
				if !ok {
					continue
				}
				fa, ok := st.Addr.(*ssa.FieldAddr)
				if !ok || !capacityFields[fieldCell(fa)] {
					continue
				}
				if _, isSlice := st.Val.Type().Underlying().(*types.Slice); !isSlice {
					continue
				}
				n++
				ord++
				key := fmt.Sprintf("%s:%s#%d", k, fieldCell(fa), ord)
				nm := fn.Name()
				if nm != "Init" && nm != "Reset" {
					c.fail("Z6", key, st.Pos(), "the caller's array "+fieldCell(fa)+" is re-assigned outside Init/Reset: its length (the capacity the caller chose) changes while parsing")
					continue
				}
				good, why := true, "parameter / saved slice / private default"
				if sl, ok := st.Val.(*ssa.Slice); ok {
					// a slice expression over a loaded capacity field is a resized view of the caller's array
					x := sl.X
					if u, ok := x.(*ssa.UnOp); ok && u.Op == token.MUL {
						if f2, ok := u.X.(*ssa.FieldAddr); ok && capacityFields[fieldCell(f2)] {
							good, why = false, "a re-sliced view of "+fieldCell(f2)
						}
					}
				}
				c.check(good, "Z6", key, st.Pos(), "the value put into "+fieldCell(fa)+" is the caller's slice as given ("+why+")")
			}
		}
	}
	c.check(n >= 6, "Z6", "instances", token.NoPos, fmt.Sprintf("%d assignments of caller arrays (frozen minimum 6)", n))
}

func init() {
	register(&PropDef{
		ID: "C12",
		Rules: []Rule{
			{"Z1", "every Reset method zeroes its whole receiver (composite wipe) or resets every field of the receiver type; only caller-supplied slices saved before the wipe survive it; re-initialising Init methods call Reset first and then only attach caller arrays", ruleZ1},
			{"Z2", "a slice that survives Reset is cleared over its full length: the writers hand out element [N] before N++, so a bound of min(N,len) leaves a half-parsed element behind", ruleZ2},
			{"Z5", "the typestate predicates say what the state says (evaluated on SSA for every value of the one field they read): Empty() true exactly in the initial state, Parsed() exactly in the finished state, Pending() exactly in every other, Err() exactly in the error state; list objects: Empty() is N == 0, Parsed() is N > 0; PFLine.Request() is Status == 0 — a reset object looks empty, a finished one parsed", ruleZ5},
			{"Z6", "the caller's arrays keep the caller's size: a capacity field (HdrLst.Hdrs, PContacts.Vals, URIParamsLst.Params, URIHdrsLst.Hdrs) is assigned only in Init / Reset methods, and never a re-sliced view of itself (x[:cap(x)], x[:N]), so a reset object has the capacity of a new one built on the same slice", ruleZ6},
			{"Z4", "a re-initialising Init (Reset first) assigns every array that survives Reset on every path, so that nil arguments select the private defaults and never the arrays of the previous use", ruleZ4},
			{"Z3", "PSIPMsg.Reset restores exactly Buf, HL.Hdrs and PV.Contacts.Vals, each from its own saved copy, after PV.Reset()/HL.Reset() cleaned the arrays", ruleZ3},
		},
		Assumptions: []string{"setter-style Init(buf) methods that only attach an array (PContacts.Init, URIParamsLst.Init, URIHdrsLst.Init) are not 'init operations' in the sense of the property", "no state outside the object (C04-I1)"},
		NotDecided:  "behavioural equality of later parses as values; the rule decides that no field or array element reachable from the object can carry state across Reset",
	})
}

// survivors: slice paths (relative to the receiver) that survive T.Reset().
func survivors(c *Ctx, typeName string, depth int) []string {
	if depth > 3 || c.Decls[typeName+".Reset"] == nil {
		return nil
	}
	ri := analyseReset(c, typeName+".Reset")
	var out []string
	if ri.wipe != nil {
		for p := range ri.restored {
			out = append(out, strings.TrimSuffix(p, ".Init"))
		}
		sort.Strings(out)
		return out
	}
	for _, f := range c.structFields(typeName) {
		nt, ok := f.Type().(*types.Named)
		if !ok || ri.covered[f.Name()] != "Reset()" {
			continue
		}
		for _, s := range survivors(c, nt.Obj().Name(), depth+1) {
			out = append(out, f.Name()+"."+s)
		}
	}
	sort.Strings(out)
	return out
}

// mustAssign: does every path through the statement list assign `target` (or call target-prefix.Init)?
func mustAssign(c *Ctx, list []ast.Stmt, target string) bool {
	for _, s := range list {
		switch st := s.(type) {
		case *ast.AssignStmt:
			for _, l := range st.Lhs {
				if c.src(l) == target {
					return true
				}
			}
		case *ast.ExprStmt:
			if call, ok := st.X.(*ast.CallExpr); ok {
				if sel, ok := call.Fun.(*ast.SelectorExpr); ok && sel.Sel.Name == "Init" && strings.HasPrefix(target, c.src(sel.X)) {
					return true
				}
			}
		case *ast.IfStmt:
			if st.Else == nil {
				continue
			}
			thenOK := mustAssign(c, st.Body.List, target)
			elseOK := false
			switch e := st.Else.(type) {
			case *ast.BlockStmt:
				elseOK = mustAssign(c, e.List, target)
			case *ast.IfStmt:
				elseOK = mustAssign(c, []ast.Stmt{e}, target)
			}
			if thenOK && elseOK {
				return true
			}
		case *ast.BlockStmt:
			if mustAssign(c, st.List, target) {
				return true
			}
		}
	}
	return false
}

// Z4: a re-initialising Init assigns every array that survives Reset on every path (the object must not
// keep arrays from its previous use when the caller passes none).
func ruleZ4(c *Ctx) {
	n := 0
	for _, k := range c.funcKeys() {
		fd := c.Decls[k]
		if !strings.HasSuffix(k, ".Init") || fd.Recv == nil || len(fd.Body.List) == 0 {
			continue
		}
		recv := fd.Recv.List[0].Names[0].Name
		first, _ := fd.Body.List[0].(*ast.ExprStmt)
		if first == nil || c.src(first.X) != recv+".Reset()" {
			continue
		}
		tn := strings.TrimSuffix(k, ".Init")
		for _, p := range survivors(c, tn, 0) {
			n++
			c.check(mustAssign(c, fd.Body.List[1:], recv+"."+p), "Z4", k+":"+p, fd.Pos(),
				"array "+p+" survives Reset(); Init assigns it on every path (from the caller's argument or the private default), never keeping the previous one")
		}
	}
	c.check(n >= 4, "Z4", "count", token.NoPos, fmt.Sprintf("%d surviving arrays of re-initialising Init methods checked (frozen minimum 4)", n))
	// the caller's array is the one attached when the caller supplied one: where Init tests a slice parameter against
	// nil, the parameter is used (stored / handed on) on the non-nil edge and never on the nil edge
	m := 0
	for _, k := range c.funcKeys() {
		fn := c.SFuncs[k]
		if fn == nil || !strings.HasSuffix(k, ".Init") {
			continue
		}
		for _, b := range fn.Blocks {
			iff, ok := b.Instrs[len(b.Instrs)-1].(*ssa.If)
			if !ok {
				continue
			}
			bo, ok := iff.Cond.(*ssa.BinOp)
			if !ok || (bo.Op != token.NEQ && bo.Op != token.EQL) {
				continue
			}
			prm, ok := bo.X.(*ssa.Parameter)
			kc, isC := bo.Y.(*ssa.Const)
			if !ok || !isC || kc.Value != nil {
				continue
			}
			if _, isSlice := prm.Type().Underlying().(*types.Slice); !isSlice {
				continue
			}
			nn, nl := b.Succs[0], b.Succs[1]
			if bo.Op == token.EQL {
				nn, nl = nl, nn
			}
			uses := func(root *ssa.BasicBlock) bool {
				for _, b2 := range fn.Blocks {
					if !root.Dominates(b2) || len(root.Preds) != 1 {
						continue
					}
					for _, ins := range b2.Instrs {
						switch x := ins.(type) {
						case *ssa.Store:
							if x.Val == ssa.Value(prm) {
								return true
							}
						case *ssa.Call:
							for _, a := range x.Call.Args {
								if a == ssa.Value(prm) {
									return true
								}
							}
						}
					}
				}
				return false
			}
			m++
			c.check(uses(nn) && !uses(nl), "Z4", k+":caller-array:"+prm.Name(), iff.Cond.Pos(), "the array the caller supplied is attached on the non-nil edge of the test and the private default on the nil edge")
		}
	}
	c.check(m >= 2, "Z4", "nil-tests", token.NoPos, fmt.Sprintf("%d nil tests of caller-supplied arrays in Init methods (frozen minimum 2)", m))
}
