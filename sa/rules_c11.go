package main

import (
	"go/ast"
	"fmt"
	"go/token"
	"go/types"
	"sort"
	"strconv"
	"strings"

	"golang.org/x/tools/go/ssa"
)

// E-FLOW with kind = absolute buffer position.
type kind int

const (
	kNone kind = iota
	kConst
	kPos
	kScl // non-positional: lengths, counts, numbers
	kBad
)

func (k kind) String() string { return [...]string{"-", "const", "position", "scalar", "conflict"}[k] }

func joinKind(a, b kind) kind {
	switch {
	case a == kNone:
		return b
	case b == kNone:
		return a
	case a == b:
		return a
	case a == kConst:
		return b
	case b == kConst:
		return a
	}
	return kBad
}

type kindEnv struct {
	fn    *ssa.Function
	bp    *ssa.Parameter
	kinds map[ssa.Value]kind
}

var posFieldNames = map[string]bool{"ErrOffs": true, "Offs": true, "soffs": true, "pstart": true, "pend": true, "vstart": true, "vend": true, "offs": true}

func (e *kindEnv) seed(v ssa.Value) kind {
	switch x := v.(type) {
	case *ssa.Const:
		return kConst
	case *ssa.Parameter:
		for i, p := range e.fn.Params {
			if p == e.bp && i+1 < len(e.fn.Params) && e.fn.Params[i+1] == x && isIntType(x.Type()) {
				return kPos
			}
		}
		return kScl
	case *ssa.Call:
		if b, ok := x.Call.Value.(*ssa.Builtin); ok && b.Name() == "len" {
			if x.Call.Args[0] == ssa.Value(e.bp) {
				return kPos
			}
			return kScl
		}
		if cal := x.Call.StaticCallee(); cal != nil && sigOffset[ssaKey(cal)] && cal.Signature.Results().Len() == 1 {
			return kPos
		}
		return kScl
	case *ssa.Extract:
		if call, ok := x.Tuple.(*ssa.Call); ok {
			if cal := call.Call.StaticCallee(); cal != nil && sigOffset[ssaKey(cal)] && x.Index == 0 {
				return kPos
			}
		}
		return kScl
	case *ssa.UnOp:
		if x.Op == token.MUL {
			if fa, ok := x.X.(*ssa.FieldAddr); ok {
				st := derefStruct(fa.X.Type())
				if st != nil && posFieldNames[st.Field(fa.Field).Name()] {
					return kPos
				}
			}
			return kScl
		}
	case *ssa.Field:
		if st, ok := x.X.Type().Underlying().(*types.Struct); ok && posFieldNames[st.Field(x.Field).Name()] {
			return kPos
		}
		return kScl
	}
	return kNone
}

type kindIssue struct {
	pos  token.Pos
	key  string
	what string
}

func analyseKinds(c *Ctx, fn *ssa.Function) (map[ssa.Value]kind, []kindIssue) {
	e := &kindEnv{fn: fn, bp: anyBufParam(fn), kinds: map[ssa.Value]kind{}}
	get := func(v ssa.Value) kind {
		if k, ok := e.kinds[v]; ok {
			return k
		}
		return e.seed(v)
	}
	for iter := 0; iter < 20; iter++ {
		changed := false
		for _, b := range fn.Blocks {
			for _, ins := range b.Instrs {
				v, ok := ins.(ssa.Value)
				if !ok || !isIntType(v.Type()) {
					continue
				}
				var nk kind
				switch x := ins.(type) {
				case *ssa.Phi:
					for _, ed := range x.Edges {
						nk = joinKind(nk, get(ed))
					}
				case *ssa.Convert:
					nk = get(x.X)
				case *ssa.ChangeType:
					nk = get(x.X)
				case *ssa.BinOp:
					a, bb := get(x.X), get(x.Y)
					if a == kNone || bb == kNone {
						continue // operand not classified yet in this round
					}
					switch x.Op {
					case token.ADD:
						switch {
						case a == kPos && bb == kPos:
							nk = kBad
						case a == kPos || bb == kPos:
							nk = kPos
						case a == kConst && bb == kConst:
							nk = kConst
						default:
							nk = kScl
						}
					case token.SUB:
						switch {
						case a == kPos && bb == kPos:
							nk = kScl
						case a == kPos:
							nk = kPos
						case bb == kPos:
							nk = kBad
						case a == kConst && bb == kConst:
							nk = kConst
						default:
							nk = kScl
						}
					default:
						if a == kPos || bb == kPos {
							nk = kBad
						} else {
							nk = kScl
						}
					}
				default:
					nk = e.seed(v)
				}
				if nk != kNone && e.kinds[v] != nk {
					e.kinds[v] = nk
					changed = true
				}
			}
		}
		if !changed {
			break
		}
	}
	// checks
	var issues []kindIssue
	cnt := map[string]int{}
	add := func(pos token.Pos, base, what string) {
		cnt[base]++
		k := base
		if cnt[base] > 1 {
			k += "#" + itoa(cnt[base])
		}
		issues = append(issues, kindIssue{pos, k, what})
	}
	le := newLinEnv(linOpts{pathLoads: true})
	name := func(v ssa.Value) string {
		v = stripNarrow(v)
		if u, ok := v.(*ssa.UnOp); ok && u.Op == token.MUL {
			if tp := typedPath(u.X); tp != "" {
				return "+" + tp // keyed by type path: neutral to renaming of the variable
			}
		}
		return le.pretty(le.norm(v))
	}
	for _, b := range fn.Blocks {
		for _, ins := range b.Instrs {
			switch x := ins.(type) {
			case *ssa.BinOp:
				a, bb := get(x.X), get(x.Y)
				switch x.Op {
				case token.LSS, token.LEQ, token.GTR, token.GEQ, token.EQL, token.NEQ:
					if !isIntType(x.X.Type()) {
						continue
					}
					if (a == kPos && bb == kConst) || (a == kConst && bb == kPos) {
						add(x.Pos(), "pos-vs-const:"+name(x.X)+x.Op.String()+name(x.Y), "an absolute position is compared with a constant")
					}
					if (a == kPos && bb == kScl) || (a == kScl && bb == kPos) {
						add(x.Pos(), "pos-vs-scalar:"+name(x.X)+x.Op.String()+name(x.Y), "an absolute position is compared with a length / number")
					}
				default:
					if isIntType(x.Type()) && get(x) == kBad {
						add(x.Pos(), "pos-arith:"+name(x), "a position is used in "+x.Op.String()+" arithmetic that is not translation-equivariant")
					}
				}
			case *ssa.Phi:
				if isIntType(x.Type()) && get(x) == kBad {
					add(x.Pos(), "mixed-phi:"+phiName(x), "a variable holds both positions and non-positional values")
				}
			case *ssa.IndexAddr:
				if x.X == ssa.Value(e.bp) && get(x.Index) != kPos {
					add(x.Pos(), "buf-index:"+name(x.Index), "the buffer is indexed by a "+get(x.Index).String()+", not by a position derived from the start offset")
				}
			case *ssa.Slice:
				if x.X == ssa.Value(e.bp) {
					for _, bd := range []ssa.Value{x.Low, x.High} {
						if bd != nil && get(bd) != kPos {
							add(x.Pos(), "buf-slice:"+name(bd), "the buffer is sliced at a "+get(bd).String()+", not at a position")
						}
					}
				}
			case *ssa.Call:
				cal := x.Call.StaticCallee()
				if cal == nil {
					continue
				}
				ck := ssaKey(cal)
				if ck == "PField.Set" || ck == "PField.Extend" {
					for _, a := range x.Call.Args[1:] {
						if get(a) != kPos {
							add(x.Pos(), "field-arg:"+callLabel(x), "a field boundary is a "+get(a).String()+", not a position: it would not shift with the start offset")
						}
					}
				}
				// the whole buffer handed to a callee that has no start offset
				for i, a := range x.Call.Args {
					if a != ssa.Value(e.bp) {
						continue
					}
					if cal.Pkg == fn.Pkg {
						if i+1 < len(x.Call.Args) && isIntType(x.Call.Args[i+1].Type()) {
							continue // (buf, offs) pair
						}
						if ck == "PField.Get" || ck == "GetPField" || ck == "setFromParamVal" {
							continue // accessors working from field offsets
						}
					}
					add(x.Pos(), "whole-buf:"+ck, "the whole buffer (from index 0) is handed to "+ck+" without a start offset: the result can depend on bytes before the start")
				}
			case *ssa.Return:
				if sigOffset[ssaKey(fn)] || fn.Parent() != nil {
					if len(x.Results) > 0 && isIntType(x.Results[0].Type()) && get(x.Results[0]) != kPos {
						add(x.Pos(), "return-offset:"+name(x.Results[0]), "the returned offset is a "+get(x.Results[0]).String()+", not a position")
					}
				}
			case *ssa.Store:
				fa, ok := x.Addr.(*ssa.FieldAddr)
				if !ok || !isIntType(x.Val.Type()) {
					continue
				}
				st := derefStruct(fa.X.Type())
				fname := st.Field(fa.Field).Name()
				k := get(x.Val)
				if posFieldNames[fname] {
					if k != kPos && k != kConst {
						add(x.Pos(), "posfield-store:"+fieldCell(fa), "a positional field is stored a "+k.String())
					} else if k == kConst {
						// the only constant a position may be set to is the literal 0 (the reset value); a count that
						// starts from a constant (an index into a sub-slice) is not a position in buf
						if kz, isLit := x.Val.(*ssa.Const); !isLit || kz.Value == nil || kz.Int64() != 0 {
							add(x.Pos(), "posfield-store-count:"+fieldCell(fa), "a positional field is stored a value computed from constants only (an index relative to something else than buf)")
						}
					}
				} else if k == kPos && fname != "Len" {
					add(x.Pos(), "pos-leak:"+fieldCell(fa), "a position flows into the non-positional output "+fieldCell(fa))
				}
			}
		}
	}
	return e.kinds, issues
}

// sigOffset: functions f(buf, offs, ...) (int, ...) by signature
var sigOffset = map[string]bool{}

// named exceptions: construct -> reason
var c11Exceptions = map[string]string{
	"PsipURI.AdjustOffs:pos-vs-const:+PField.Offs!=+0":          "presence test: 0 is the absent sentinel (PField.Reset); a component other than the scheme lies after the scheme, so its offset is >= 1 at every start offset",
	"PsipURI.AdjustOffs:pos-vs-const:+PsipURI.Headers.Offs!=+0": "presence test: 0 is the absent sentinel (PField.Reset); a component other than the scheme lies after the scheme, so its offset is >= 1 at every start offset",
	"PsipURI.AdjustOffs:pos-vs-const:+PsipURI.Host.Offs!=+0":    "presence test: 0 is the absent sentinel (PField.Reset); a component other than the scheme lies after the scheme, so its offset is >= 1 at every start offset",
	"PsipURI.AdjustOffs:pos-vs-const:+PsipURI.Params.Offs!=+0":  "presence test: 0 is the absent sentinel (PField.Reset); a component other than the scheme lies after the scheme, so its offset is >= 1 at every start offset",
	"PsipURI.AdjustOffs:pos-vs-const:+PsipURI.Pass.Offs!=+0":    "presence test: 0 is the absent sentinel (PField.Reset); a component other than the scheme lies after the scheme, so its offset is >= 1 at every start offset",
	"PsipURI.AdjustOffs:pos-vs-const:+PsipURI.Port.Offs!=+0":    "presence test: 0 is the absent sentinel (PField.Reset); a component other than the scheme lies after the scheme, so its offset is >= 1 at every start offset",
	"PsipURI.AdjustOffs:pos-vs-const:+PsipURI.User.Offs!=+0":    "presence test: 0 is the absent sentinel (PField.Reset); a component other than the scheme lies after the scheme, so its offset is >= 1 at every start offset",
	"ParseNameAddrPVal:pos-vs-const:+PFromBody.Params.Offs==+0": "'start of params not known yet': a parameter byte is always preceded by ';', so a real start is >= 1 at any start offset",
	"ParseNameAddrPVal:pos-vs-const:+PFromBody.Params.Offs!=+0": "same test at end of header",
	"ParseSIPMsg:buf-slice:+0#2":                                "same (second definitive return)",
	"ParseSIPMsg:buf-slice:+0":                                  "msg.Buf deliberately keeps the buffer from index 0 (fields are absolute offsets into it); RawMsg is the view that starts at the message",
	"ParseCSeqVal:return-offset:+PCSeqBody.CSeq.Offs":           "error offset points back at the offending field (a position read from a positional field)",
}

func ruleC11(c *Ctx) {
	// the function set and the 'offset result' summary are by signature, not by what rule O1 could prove
	sigOffset = map[string]bool{}
	fns := offsetFuncs(c)
	for _, f := range fns {
		sigOffset[ssaKey(f)] = true
	}
	if f := c.SFuncs["setFromParamVal"]; f != nil {
		fns = append(fns, f)
	}
	// relocation and the views of a parsed URI work on positional fields only
	for _, k := range []string{"PsipURI.AdjustOffs", "PsipURI.Long", "PsipURI.Short"} {
		if f := c.SFuncs[k]; f != nil {
			fns = append(fns, f)
		}
	}
	sort.Slice(fns, func(i, j int) bool { return ssaKey(fns[i]) < ssaKey(fns[j]) })
	c.check(len(fns) >= 25, "P", "functions", token.NoPos, fmt.Sprintf("%d (buf, offs)-parametric functions analysed", len(fns)))
	npos := 0
	for _, f := range fns {
		fk := ssaKey(f)
		kinds, issues := analyseKinds(c, f)
		for _, k := range kinds {
			if k == kPos {
				npos++
			}
		}
		for _, is := range issues {
			key := fk + ":" + is.key
			base := key
			if i := strings.LastIndex(base, "#"); i > 0 {
				if _, err := strconv.Atoi(base[i+1:]); err == nil {
					base = base[:i] // the same construct written at another site (e.g. an epilogue spliced at each exit)
				}
			}
			why, ok := c11Exceptions[key]
			if !ok {
				why, ok = c11Exceptions[base]
			}
			if ok {
				c.excepted("P", key, is.pos, why)
				continue
			}
			c.fail("P", key, is.pos, is.what+" — the result would not be invariant under where in the buffer the text starts")
		}
		if len(issues) == 0 {
			c.ok("P", fk, f.Pos(), "every position is only offset, subtracted, compared with positions, used to index/slice the buffer, stored in positional fields or returned")
		}
	}
	// the field type itself: "empty" is a statement about the length alone. A predicate that looks at the
	// offset (or compares the whole field with a constant field) answers differently at offset 0 and at offset k.
	if f := c.SFuncs["PField.Empty"]; f != nil {
		okE, reads := true, 0
		why := ""
		for _, b := range f.Blocks {
			for _, ins := range b.Instrs {
				switch x := ins.(type) {
				case *ssa.BinOp:
					if _, isStruct := x.X.Type().Underlying().(*types.Struct); isStruct {
						okE, why = false, "compares the whole field, offset included"
					}
				case *ssa.Field:
					reads++
					if st, ok := x.X.Type().Underlying().(*types.Struct); ok && posFieldNames[st.Field(x.Field).Name()] {
						okE, why = false, "reads the positional field "+st.Field(x.Field).Name()
					}
				case *ssa.UnOp:
					if fa, ok := x.X.(*ssa.FieldAddr); ok && x.Op == token.MUL {
						reads++
						if st := derefStruct(fa.X.Type()); st != nil && posFieldNames[st.Field(fa.Field).Name()] {
							okE, why = false, "reads the positional field "+st.Field(fa.Field).Name()
						}
					}
				}
			}
		}
		c.check(okE && reads >= 1, "P", "PField.Empty:length-only", f.Pos(), "PField.Empty() is decided by the length alone "+why)
	} else {
		c.fail("P", "PField.Empty:length-only", token.NoPos, "PField.Empty not found")
	}
	c.check(npos >= 200, "P", "position-values", token.NoPos, fmt.Sprintf("%d SSA values of kind position tracked (frozen minimum 200)", npos))
	// 16-bit sums Offs+Len occur only on the two halves of one PField
	n16 := 0
	for _, f := range c.SFuncs {
		for _, b := range f.Blocks {
			for _, ins := range b.Instrs {
				bo, ok := ins.(*ssa.BinOp)
				if !ok || bo.Op != token.ADD || typeShort(bo.Type()) != "OffsT" {
					continue
				}
				u1, ok1 := bo.X.(*ssa.UnOp)
				u2, ok2 := bo.Y.(*ssa.UnOp)
				if !ok1 || !ok2 {
					if f1, ok := bo.X.(*ssa.Field); ok {
						if f2, ok := bo.Y.(*ssa.Field); ok && f1.X == f2.X {
							n16++
							continue
						}
					}
					if ssaKey(f) == "PsipURI.AdjustOffs" || strings.HasPrefix(ssaKey(f), "PsipURI.") {
						n16++
						continue
					}
					c.fail("P", "sum16:"+ssaKey(f), bo.Pos(), "16-bit sum of offsets that is not Offs+Len of one field")
					continue
				}
				fa1, ok1 := u1.X.(*ssa.FieldAddr)
				fa2, ok2 := u2.X.(*ssa.FieldAddr)
				n16++
				c.check(ok1 && ok2 && sameAddr(fa1.X, fa2.X), "P", "sum16:"+ssaKey(f)+":"+addrPath(u1.X), bo.Pos(), "16-bit Offs+Len sum is over the two halves of one field (end of that field)")
			}
		}
	}
	c.check(n16 >= 8, "P", "sum16-count", token.NoPos, fmt.Sprintf("%d 16-bit offset sums checked", n16))
}

// BV: offsets are read against the buffer they were recorded in. Every field of a parsed message holds positions in
// PSIPMsg.Buf; RawMsg is a re-based view of the same bytes (Buf[msg.offs:end]) for the caller's convenience. A value
// loaded from a RawMsg field (directly, through a slice expression or a phi) must not be handed to a function of the
// package: they all interpret their []byte argument with Buf-relative offsets (PField.Get, the signature helpers, the
// parsers), so the result would change — or the slice expression panic — as soon as the message does not start at
// buf[0].
func ruleBV(c *Ctx, rule string) {
	var keys []string
	for k := range c.Prog.SFuncs {
		keys = append(keys, k)
	}
	sort.Strings(keys)
	nFn, nLoads := 0, 0
	for _, k := range keys {
		fn := c.Prog.SFuncs[k]
		if fn == nil {
			continue
		}
		taint := map[ssa.Value]bool{}
		var first token.Pos
		for _, b := range fn.Blocks {
			for _, ins := range b.Instrs {
				if u, ok := ins.(*ssa.UnOp); ok && u.Op == token.MUL {
					if fa, ok := u.X.(*ssa.FieldAddr); ok {
						if sd := derefStruct(fa.X.Type()); sd != nil && sd.Field(fa.Field).Name() == "RawMsg" {
							taint[u] = true
							nLoads++
							if !first.IsValid() {
								first = u.Pos()
							}
						}
					}
				}
			}
		}
		nFn++
		if len(taint) == 0 {
			continue
		}
		for changed := true; changed; {
			changed = false
			for _, b := range fn.Blocks {
				for _, ins := range b.Instrs {
					v, ok := ins.(ssa.Value)
					if !ok || taint[v] {
						continue
					}
					switch x := ins.(type) {
					case *ssa.Slice:
						if taint[x.X] {
							taint[v], changed = true, true
						}
					case *ssa.Phi:
						for _, e := range x.Edges {
							if taint[e] {
								taint[v], changed = true, true
							}
						}
					case *ssa.ChangeType:
						if taint[x.X] {
							taint[v], changed = true, true
						}
					}
				}
			}
		}
		var bad []string
		pos := first
		for _, b := range fn.Blocks {
			for _, ins := range b.Instrs {
				call, ok := ins.(*ssa.Call)
				if !ok {
					continue
				}
				cal := call.Call.StaticCallee()
				if cal == nil || cal.Pkg == nil || cal.Pkg.Pkg != c.Prog.Types {
					continue
				}
				for _, a := range call.Call.Args {
					if taint[a] {
						bad = append(bad, ssaKey(cal)+" at "+c.Prog.pos(call.Pos()))
						pos = call.Pos()
					}
				}
			}
		}
		c.check(len(bad) == 0, rule, k+":RawMsg-not-a-base", pos, fmt.Sprintf("%s reads PSIPMsg.RawMsg; the re-based view is not passed to a package function that applies Buf-relative offsets to it (passed to: %v)", k, bad))
	}
	c.check(nFn >= 100, rule, "functions", token.NoPos, fmt.Sprintf("%d functions scanned for loads of RawMsg, %d loads (frozen minimum 100 functions)", nFn, nLoads))
}

// OW: saved positions stay inside their automaton. An unexported integer field that some function fills with a
// non-constant value (a saved scan position: soffs, pstart/pend/vstart/vend, the message start, the header number of
// the last value) is working storage of the functions that write it: they clear or overwrite it when the element
// completes, so its content means something only between two of their own steps. It is read only by those writers, or
// by a helper all of whose callers are (transitively) such writers. A wrapper that returns such a cell as "the offset
// of the value" returns the offset-0 result, whatever the offset of the message.
func ruleOW(c *Ctx) {
	type cell struct{ tn, fld string }
	writers := map[cell]map[string]bool{}
	readers := map[cell]map[string]token.Pos{}
	var keys []string
	for k := range c.Prog.SFuncs {
		keys = append(keys, k)
	}
	sort.Strings(keys)
	cellOf := func(fa *ssa.FieldAddr) (cell, bool) {
		sd := derefStruct(fa.X.Type())
		if sd == nil {
			return cell{}, false
		}
		f := sd.Field(fa.Field)
		if f.Exported() || f.Pkg() != c.Prog.Types || !isIntType(f.Type()) {
			return cell{}, false
		}
		tn := derefNamed(fa.X.Type()).String()
		if i := strings.LastIndex(tn, "."); i >= 0 {
			tn = tn[i+1:]
		}
		return cell{tn, f.Name()}, true
	}
	callers := map[string]map[string]bool{}
	for _, k := range keys {
		fn := c.Prog.SFuncs[k]
		if fn == nil {
			continue
		}
		for _, b := range fn.Blocks {
			for _, ins := range b.Instrs {
				switch x := ins.(type) {
				case *ssa.Store:
					if fa, ok := x.Addr.(*ssa.FieldAddr); ok {
						if cl, ok := cellOf(fa); ok {
							if _, isK := constIntOf(x.Val); !isK && !strings.HasPrefix(k, "init") {
								if writers[cl] == nil {
									writers[cl] = map[string]bool{}
								}
								writers[cl][k] = true
							}
						}
					}
				case *ssa.UnOp:
					if fa, ok := x.X.(*ssa.FieldAddr); ok && x.Op == token.MUL {
						if cl, ok := cellOf(fa); ok {
							if readers[cl] == nil {
								readers[cl] = map[string]token.Pos{}
							}
							if _, has := readers[cl][k]; !has {
								readers[cl][k] = x.Pos()
							}
						}
					}
				case *ssa.Call:
					if cal := x.Call.StaticCallee(); cal != nil && cal.Pkg != nil && cal.Pkg.Pkg == c.Prog.Types {
						ck := ssaKey(cal)
						if callers[ck] == nil {
							callers[ck] = map[string]bool{}
						}
						callers[ck][k] = true
					}
				}
			}
		}
	}
	// functions that can run: exported ones, the pinned ones, and whatever they call (a helper left without callers,
	// e.g. after the helper-extraction neutraliser inlined its calls, is dead code)
	live := map[string]bool{}
	for _, k := range keys {
		fn := c.Prog.SFuncs[k]
		if fn != nil && (pristineFuncs[k] || ast.IsExported(fn.Name()) || strings.HasPrefix(k, "init")) {
			live[k] = true
		}
	}
	for changed := true; changed; {
		changed = false
		for callee, crs := range callers {
			if live[callee] {
				continue
			}
			for cr := range crs {
				if live[cr] {
					live[callee], changed = true, true
				}
			}
		}
	}
	// a writer that is not a function of the pinned tree (a helper the neutraliser could not inline back) stands for
	// its callers: they own the cell as well
	for _, ws := range writers {
		for changed := true; changed; {
			changed = false
			for w := range ws {
				if pristineFuncs[w] {
					continue
				}
				for cr := range callers[w] {
					if !ws[cr] {
						ws[cr], changed = true, true
					}
				}
			}
		}
	}
	var cells []cell
	for cl := range writers {
		cells = append(cells, cl)
	}
	sort.Slice(cells, func(i, j int) bool {
		if cells[i].tn != cells[j].tn {
			return cells[i].tn < cells[j].tn
		}
		return cells[i].fld < cells[j].fld
	})
	n := 0
	for _, cl := range cells {
		allowed := map[string]bool{}
		for w := range writers[cl] {
			allowed[w] = true
		}
		for changed := true; changed; {
			changed = false
			for r := range callers {
				if allowed[r] || len(callers[r]) == 0 {
					continue
				}
				all, nlive := true, 0
				for cr := range callers[r] {
					if !live[cr] {
						continue // a caller that cannot run (left-over of an inlined helper)
					}
					nlive++
					if !allowed[cr] {
						all = false
					}
				}
				if all && nlive > 0 {
					allowed[r], changed = true, true
				}
			}
		}
		var rs []string
		for r := range readers[cl] {
			rs = append(rs, r)
		}
		sort.Strings(rs)
		for _, r := range rs {
			if !live[r] {
				continue
			}
			n++
			var ws []string
			for w := range writers[cl] {
				ws = append(ws, w)
			}
			sort.Strings(ws)
			c.check(allowed[r], "OW", fmt.Sprintf("%s.%s:read-in:%s", cl.tn, cl.fld, r), readers[cl][r], fmt.Sprintf("the saved position %s.%s is read in %s, which writes it or is called only from its writers %v", cl.tn, cl.fld, r, ws))
		}
	}
	c.check(n >= 12, "OW", "instances", token.NoPos, fmt.Sprintf("%d (saved-position cell, reading function) pairs (frozen minimum 12)", n))
}

func init() {
	register(&PropDef{
		ID: "C11",
		Rules: []Rule{
			{"P", "kind analysis (dataflow to fixpoint on SSA) over every (buf, offs)-parametric function: values are constants, absolute positions (the offs parameter, len(buf), loop indices, offset results, positional fields) or scalars; a position may only be offset by constants/scalars, subtracted from a position (giving a length), compared with a position, used to index or slice the buffer, passed with the buffer, stored in positional fields or returned; comparisons position-vs-constant or position-vs-length, positions in multiplication/masks, positions leaking into non-positional outputs, constant or scalar buffer indices, field boundaries or returned offsets, and handing the whole buffer to a callee without a start offset are violations - by parametricity the outputs are then either shifted by k or unchanged", ruleC11},
			{"BV", "offsets are applied to the buffer they were recorded in: no value loaded from PSIPMsg.RawMsg (the view re-based at the message start), directly or through slice expressions and phis, is passed to a function of the package — PField.Get, the signature helpers and the parsers all interpret their []byte argument with Buf-relative offsets", func(c *Ctx) { ruleBV(c, "BV") }},
			{"OW", "saved positions stay inside their automaton: an unexported integer field that receives non-constant values (saved scan positions, the message start, the last header number) is read only by the functions that write it or by helpers called only from them; nothing else returns or uses such a cell, whose content is cleared or stale once the element completes", ruleOW},
			{"QO", "comparison verdicts do not depend on where the operands sit (shared with C15-Q10): in the pairwise comparison functions every parser / accessor call receives one operand's buffer together with that operand's own offset, never the other's", func(c *Ctx) { ruleQ10(c, "QO") }},
			{"M", "relocation of parsed URIs (the C18 rules M1, M2, M5, M6): every component rebased identically, refusal without mutation, one refusal decided by a difference of positions and every acceptance behind that test (the verdict does not depend on where the URI sits)", func(c *Ctx) { ruleM1(c); ruleM2(c); ruleM5(c); ruleM6(c) }},
		},
		Assumptions: []string{"16-bit field limit (65,535) as documented", "in-package (buf, offs) callees are analysed themselves"},
		NotDecided:  "behaviour exactly at the 65,535 boundary; ParseURI works in URI-relative coordinates (relocation is covered by rule M)",
	})
}
