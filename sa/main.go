// sipsp-sa: repository-specific static analyser for intuitivelabs/sipsp.
// It never compiles-and-runs sipsp code: every verdict comes from the
// type-checked AST, go/cfg and go/ssa forms of the current working tree.
package main

import (
	"flag"
	"fmt"
	"os"
	"sort"
	"strconv"
)

func main() {
	if len(os.Args) < 2 {
		usage()
	}
	switch os.Args[1] {
	case "check":
		fs := flag.NewFlagSet("check", flag.ExitOnError)
		tier := fs.String("tier", "quick", "quick|thorough")
		repo := fs.String("repo", "/repo", "path of the sipsp working tree")
		evd := fs.String("evidence", "/verif/evidence", "evidence dir")
		known := fs.String("known", "/verif/known-findings.txt", "known findings file")
		noev := fs.Bool("no-evidence", false, "do not write evidence (used by the self-audit)")
		dump := fs.Bool("all", false, "print every obligation")
		if len(os.Args) < 3 {
			usage()
		}
		prop := os.Args[2]
		fs.Parse(os.Args[3:])
		seed := 0
		if s := os.Getenv("VERIF_SEED"); s != "" {
			seed, _ = strconv.Atoi(s)
		}
		if t := os.Getenv("VERIF_TIER"); t != "" && !isFlagSet(fs, "tier") {
			*tier = t
		}
		os.Exit(runCheck(runOpts{prop: prop, tier: *tier, repo: *repo, evidenceDir: *evd,
			knownFile: *known, seed: seed, noEvidence: *noev, dumpAll: *dump}))
	case "checkall":
		// development aid (mutation campaigns): load once, run every property's rules (default config), print the
		// properties that report a failure not listed as a known finding
		fs := flag.NewFlagSet("checkall", flag.ExitOnError)
		repo := fs.String("repo", "/repo", "path of the sipsp working tree")
		known := fs.String("known", "/verif/known-findings.txt", "known findings file")
		fs.Parse(os.Args[2:])
		os.Exit(runCheckAll(*repo, *known))
	case "fsmref":
		// prints the reference table of one automaton (used once, on the reviewed tree, to write ref/<Func>.txt)
		p, err := loadProg("/repo", "debug")
		if err != nil {
			fmt.Fprintln(os.Stderr, err)
			os.Exit(2)
		}
		c := &Ctx{Prog: p}
		if len(os.Args) > 3 && os.Args[3] == "-" {
			for _, l := range plainPathSignature(c, os.Args[2]) {
				fmt.Println(l)
			}
			return
		}
		if len(os.Args) > 3 {
			for _, l := range pathSignature(c, os.Args[2], os.Args[3]) {
				fmt.Println(l)
			}
			return
		}
		r := fsmOf(c, os.Args[2])
		if r == nil || r.head == nil {
			os.Exit(2)
		}
		for _, l := range fsmSignature(r) {
			fmt.Println(l)
		}
	case "errsets":
		dumpErrSets("/repo")
	case "fsm":
		dumpFSM("/repo", os.Args[2])
	case "loopphis":
		dumpLoopPhis("/repo")
	case "hdrfsm":
		dumpHdrLineFSM("/repo")
	case "list":
		var ks []string
		for k := range props {
			ks = append(ks, k)
		}
		sort.Strings(ks)
		for _, k := range ks {
			fmt.Println(k)
			for _, r := range props[k].Rules {
				fmt.Printf("  %s: %s\n", r.ID, r.Text)
			}
		}
	default:
		usage()
	}
}

func isFlagSet(fs *flag.FlagSet, name string) bool {
	set := false
	fs.Visit(func(f *flag.Flag) {
		if f.Name == name {
			set = true
		}
	})
	return set
}

func usage() {
	fmt.Fprintln(os.Stderr, "usage: sipsp-sa check <Cxx> [--tier quick|thorough] [--repo DIR] | list")
	os.Exit(2)
}
