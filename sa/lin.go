package main

import (
	"fmt"
	"go/constant"
	"go/token"
	"go/types"
	"sort"
	"strings"

	"golang.org/x/tools/go/ssa"
)

// E-LIN: linear normal form of integer SSA values and guard dominance.

// Lin is sum(coef*atom) + C.
type Lin struct {
	T map[string]int64
	C int64
}

func (l Lin) String() string {
	var ks []string
	for k := range l.T {
		ks = append(ks, k)
	}
	sort.Strings(ks)
	var sb strings.Builder
	for _, k := range ks {
		fmt.Fprintf(&sb, "%+d*%s ", l.T[k], k)
	}
	fmt.Fprintf(&sb, "%+d", l.C)
	return sb.String()
}

func linConst(c int64) Lin { return Lin{T: map[string]int64{}, C: c} }

func (l Lin) add(o Lin, sign int64) Lin {
	r := Lin{T: map[string]int64{}, C: l.C + sign*o.C}
	for k, v := range l.T {
		r.T[k] = v
	}
	for k, v := range o.T {
		r.T[k] += sign * v
		if r.T[k] == 0 {
			delete(r.T, k)
		}
	}
	return r
}

func (l Lin) scale(f int64) Lin {
	r := Lin{T: map[string]int64{}, C: l.C * f}
	if f == 0 {
		return r
	}
	for k, v := range l.T {
		r.T[k] = v * f
	}
	return r
}

func (l Lin) sameTerms(o Lin) bool {
	if len(l.T) != len(o.T) {
		return false
	}
	for k, v := range l.T {
		if o.T[k] != v {
			return false
		}
	}
	return true
}

func (l Lin) isConst() bool { return len(l.T) == 0 }

// globalConstLen: lengths of package-level []byte variables initialised from literals (set by the loader).
var globalConstLen = map[string]int64{}

// Normaliser options.
type linOpts struct {
	pathLoads bool // key loads of parameter field chains by access path (caller checks no intervening store)
}

type linEnv struct {
	vals        map[string]ssa.Value // atom key -> value (for readable reports)
	opts        linOpts
	structLoads *rangeEnv // when set, loads of read-only cells are keyed structurally
	memo map[ssa.Value]Lin
}

func newLinEnv(o linOpts) *linEnv {
	return &linEnv{opts: o, memo: map[ssa.Value]Lin{}, vals: map[string]ssa.Value{}}
}

func constIntOf(v ssa.Value) (int64, bool) {
	c, ok := v.(*ssa.Const)
	if !ok || c.Value == nil {
		return 0, false
	}
	if c.Value.Kind() != constant.Int {
		return 0, false
	}
	return constant.Int64Val(c.Value)
}

// addrPath renders the access path of an address value rooted at a parameter
// or global: "p.f.g", "p.f[*]"; "" if not such a chain.
func addrPath(v ssa.Value) string {
	switch a := v.(type) {
	case *ssa.Parameter:
		return a.Name()
	case *ssa.Global:
		return "G:" + a.Name()
	case *ssa.FieldAddr:
		b := addrPath(a.X)
		if b == "" {
			return ""
		}
		st := derefStruct(a.X.Type())
		if st == nil {
			return ""
		}
		return b + "." + st.Field(a.Field).Name()
	case *ssa.Field:
		b := valuePath(a.X)
		if b == "" {
			return ""
		}
		st, _ := a.X.Type().Underlying().(*types.Struct)
		if st == nil {
			return ""
		}
		return b + "." + st.Field(a.Field).Name()
	case *ssa.IndexAddr:
		b := addrPath(a.X)
		if b == "" {
			b = valuePath(a.X)
		}
		if b == "" {
			return ""
		}
		return b + "[*]"
	case *ssa.UnOp:
		if a.Op == token.MUL {
			// pointer loaded from memory: path of the loaded pointer
			b := addrPath(a.X)
			if b == "" {
				return ""
			}
			return b
		}
	case *ssa.Alloc:
		if a.Comment != "" {
			return "L:" + a.Comment
		}
	}
	return ""
}

// valuePath: path of a loaded value (UnOp * of an address path) or a parameter.
func valuePath(v ssa.Value) string {
	switch a := v.(type) {
	case *ssa.Parameter:
		return a.Name()
	case *ssa.UnOp:
		if a.Op == token.MUL {
			return addrPath(a.X)
		}
	case *ssa.Field:
		return addrPath(a)
	case *ssa.ChangeType:
		return valuePath(a.X)
	}
	return ""
}

func derefStruct(t types.Type) *types.Struct {
	if p, ok := t.Underlying().(*types.Pointer); ok {
		t = p.Elem()
	}
	st, _ := t.Underlying().(*types.Struct)
	return st
}

func isIntType(t types.Type) bool {
	b, ok := t.Underlying().(*types.Basic)
	return ok && b.Info()&types.IsInteger != 0
}

func intBits(t types.Type) (bits int, unsigned bool) {
	b, ok := t.Underlying().(*types.Basic)
	if !ok {
		return 0, false
	}
	switch b.Kind() {
	case types.Int8:
		return 8, false
	case types.Int16:
		return 16, false
	case types.Int32:
		return 32, false
	case types.Int64, types.Int:
		return 64, false
	case types.Uint8:
		return 8, true
	case types.Uint16:
		return 16, true
	case types.Uint32:
		return 32, true
	case types.Uint64, types.Uint, types.Uintptr:
		return 64, true
	}
	return 0, false
}

func (e *linEnv) atomKey(v ssa.Value) string {
	switch a := v.(type) {
	case *ssa.Parameter:
		return "param:" + a.Name()
	case *ssa.Call:
		if b, ok := a.Call.Value.(*ssa.Builtin); ok && b.Name() == "len" && len(a.Call.Args) == 1 {
			return "len(" + e.sliceKey(a.Call.Args[0]) + ")"
		}
	case *ssa.UnOp:
		if a.Op == token.MUL && e.opts.pathLoads {
			// element loads (p[*]) are NOT keyed by path: different indices are different cells
			if p := addrPath(a.X); p != "" && !strings.Contains(p, "[*]") {
				return "load:" + p
			}
		}
		if a.Op == token.MUL && e.structLoads != nil {
			if k := e.structLoads.structKey(a.X); k != "" {
				return "cell:" + k
			}
		}
	}
	return v.Name() + "@" + fnName(v)
}

func fnName(v ssa.Value) string {
	if i, ok := v.(ssa.Instruction); ok && i.Parent() != nil {
		return i.Parent().Name()
	}
	if p, ok := v.(*ssa.Parameter); ok && p.Parent() != nil {
		return p.Parent().Name()
	}
	return ""
}

// sliceKey identifies a slice/array/string value for len() atoms.
func (e *linEnv) sliceKey(v ssa.Value) string {
	switch a := v.(type) {
	case *ssa.Parameter:
		return "param:" + a.Name()
	case *ssa.ChangeType:
		return e.sliceKey(a.X)
	case *ssa.UnOp:
		if a.Op == token.MUL {
			if p := addrPath(a.X); p != "" && !strings.Contains(p, "[*]") && (e.opts.pathLoads || strings.HasPrefix(p, "G:")) {
				return "load:" + p
			}
		}
	case *ssa.Const:
		if a.Value != nil && a.Value.Kind() == constant.String {
			return fmt.Sprintf("str%q", constant.StringVal(a.Value))
		}
	}
	return v.Name() + "@" + fnName(v)
}

// norm computes the linear form of an integer SSA value.
func (e *linEnv) norm(v ssa.Value) Lin {
	if l, ok := e.memo[v]; ok {
		return l
	}
	l := e.norm1(v)
	e.memo[v] = l
	return l
}

func (e *linEnv) atom(v ssa.Value) Lin {
	k := e.atomKey(v)
	e.vals[k] = v
	return Lin{T: map[string]int64{k: 1}}
}

// pretty renders a linear form with source-level names (stable across renumbering).
func (e *linEnv) pretty(l Lin) string {
	var ks []string
	for k := range l.T {
		ks = append(ks, k)
	}
	sort.Strings(ks)
	var parts []string
	for _, k := range ks {
		n := k
		if v, ok := e.vals[k]; ok {
			n = srcName(v)
		}
		n = strings.ReplaceAll(n, "param:", "")
		cf := l.T[k]
		switch {
		case cf == 1:
			parts = append(parts, "+"+n)
		case cf == -1:
			parts = append(parts, "-"+n)
		default:
			parts = append(parts, fmt.Sprintf("%+d*%s", cf, n))
		}
	}
	sort.Strings(parts)
	out := strings.Join(parts, "")
	if l.C != 0 || out == "" {
		out += fmt.Sprintf("%+d", l.C)
	}
	return out
}

// srcName: a source-level name for an SSA value.
// canonical names: the scan index of a function's scanning loop is rendered "i" whatever it is called in the
// source, so that rules and report keys do not depend on the name of a local variable.
var idxPhiCache = map[*ssa.Function]*ssa.Phi{}

func scanIndexPhi(fn *ssa.Function) *ssa.Phi {
	if fn == nil {
		return nil
	}
	if p, ok := idxPhiCache[fn]; ok {
		return p
	}
	idxPhiCache[fn] = nil
	head, _, _ := mainLoop3(fn)
	if head == nil {
		return nil
	}
	iff, ok := head.Instrs[len(head.Instrs)-1].(*ssa.If)
	if !ok {
		return nil
	}
	if bo, ok := iff.Cond.(*ssa.BinOp); ok {
		for _, v := range []ssa.Value{bo.X, bo.Y} {
			if ph, ok := v.(*ssa.Phi); ok && ph.Block() == head {
				idxPhiCache[fn] = ph
				return ph
			}
		}
	}
	return nil
}

func phiName(a *ssa.Phi) string {
	if idx := scanIndexPhi(a.Parent()); idx != nil {
		if a == idx || (a.Comment != "" && a.Comment == idx.Comment) {
			return "i" // the index variable (any of its SSA versions)
		}
		if a.Comment == "i" {
			return "i_" // another variable that happens to be called i
		}
	}
	return a.Comment
}

func srcName(v ssa.Value) string {
	switch a := v.(type) {
	case *ssa.Parameter:
		return a.Name()
	case *ssa.Phi:
		if a.Comment != "" {
			return phiName(a)
		}
	case *ssa.Extract:
		if call, ok := a.Tuple.(*ssa.Call); ok {
			if c := call.Call.StaticCallee(); c != nil {
				return c.Name() + "()#" + fmt.Sprint(a.Index)
			}
		}
	case *ssa.Call:
		if c := a.Call.StaticCallee(); c != nil {
			return c.Name() + "()"
		}
		if b, ok := a.Call.Value.(*ssa.Builtin); ok && len(a.Call.Args) == 1 {
			return b.Name() + "(" + srcName(a.Call.Args[0]) + ")"
		}
	case *ssa.UnOp:
		if p := valuePath(a); p != "" {
			return p
		}
	case *ssa.Convert:
		if isNarrowing(a) {
			return typeShort(a.Type()) + "(" + srcName(a.X) + ")" // a narrowing conversion is not transparent
		}
		return srcName(a.X)
	case *ssa.BinOp:
		return "(" + srcName(a.X) + a.Op.String() + srcName(a.Y) + ")"
	case *ssa.Const:
		return a.Value.String()
	case *ssa.Global:
		return a.Name()
	}
	return "v"
}

func (e *linEnv) norm1(v ssa.Value) Lin {
	if c, ok := constIntOf(v); ok {
		return linConst(c)
	}
	switch a := v.(type) {
	case *ssa.BinOp:
		if !isIntType(a.Type()) {
			break
		}
		switch a.Op {
		case token.ADD:
			return e.norm(a.X).add(e.norm(a.Y), 1)
		case token.SUB:
			return e.norm(a.X).add(e.norm(a.Y), -1)
		case token.MUL:
			x, y := e.norm(a.X), e.norm(a.Y)
			if x.isConst() {
				return y.scale(x.C)
			}
			if y.isConst() {
				return x.scale(y.C)
			}
		}
	case *ssa.Convert:
		// value-preserving only when widening (or same width, same signedness)
		fb, fu := intBits(a.X.Type())
		tb, tu := intBits(a.Type())
		if fb > 0 && tb > 0 && ((fu && tb > fb) || (fu && tu && tb >= fb) || (!fu && !tu && tb >= fb)) {
			return e.norm(a.X)
		}
	case *ssa.ChangeType:
		if isIntType(a.Type()) {
			return e.norm(a.X)
		}
	case *ssa.Call:
		if b, ok := a.Call.Value.(*ssa.Builtin); ok && b.Name() == "len" && len(a.Call.Args) == 1 {
			// len of a constant string
			if c, ok := a.Call.Args[0].(*ssa.Const); ok && c.Value != nil && c.Value.Kind() == constant.String {
				return linConst(int64(len(constant.StringVal(c.Value))))
			}
			// len of a package-level []byte initialised from a literal and never written (C04-I1)
			if u, ok := a.Call.Args[0].(*ssa.UnOp); ok && u.Op == token.MUL {
				if g, ok := u.X.(*ssa.Global); ok {
					if n, ok := globalConstLen[g.Name()]; ok {
						return linConst(n)
					}
				}
			}
			// len(x[lo:hi]) = hi - lo
			if sl, ok := a.Call.Args[0].(*ssa.Slice); ok {
				if _, isStr := sl.X.Type().Underlying().(*types.Pointer); !isStr {
					var hi Lin
					if sl.High != nil {
						hi = e.norm(sl.High)
					} else {
						hi = Lin{T: map[string]int64{"len(" + e.sliceKey(sl.X) + ")": 1}}
						if c, ok := sl.X.(*ssa.Const); ok && c.Value != nil && c.Value.Kind() == constant.String {
							hi = linConst(int64(len(constant.StringVal(c.Value))))
						}
					}
					if sl.Low != nil {
						return hi.add(e.norm(sl.Low), -1)
					}
					return hi
				}
			}
			// len of an array (pointer to array)
			t := a.Call.Args[0].Type().Underlying()
			if pt, ok := t.(*types.Pointer); ok {
				t = pt.Elem().Underlying()
			}
			if at, ok := t.(*types.Array); ok {
				return linConst(at.Len())
			}
		}
	}
	return e.atom(v)
}

// Fact: L <= 0 (all constants folded into L.C).
type Fact struct {
	L   Lin
	Src string
}

// factsAt collects the linear facts established by dominating branch edges
// on the way to block b (edge D->S counts when S dominates b and D is the
// only predecessor of S).
func (e *linEnv) factsAt(b *ssa.BasicBlock) []Fact {
	var out []Fact
	// axioms: r := bytes.IndexByte(s, c) gives r <= len(s)-1 (and r >= -1)
	for cur := b; cur != nil; cur = cur.Idom() {
		for _, ins := range cur.Instrs {
			call, ok := ins.(*ssa.Call)
			if !ok {
				continue
			}
			if cal := call.Call.StaticCallee(); cal != nil && cal.Pkg != nil && cal.Pkg.Pkg.Path() == "bytes" && cal.Name() == "IndexByte" {
				r := e.norm(call)
				out = append(out, Fact{r.add(e.lenLinOfValue(call.Call.Args[0]), -1).add(linConst(1), 1), "bytes.IndexByte result < len(arg)"})
			}
		}
	}
	for cur := b; cur != nil; cur = cur.Idom() {
		d := cur.Idom()
		if d == nil {
			break
		}
		iff, ok := d.Instrs[len(d.Instrs)-1].(*ssa.If)
		if !ok || len(cur.Preds) != 1 || cur.Preds[0] != d {
			continue
		}
		if d.Succs[0] == d.Succs[1] {
			continue
		}
		truth := d.Succs[0] == cur
		out = append(out, e.condFacts(iff.Cond, truth)...)
	}
	return out
}

// condFacts turns `cond == truth` into linear facts.
func (e *linEnv) condFacts(cond ssa.Value, truth bool) []Fact {
	switch c := cond.(type) {
	case *ssa.Extract:
		// trusted summary: l, ok := bytescase.Prefix(p, s); ok  =>  l == len(p)
		if call, isCall := c.Tuple.(*ssa.Call); isCall && truth && c.Index == 1 {
			if cal := call.Call.StaticCallee(); cal != nil && cal.Pkg != nil && cal.Pkg.Pkg.Name() == "bytescase" && cal.Name() == "Prefix" {
				for _, r := range *call.Referrers() {
					if ex, ok := r.(*ssa.Extract); ok && ex.Index == 0 {
						l := e.norm(ex)
						pl := e.lenLin(call.Call.Args[0])
						src := "Prefix matched => its length result == len(prefix)"
						return []Fact{{l.add(pl, -1), src}, {pl.add(l, -1), src}}
					}
				}
			}
		}
	case *ssa.UnOp:
		if c.Op == token.NOT {
			return e.condFacts(c.X, !truth)
		}
	case *ssa.BinOp:
		if !isIntType(c.X.Type()) {
			return nil
		}
		op := c.Op
		if !truth {
			switch op {
			case token.LSS:
				op = token.GEQ
			case token.LEQ:
				op = token.GTR
			case token.GTR:
				op = token.LEQ
			case token.GEQ:
				op = token.LSS
			case token.EQL:
				op = token.NEQ
			case token.NEQ:
				op = token.EQL
			}
		}
		x, y := e.norm(c.X), e.norm(c.Y)
		src := fmt.Sprintf("%s %s %s", x, op, y)
		switch op {
		case token.LSS: // x - y + 1 <= 0
			return []Fact{{x.add(y, -1).add(linConst(1), 1), src}}
		case token.LEQ:
			return []Fact{{x.add(y, -1), src}}
		case token.GTR: // y - x + 1 <= 0
			return []Fact{{y.add(x, -1).add(linConst(1), 1), src}}
		case token.GEQ:
			return []Fact{{y.add(x, -1), src}}
		case token.EQL:
			return []Fact{{x.add(y, -1), src}, {y.add(x, -1), src}}
		case token.NEQ:
			// x != 0 with x non-negative (a length or an unsigned value) gives x >= 1
			if y.isConst() && y.C == 0 && nonNegValue(c.X) {
				return []Fact{{linConst(1).add(x, -1), src}}
			}
			if x.isConst() && x.C == 0 && nonNegValue(c.Y) {
				return []Fact{{linConst(1).add(y, -1), src}}
			}
			// r != -1 for r := bytes.IndexByte(...) (whose result is >= -1) gives r >= 0
			if y.isConst() && y.C == -1 && isIndexByteCall(c.X) {
				return []Fact{{x.scale(-1), src + " (IndexByte result >= -1)"}}
			}
		}
	}
	return nil
}

// entails: do the facts prove goal <= 0 ?  (single-fact entailment plus
// trivially-true constants; goal terms must match a fact's terms exactly,
// possibly after adding non-negative atoms' bounds supplied in nonneg.)
func entails(facts []Fact, goal Lin) (bool, string) {
	if goal.isConst() {
		return goal.C <= 0, "constant"
	}
	// lengths are non-negative
	for k := range goal.T {
		if strings.HasPrefix(k, "len(") {
			facts = append(facts, Fact{Lin{T: map[string]int64{k: -1}}, k + ">=0"})
		}
	}
	for _, f := range facts {
		if f.L.sameTerms(goal) && goal.C <= f.L.C {
			return true, f.Src
		}
	}
	// non-negative combinations a*f1 + b*f2 (+ f3): a sum of valid facts is a valid fact
	for i, f1 := range facts {
		for j, f2 := range facts {
			if j == i {
				continue
			}
			for _, ab := range [][2]int64{{1, 1}, {2, 1}, {1, 2}} {
				if j < i && ab[0] == ab[1] {
					continue
				}
				s := f1.L.scale(ab[0]).add(f2.L.scale(ab[1]), 1)
				if s.sameTerms(goal) && goal.C <= s.C {
					return true, f1.Src + " && " + f2.Src
				}
				if ab[0] != 1 || ab[1] != 1 || j < i {
					continue
				}
				for k, f3 := range facts {
					if k <= j {
						continue
					}
					s3 := s.add(f3.L, 1)
					if s3.sameTerms(goal) && goal.C <= s3.C {
						return true, f1.Src + " && " + f2.Src + " && " + f3.Src
					}
				}
			}
		}
	}
	return false, ""
}

func isIndexByteCall(v ssa.Value) bool {
	call, ok := v.(*ssa.Call)
	if !ok {
		return false
	}
	cal := call.Call.StaticCallee()
	return cal != nil && cal.Pkg != nil && cal.Pkg.Pkg.Path() == "bytes" && cal.Name() == "IndexByte"
}

// nonNegValue: lengths and unsigned integers are >= 0.
func nonNegValue(v ssa.Value) bool {
	if call, ok := v.(*ssa.Call); ok {
		if b, ok := call.Call.Value.(*ssa.Builtin); ok && (b.Name() == "len" || b.Name() == "cap") {
			return true
		}
	}
	_, uns := intBits(v.Type())
	return uns
}

// lenLin: linear form of len(v) for a slice/string value v.
func (e *linEnv) lenLin(v ssa.Value) Lin {
	if u, ok := v.(*ssa.UnOp); ok && u.Op == token.MUL {
		if g, ok := u.X.(*ssa.Global); ok {
			if n, ok := globalConstLen[g.Name()]; ok {
				return linConst(n)
			}
		}
	}
	if c, ok := v.(*ssa.Const); ok && c.Value != nil && c.Value.Kind() == constant.String {
		return linConst(int64(len(constant.StringVal(c.Value))))
	}
	if n := staticLen(v); n >= 0 {
		return linConst(n)
	}
	return Lin{T: map[string]int64{"len(" + e.sliceKey(v) + ")": 1}}
}

// lenLinOfValue: like lenLin but also sees through x[lo:hi].
func (e *linEnv) lenLinOfValue(v ssa.Value) Lin {
	if sl, ok := v.(*ssa.Slice); ok {
		var hi Lin
		if sl.High != nil {
			hi = e.norm(sl.High)
		} else {
			hi = e.lenLin(sl.X)
		}
		if sl.Low != nil {
			return hi.add(e.norm(sl.Low), -1)
		}
		return hi
	}
	return e.lenLin(v)
}

// typedPath: like addrPath, but rooted at the *type* of the parameter / local instead of its name
// (used for report keys that must not change when a variable is renamed).
func typedPath(v ssa.Value) string {
	switch a := v.(type) {
	case *ssa.Parameter:
		return typeShort(derefNamed(a.Type()))
	case *ssa.Alloc:
		return typeShort(derefNamed(a.Type()))
	case *ssa.Global:
		return "G:" + a.Name()
	case *ssa.FieldAddr:
		b := typedPath(a.X)
		st := derefStruct(a.X.Type())
		if b == "" || st == nil {
			return ""
		}
		return b + "." + st.Field(a.Field).Name()
	case *ssa.IndexAddr:
		b := typedPath(a.X)
		if b == "" {
			return ""
		}
		return b + "[*]"
	case *ssa.UnOp:
		if a.Op == token.MUL {
			return typedPath(a.X)
		}
	case *ssa.Phi:
		return typeShort(derefNamed(a.Type()))
	}
	return ""
}
