package main

import (
	"fmt"
	"go/ast"
	"go/token"
	"go/types"
	"sort"
	"strings"

	"golang.org/x/tools/go/ssa"
)

// pfieldsOf lists the PField-typed fields of a struct in declaration order.
func (c *Ctx) pfieldsOf(typeName string) []string {
	var out []string
	for _, f := range c.structFields(typeName) {
		if f.Type().String() == sipspPath+".PField" {
			out = append(out, f.Name())
		}
	}
	return out
}

// sumTerms flattens a +/- expression into signed leaf terms, resolving
// single-definition locals through defs.
func sumTerms(c *Ctx, e ast.Expr, sign int, defs map[string]ast.Expr, out map[string]int) {
	e = unparen(e)
	switch b := e.(type) {
	case *ast.BinaryExpr:
		if b.Op == token.ADD {
			sumTerms(c, b.X, sign, defs, out)
			sumTerms(c, b.Y, sign, defs, out)
			return
		}
		if b.Op == token.SUB {
			sumTerms(c, b.X, sign, defs, out)
			sumTerms(c, b.Y, -sign, defs, out)
			return
		}
	case *ast.Ident:
		if d, ok := defs[b.Name]; ok {
			sumTerms(c, d, sign, defs, out)
			return
		}
	}
	k := c.src(e)
	out[k] += sign
	if out[k] == 0 {
		delete(out, k)
	}
}

func termsStr(m map[string]int) string {
	var ks []string
	for k, v := range m {
		ks = append(ks, fmt.Sprintf("%+d*%s", v, k))
	}
	sort.Strings(ks)
	return strings.Join(ks, " ")
}

// M1: every component is rebased, identically.
func ruleM1(c *Ctx) {
	fd := c.Decls["PsipURI.AdjustOffs"]
	if fd == nil {
		c.fail("M1", "AdjustOffs", token.NoPos, "not found")
		return
	}
	u := fd.Recv.List[0].Names[0].Name
	np := fd.Type.Params.List[0].Names[0].Name
	// single-definition locals (x := expr) at top level
	defs := map[string]ast.Expr{}
	defPos := map[string]token.Pos{}
	for _, s := range fd.Body.List {
		if as, ok := s.(*ast.AssignStmt); ok && as.Tok == token.DEFINE && len(as.Lhs) == 1 {
			if id, ok := as.Lhs[0].(*ast.Ident); ok {
				defs[id.Name] = as.Rhs[0]
				defPos[id.Name] = as.Pos()
			}
		}
	}
	// locals that are reassigned later are not single-definition
	ast.Inspect(fd.Body, func(n ast.Node) bool {
		if as, ok := n.(*ast.AssignStmt); ok && as.Tok != token.DEFINE {
			for _, l := range as.Lhs {
				if id, ok := l.(*ast.Ident); ok {
					delete(defs, id.Name)
				}
			}
		}
		return true
	})
	var schemeStore token.Pos
	rebased := map[string]string{}
	guard := map[string]bool{}
	ast.Inspect(fd.Body, func(n ast.Node) bool {
		switch s := n.(type) {
		case *ast.AssignStmt:
			if len(s.Lhs) == 1 && c.src(s.Lhs[0]) == u+".Scheme.Offs" {
				t := map[string]int{}
				sumTerms(c, s.Rhs[0], 1, defs, t)
				c.check(termsStr(t) == "+1*"+np+".Offs", "M1", "Scheme", s.Pos(), "Scheme.Offs = new start ("+termsStr(t)+")")
				schemeStore = s.Pos()
			}
		case *ast.IfStmt:
			be, ok := s.Cond.(*ast.BinaryExpr)
			if !ok || be.Op != token.NEQ || !c.isZeroExpr(be.Y) {
				return true
			}
			cs := c.src(be.X)
			if !strings.HasPrefix(cs, u+".") || !strings.HasSuffix(cs, ".Offs") {
				return true
			}
			f := strings.TrimSuffix(strings.TrimPrefix(cs, u+"."), ".Offs")
			for _, st := range s.Body.List {
				if as, ok := st.(*ast.AssignStmt); ok && len(as.Lhs) == 1 && c.src(as.Lhs[0]) == cs {
					t := map[string]int{}
					sumTerms(c, as.Rhs[0], 1, defs, t)
					rebased[f] = termsStr(t)
					guard[f] = true
				}
			}
		}
		return true
	})
	for _, f := range c.pfieldsOf("PsipURI") {
		if f == "Scheme" {
			continue
		}
		want := termsStr(map[string]int{u + "." + f + ".Offs": 1, u + ".Scheme.Offs": -1, np + ".Offs": 1})
		c.check(guard[f] && rebased[f] == want, "M1", "component:"+f, fd.Pos(),
			fmt.Sprintf("component %s rebased as Offs - oldStart + newStart under its presence test (got %q)", f, rebased[f]))
	}
	// the old start is read before Scheme.Offs is overwritten
	for name, d := range defs {
		if c.src(d) == u+".Scheme.Offs" {
			c.check(schemeStore.IsValid() && defPos[name] < schemeStore, "M1", "old-start-saved", defPos[name], "old start saved before Scheme.Offs is overwritten")
		}
	}
	c.expectMin("M1", 8)
}

// M2/M3 on SSA: refusal does not mutate, no panic.
func ruleM2(c *Ctx) {
	fn := c.SFuncs["PsipURI.AdjustOffs"]
	if fn == nil {
		c.fail("M2", "AdjustOffs", token.NoPos, "not found")
		return
	}
	e := computeEffects(c.Prog)
	recv := fn.Params[0]
	seed := func(v ssa.Value) string {
		if v == ssa.Value(recv) {
			return "recv"
		}
		return ""
	}
	d := e.derived(fn, seed)
	writes := e.writesOf(fn, d, seed)
	wblocks := map[*ssa.BasicBlock]token.Pos{}
	for _, w := range writes {
		for _, b := range fn.Blocks {
			for _, ins := range b.Instrs {
				if ins.Pos() == w.pos {
					wblocks[b] = w.pos
				}
			}
		}
	}
	nfalse := 0
	for _, b := range fn.Blocks {
		r, ok := b.Instrs[len(b.Instrs)-1].(*ssa.Return)
		if !ok || len(r.Results) != 1 {
			continue
		}
		k, isC := r.Results[0].(*ssa.Const)
		if !isC {
			c.fail("M2", "return-nonconst", r.Pos(), "AdjustOffs returns a computed value; refusal paths cannot be identified")
			continue
		}
		if k.Value.String() != "false" {
			continue
		}
		nfalse++
		// blocks that can reach b
		reach := map[*ssa.BasicBlock]bool{b: true}
		work := []*ssa.BasicBlock{b}
		for len(work) > 0 {
			x := work[len(work)-1]
			work = work[:len(work)-1]
			for _, p := range x.Preds {
				if !reach[p] {
					reach[p] = true
					work = append(work, p)
				}
			}
		}
		bad := token.NoPos
		for wb, pos := range wblocks {
			if reach[wb] {
				bad = pos
			}
		}
		c.check(!bad.IsValid(), "M2", "refusal:"+itoa(nfalse), r.Pos(), "no store through the receiver on any path to `return false`"+map[bool]string{true: " (store at " + c.pos(bad) + ")", false: ""}[bad.IsValid()])
	}
	if nfalse == 0 {
		c.fail("M2", "refusal", fn.Pos(), "no refusal path found")
	}
	c.check(len(writes) >= 7, "M2", "writes-seen", fn.Pos(), fmt.Sprintf("%d stores through the receiver identified (the rebasing itself)", len(writes)))
}

// M6: relocation is refused for one reason only — the target span is shorter than the URI. Every `return false`
// of AdjustOffs is selected (nearest branch that is not a debug switch) by a comparison whose refusal edge states
// exactly "extent >= span length + 1", the span length being the Len of the position argument; no other refusal.
func ruleM6(c *Ctx) {
	fn := c.SFuncs["PsipURI.AdjustOffs"]
	if fn == nil || len(fn.Params) < 2 {
		c.fail("M6", "AdjustOffs", token.NoPos, "not found")
		return
	}
	np := fn.Params[1]
	cds := controlDeps(fn)
	isSpanLen := func(key string, env *linEnv) bool {
		v := env.vals[key]
		for d := 0; d < 4 && v != nil; d++ {
			switch x := v.(type) {
			case *ssa.Field:
				st, ok := x.X.Type().Underlying().(*types.Struct)
				return ok && x.X == ssa.Value(np) && st.Field(x.Field).Name() == "Len"
			case *ssa.UnOp:
				if fa, ok := x.X.(*ssa.FieldAddr); ok && x.Op == token.MUL {
					st, ok := fa.X.Type().Underlying().(*types.Pointer).Elem().Underlying().(*types.Struct)
					if !ok || st.Field(fa.Field).Name() != "Len" {
						return false
					}
					// address of the (spilled) position parameter
					if al, ok := fa.X.(*ssa.Alloc); ok {
						for _, r := range *al.Referrers() {
							if sto, ok := r.(*ssa.Store); ok && sto.Addr == ssa.Value(al) && sto.Val == ssa.Value(np) {
								return true
							}
						}
					}
					return false
				}
				return false
			case *ssa.Convert:
				v = x.X
			case *ssa.ChangeType:
				v = x.X
			default:
				return false
			}
		}
		return false
	}
	n := 0
	for _, b := range fn.Blocks {
		r, ok := b.Instrs[len(b.Instrs)-1].(*ssa.Return)
		if !ok || len(r.Results) != 1 {
			continue
		}
		k, isC := r.Results[0].(*ssa.Const)
		if !isC || k.Value.String() != "false" {
			continue
		}
		n++
		// nearest controlling branch that is not a bare bool switch (DBGon())
		seen := map[*ssa.BasicBlock]bool{}
		work := []*ssa.BasicBlock{b}
		var dep *ctrlDep
		for len(work) > 0 && dep == nil {
			x := work[0]
			work = work[1:]
			for i := range cds[x] {
				cd := cds[x][i]
				if seen[cd.branch] {
					continue
				}
				seen[cd.branch] = true
				iff := cd.branch.Instrs[len(cd.branch.Instrs)-1].(*ssa.If)
				if _, isCmp := iff.Cond.(*ssa.BinOp); isCmp {
					dep = &cd
					break
				}
				work = append(work, cd.branch)
			}
		}
		key := "refusal-reason:" + itoa(n)
		if dep == nil {
			c.fail("M6", key, r.Pos(), "this refusal is not selected by any comparison")
			continue
		}
		iff := dep.branch.Instrs[len(dep.branch.Instrs)-1].(*ssa.If)
		env := newLinEnv(linOpts{})
		facts := env.condFacts(iff.Cond, dep.idx == 0)
		okf := false
		why := "no linear fact on the refusal edge"
		if len(facts) == 1 {
			f := facts[0].L
			spanCoef, others, sum := int64(0), 0, int64(0)
			for t, cf := range f.T {
				if cf == 0 {
					continue
				}
				if isSpanLen(t, env) {
					spanCoef += cf
				} else {
					others++
					sum += cf
				}
			}
			why = env.pretty(f) + "<=0"
			// the extent is a difference of positions (coefficients sum to 0): it does not change when the
			// URI sits elsewhere in its buffer
			okf = spanCoef == 1 && f.C == 1 && others >= 2 && sum == 0
			// the comparison itself must not add in the 16-bit offset type (start + span can wrap; end - start cannot
			// go below zero because end >= start)
			if bo, ok := iff.Cond.(*ssa.BinOp); ok {
				for _, opnd := range []ssa.Value{bo.X, bo.Y} {
					if ad, ok := stripNarrow(opnd).(*ssa.BinOp); ok && ad.Op == token.ADD {
						if bits, _ := intBits(ad.Type()); bits <= 16 {
							okf = false
							why += " — one side is a sum computed in a " + itoa(bits) + "-bit type, which can wrap"
						}
					}
				}
			}
		}
		// the acceptance is the other edge of the same test: every `return true` lies behind it, so no fast path
		// accepts a span that was never measured (the verdict would depend on where the URI happens to sit)
		acc := dep.branch.Succs[1-dep.idx]
		na := 0
		for _, rb := range fn.Blocks {
			rr, ok := rb.Instrs[len(rb.Instrs)-1].(*ssa.Return)
			if !ok || len(rr.Results) != 1 {
				continue
			}
			if kk, isK := rr.Results[0].(*ssa.Const); isK && kk.Value.String() == "false" {
				continue
			}
			na++
			c.check(len(acc.Preds) == 1 && acc.Dominates(rb), "M6", "accept-behind-fit-test:"+itoa(na), rr.Pos(), "this non-refusing return of AdjustOffs is dominated by the accept edge of the span-length test")
		}
		c.check(na >= 1, "M6", "accepts", fn.Pos(), fmt.Sprintf("%d accepting return(s)", na))
		c.check(okf, "M6", key, iff.Cond.Pos(), "the refusal is taken exactly when the URI extent exceeds the length of the target span (refusal edge: "+why+"; expected span.Len - (end - start) + 1 <= 0, the extent a difference of positions): a span at least as long as the URI is never refused")
	}
	c.check(n == 1, "M6", "refusals", fn.Pos(), fmt.Sprintf("%d refusal return(s) in AdjustOffs; exactly one reason (span too short) is allowed", n))
}

func ruleM3(c *Ctx) {
	fn := c.SFuncs["PsipURI.AdjustOffs"]
	if fn == nil {
		c.fail("M3", "AdjustOffs", token.NoPos, "not found")
		return
	}
	seen := map[*ssa.Function]bool{}
	var visit func(f *ssa.Function)
	bad := 0
	visit = func(f *ssa.Function) {
		if seen[f] || f.Blocks == nil || f.Pkg != c.SSA {
			return
		}
		seen[f] = true
		for _, b := range f.Blocks {
			for _, ins := range b.Instrs {
				if p, ok := ins.(*ssa.Panic); ok {
					bad++
					c.fail("M3", "PsipURI.AdjustOffs:panic", p.Pos(), "relocation can reach an explicit panic in "+ssaKey(f))
				}
				if call, ok := ins.(ssa.CallInstruction); ok {
					if cal := call.Common().StaticCallee(); cal != nil {
						visit(cal)
					}
				}
			}
		}
	}
	visit(fn)
	if bad == 0 {
		c.ok("M3", "PsipURI.AdjustOffs:panic", fn.Pos(), fmt.Sprintf("no explicit panic in AdjustOffs or its %d static callees", len(seen)-1))
	}
}

// viewCascade extracts the if/else-if chain `if u.X.Len > 0 { r.Set(int(u.Scheme.Offs), int(u.X.Offs+u.X.Len)) }`.
func viewCascade(c *Ctx, rule, key string) []string {
	fd := c.Decls[key]
	if fd == nil {
		c.fail(rule, key, token.NoPos, "not found")
		return nil
	}
	u := fd.Recv.List[0].Names[0].Name
	var seq []string
	var chain *ast.IfStmt
	for _, s := range fd.Body.List {
		if is, ok := s.(*ast.IfStmt); ok {
			chain = is
		}
	}
	for is := chain; is != nil; {
		be, ok := is.Cond.(*ast.BinaryExpr)
		cs := ""
		if ok && be.Op == token.GTR && c.isZeroExpr(be.Y) {
			cs = c.src(be.X)
		}
		if !strings.HasPrefix(cs, u+".") || !strings.HasSuffix(cs, ".Len") {
			c.fail(rule, key+":cond", is.Pos(), "cascade condition not of the form "+u+".X.Len > 0: "+c.src(is.Cond))
			return nil
		}
		f := strings.TrimSuffix(strings.TrimPrefix(cs, u+"."), ".Len")
		okBody := false
		if len(is.Body.List) == 1 {
			if es, ok := is.Body.List[0].(*ast.ExprStmt); ok {
				if call, ok := es.X.(*ast.CallExpr); ok && c.calleeName(call) == "PField.Set" && len(call.Args) == 2 {
					a0, a1 := c.src(call.Args[0]), c.src(call.Args[1])
					want1 := fmt.Sprintf("int(%s.%s.Offs + %s.%s.Len)", u, f, u, f)
					okBody = a0 == "int("+u+".Scheme.Offs)" && a1 == want1
				}
			}
		}
		c.check(okBody, rule, key+":branch:"+f, is.Pos(), "branch for "+f+" spans Scheme.Offs .. end of "+f+" (guard/use agreement)")
		seq = append(seq, f)
		switch el := is.Else.(type) {
		case *ast.IfStmt:
			is = el
		case nil:
			is = nil
		default:
			c.fail(rule, key+":else", is.Pos(), "unexpected else branch")
			is = nil
		}
	}
	return seq
}

func ruleM4(c *Ctx) {
	fields := c.pfieldsOf("PsipURI")
	var rev []string
	for i := len(fields) - 1; i >= 0; i-- {
		if fields[i] != "Scheme" {
			rev = append(rev, fields[i])
		}
	}
	long := viewCascade(c, "M4", "PsipURI.Long")
	c.check(strings.Join(long, ",") == strings.Join(rev, ","), "M4", "Long:order", token.NoPos,
		fmt.Sprintf("Long tests every component in reverse URI order %v (got %v)", rev, long))
	short := viewCascade(c, "M4", "PsipURI.Short")
	c.check(strings.Join(short, ",") == "Port,Host,User", "M4", "Short:order", token.NoPos,
		fmt.Sprintf("Short is the sub-cascade Port,Host,User of Long, so it is a prefix of Long (got %v)", short))
	// Truncate
	fd := c.Decls["PsipURI.Truncate"]
	if fd == nil {
		c.fail("M4", "Truncate", token.NoPos, "not found")
		return
	}
	u := fd.Recv.List[0].Names[0].Name
	var got []string
	for _, s := range fd.Body.List {
		got = append(got, c.src(s))
	}
	sort.Strings(got)
	c.check(strings.Join(got, ";") == u+".Headers.Reset();"+u+".Params.Reset()", "M4", "Truncate", fd.Pos(),
		fmt.Sprintf("Truncate resets exactly Params and Headers (got %v)", got))
	// Flat = Long().Get(buf)
	if fl := c.Decls["PsipURI.Flat"]; fl != nil {
		s := c.src(fl.Body)
		c.check(strings.Contains(s, ".Long()") && strings.Contains(s, ".Get(buf)"), "M4", "Flat", fl.Pos(), "Flat is Long() applied to the buffer")
	}
}

func init() {
	register(&PropDef{
		ID: "C18",
		Rules: []Rule{
			{"M6", "relocation is refused for one reason only: AdjustOffs has exactly one refusal return and it is selected by a comparison whose refusal edge is exactly extent >= span.Len + 1, span.Len being the Len of the position argument — a span at least as long as the URI is never refused; every accepting return lies behind the accept edge of that test", ruleM6},
			{"M1", "AdjustOffs rebases every PField component of PsipURI (all but Scheme) with the same expression Offs - oldStart + newStart under its presence test, and Scheme.Offs = newStart; the old start is read before it is overwritten", ruleM1},
			{"M2", "refusal does not mutate: no store through the receiver on any path to `return false`", ruleM2},
			{"M3", "relocation cannot reach an explicit panic", ruleM3},
			{"M5", "the refusal test of AdjustOffs measures the extent over all six components under the same presence test (Offs != 0) that the rebasing uses, before the refusal return", ruleM5},
			{"M7", "the URI end measured by the fit test of AdjustOffs is a running maximum: every conditional update by a component end x.Offs+x.Len lies behind the comparison of that end with the end kept so far, and a loop of AdjustOffs has no early exit (components are not in textual order for tel: URIs with a password)", ruleM7},
			{"M4", "Long tests the components in reverse URI order, exhaustively, each branch ending at the component it tested; Short is the sub-cascade Port,Host,User from the same start (prefix of Long); Truncate resets exactly Params and Headers", ruleM4},
		},
		Assumptions: []string{"component order in the struct is the textual order of a URI (C14)"},
		NotDecided:  "'denotes the same bytes before and after' as a value statement; that the span pre-check computes the right extent (value arithmetic)",
	})
}

// M5: the refusal test measures the extent with the same presence test and the same
// component set as the rebasing (guard/use agreement between the pre-check and the move).
func ruleM5(c *Ctx) {
	fd := c.Decls["PsipURI.AdjustOffs"]
	if fd == nil {
		c.fail("M5", "AdjustOffs", token.NoPos, "not found")
		return
	}
	u := fd.Recv.List[0].Names[0].Name
	// statements before the first `return false`
	var refusal token.Pos
	ast.Inspect(fd.Body, func(n ast.Node) bool {
		if r, ok := n.(*ast.ReturnStmt); ok && !refusal.IsValid() && len(r.Results) == 1 && c.src(r.Results[0]) == "false" {
			refusal = r.Pos()
		}
		return true
	})
	if !refusal.IsValid() {
		c.fail("M5", "AdjustOffs:refusal", fd.Pos(), "no refusal return")
		return
	}
	ext := map[string]bool{}
	ast.Inspect(fd.Body, func(n ast.Node) bool {
		if n == nil || n.Pos() > refusal {
			return true
		}
		switch s := n.(type) {
		case *ast.RangeStmt:
			cl, ok := unparen(s.X).(*ast.CompositeLit)
			if !ok || s.Value == nil {
				return true
			}
			f := c.src(s.Value)
			body := c.src(s.Body)
			if strings.Contains(body, f+".Offs != 0") && strings.Contains(body, f+".Offs + "+f+".Len") {
				for _, el := range cl.Elts {
					if p := c.src(el); strings.HasPrefix(p, u+".") {
						ext[strings.TrimPrefix(p, u+".")] = true
					}
				}
			}
		case *ast.IfStmt:
			cs := c.src(s.Cond)
			for _, f := range c.pfieldsOf("PsipURI") {
				x := u + "." + f
				if strings.Contains(cs, x+".Offs != 0") && (strings.Contains(cs, x+".Offs + "+x+".Len") || strings.Contains(c.src(s.Body), x+".Offs + "+x+".Len")) {
					ext[f] = true
				}
			}
		}
		return true
	})
	for _, f := range c.pfieldsOf("PsipURI") {
		if f == "Scheme" {
			continue
		}
		c.check(ext[f], "M5", "extent:"+f, fd.Pos(), "the refusal test measures component "+f+" (Offs+Len) under the same presence test (Offs != 0) the rebasing uses")
	}
	c.expectMin("M5", 6)
}

// M7: the URI end that the fit test of AdjustOffs measures is a running maximum over the components. The
// components are NOT in textual order in the structure (the tel: fix-up of ParseURI moves the number into User,
// behind Pass), so "the first component present from the end" is not the extent. Decided on SSA, whatever the
// spelling (range loop over a literal array, or an if chain): every phi edge that brings in a component end
// (x.Offs + x.Len) conditionally lies behind the true edge of a comparison "that same end > the value the phi
// would otherwise keep"; and a loop of AdjustOffs is left only from its head (no early exit that skips components).
func ruleM7(c *Ctx) {
	fn := c.SFuncs["PsipURI.AdjustOffs"]
	if fn == nil {
		c.fail("M7", "AdjustOffs", token.NoPos, "not found")
		return
	}
	var key func(v ssa.Value, d int) string
	key = func(v ssa.Value, d int) string {
		if d > 8 || v == nil {
			return "?"
		}
		switch x := v.(type) {
		case *ssa.BinOp:
			return "(" + key(x.X, d+1) + x.Op.String() + key(x.Y, d+1) + ")"
		case *ssa.UnOp:
			return x.Op.String() + key(x.X, d+1)
		case *ssa.FieldAddr:
			st := x.X.Type().Underlying().(*types.Pointer).Elem().Underlying().(*types.Struct)
			return key(x.X, d+1) + "." + st.Field(x.Field).Name()
		case *ssa.Field:
			st := x.X.Type().Underlying().(*types.Struct)
			return key(x.X, d+1) + "." + st.Field(x.Field).Name()
		case *ssa.Convert:
			return key(x.X, d+1)
		case *ssa.ChangeType:
			return key(x.X, d+1)
		case *ssa.Const:
			return x.Value.String()
		}
		return v.Name()
	}
	// x.Offs + x.Len of one base
	isCompEnd := func(v ssa.Value) bool {
		b, ok := stripNarrow(v).(*ssa.BinOp)
		if !ok || b.Op != token.ADD {
			return false
		}
		kx, ky := key(b.X, 0), key(b.Y, 0)
		if strings.HasSuffix(kx, ".Len") {
			kx, ky = ky, kx
		}
		return strings.HasSuffix(kx, ".Offs") && strings.HasSuffix(ky, ".Len") && strings.TrimSuffix(kx, ".Offs") == strings.TrimSuffix(ky, ".Len")
	}
	// a spilled local read through its address must have a single store (so equal renderings are equal values
	// between the comparison and the assignment it dominates)
	singleStore := func(v ssa.Value) bool {
		ok := true
		var walk func(x ssa.Value, d int)
		walk = func(x ssa.Value, d int) {
			if d > 8 || x == nil {
				return
			}
			switch y := x.(type) {
			case *ssa.BinOp:
				walk(y.X, d+1)
				walk(y.Y, d+1)
			case *ssa.UnOp:
				walk(y.X, d+1)
			case *ssa.FieldAddr:
				walk(y.X, d+1)
			case *ssa.Field:
				walk(y.X, d+1)
			case *ssa.Convert:
				walk(y.X, d+1)
			case *ssa.Alloc:
				n := 0
				for _, r := range *y.Referrers() {
					if s, isS := r.(*ssa.Store); isS && s.Addr == ssa.Value(y) {
						n++
					}
				}
				if n != 1 {
					ok = false
				}
			}
		}
		walk(v, 0)
		return ok
	}
	nmax := 0
	for _, b := range fn.Blocks {
		for _, ins := range b.Instrs {
			ph, ok := ins.(*ssa.Phi)
			if !ok {
				continue
			}
			for ei, v := range ph.Edges {
				p := b.Preds[ei]
				if !isCompEnd(v) || p == fn.Blocks[0] || p.Dominates(b) && len(p.Succs) == 1 && fn.Blocks[0] == p {
					continue
				}
				// unconditional initialisation (the pred reaches the merge on every path from entry): not an update
				if vi, isI := v.(ssa.Instruction); isI && vi.Block() == fn.Blocks[0] {
					continue
				}
				nmax++
				others := map[ssa.Value]bool{ssa.Value(ph): true}
				for ej, w := range ph.Edges {
					if ej != ei {
						others[w] = true
					}
				}
				kv := key(v, 0)
				found := false
				for _, d := range fn.Blocks {
					iff, isIf := d.Instrs[len(d.Instrs)-1].(*ssa.If)
					if !isIf {
						continue
					}
					cmp, isB := iff.Cond.(*ssa.BinOp)
					if !isB {
						continue
					}
					for idx := 0; idx < 2; idx++ {
						s := d.Succs[idx]
						if len(s.Preds) != 1 || !s.Dominates(p) {
							continue
						}
						var big, small ssa.Value
						switch {
						case cmp.Op == token.GTR && idx == 0, cmp.Op == token.LEQ && idx == 1:
							big, small = cmp.X, cmp.Y
						case cmp.Op == token.LSS && idx == 0, cmp.Op == token.GEQ && idx == 1:
							big, small = cmp.Y, cmp.X
						default:
							continue
						}
						if key(big, 0) == kv && others[small] && singleStore(big) {
							found = true
						}
					}
				}
				c.check(found, "M7", "max-update:"+itoa(nmax), v.Pos(), "the URI end takes the end of a component ("+kv+") only behind the test that this end exceeds the end kept so far: the extent is the maximum over the components, whatever their order in the text (tel: URIs keep the number, as User, behind the password)")
			}
		}
	}
	c.check(nmax >= 1, "M7", "max-updates", fn.Pos(), fmt.Sprintf("%d conditional update(s) of the URI end by a component end found", nmax))
	for li, l := range naturalLoops(fn) {
		okl := true
		var at token.Pos = fn.Pos()
		for b := range l.body {
			if b == l.head {
				continue
			}
			for _, s := range b.Succs {
				if !l.body[s] {
					okl = false
					for _, in := range b.Instrs {
						if in.Pos().IsValid() {
							at = in.Pos()
						}
					}
				}
			}
		}
		c.check(okl, "M7", "no-early-exit:"+itoa(li+1), at, "a loop of AdjustOffs is left only from its head: no component is skipped by an early exit")
	}
}
