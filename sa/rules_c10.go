package main

import (
	"fmt"
	"go/ast"
	"go/token"
	"sort"
	"strings"

	"golang.org/x/tools/go/ssa"
)

// B: the documented range is the range. Every comparison of an accumulated number (the accumulator cell or the step
// result, E-ACC taint) with a constant in the four parsers below draws the line exactly at the documented bound:
// normalised to "accepted iff value <= B", B is 65535 for the URI port, 2^32-1 for CSeq and the unsigned-integer
// headers, 255 for an IPv4 group. A guard one short of the bound rejects a value the property says is reported.
func ruleB(c *Ctx) {
	steps := findAccSteps(c.Prog)
	taint := computeAccTaint(c.Prog, steps)
	want := map[string]int64{"ParseURI": 65535, "ParseCSeqVal": 1<<32 - 1, "ParseUIntVal": 1<<32 - 1, "IP4Prefix": 255}
	n := 0
	var names []string
	for k := range want {
		names = append(names, k)
	}
	sort.Strings(names)
	for _, name := range names {
		fn := c.SFuncs[name]
		if fn == nil {
			c.fail("B", name, token.NoPos, "not found")
			continue
		}
		cnt := 0
		for _, b := range fn.Blocks {
			for _, ins := range b.Instrs {
				bo, ok := ins.(*ssa.BinOp)
				if !ok {
					continue
				}
				var k int64
				var isC, flipped bool
				var tv ssa.Value
				if kk, okc := constIntOf(bo.Y); okc && taint.vals[stripWiden(bo.X)] {
					k, isC, tv = kk, true, bo.X
				} else if kk, okc := constIntOf(bo.X); okc && taint.vals[stripWiden(bo.Y)] {
					k, isC, tv, flipped = kk, true, bo.Y, true
				}
				if !isC || tv == nil {
					continue
				}
				op := bo.Op
				if flipped {
					switch op {
					case token.LSS:
						op = token.GTR
					case token.GTR:
						op = token.LSS
					case token.LEQ:
						op = token.GEQ
					case token.GEQ:
						op = token.LEQ
					}
				}
				var bound int64
				switch op {
				case token.GTR, token.LEQ:
					bound = k
				case token.GEQ, token.LSS:
					bound = k - 1
				default:
					continue
				}
				if bound < 16 {
					continue // digit-count and small structural tests, not the value range
				}
				cnt++
				n++
				c.check(bound == want[name], "B", fmt.Sprintf("%s:range-test#%d", name, cnt), bo.Pos(), fmt.Sprintf("the accumulated number is accepted exactly up to the documented bound %d (this test draws the line at %d)", want[name], bound))
			}
		}
	}
	c.check(n >= 5, "B", "range-tests", token.NoPos, fmt.Sprintf("%d range tests on accumulated numbers inspected (frozen minimum 5)", n))
}

func init() {
	register(&PropDef{
		ID: "C10",
		Rules: []Rule{
			{"A", "every decimal accumulation step x*10+d (discovered on SSA) is wrap-free: interval analysis over ideal integers with byte-set digit ranges and dominating guards, or an A2 pre-check x > (MAX-d)/10, or an A1 widened check of the same cells that dominates the step", ruleA},
			{"B", "the documented range is the range: every comparison of an accumulated number with a constant in ParseURI (port), ParseCSeqVal, ParseUIntVal and IP4Prefix, normalised to 'accepted iff value <= B', has B = 65535 / 2^32-1 / 2^32-1 / 255 — a guard one short of the bound rejects a value the property says is reported exactly", ruleB},
			{"AR", "number/field pairing for the URI port: in the extracted ParseURI automaton, every entry into a state that accumulates port digits happens with the accumulator at 0 (reachability over state x {zero, non-zero})", ruleAR},
			{"W", "every other +,-,*,<< on an accumulator-derived value (q scaling, combined range expressions) is wrap-free at the point where it is computed", ruleW},
			{"R", "documented ranges not implied by a type width: Content-Length <= 9 digits and <= 2^24 on its success path, the limit constants, contact expires saturating at the constant 2^32-1, q with more than three decimals flagged", ruleR},
			{"N", "every narrowing integer conversion outside init has an operand whose range (intervals + dominating guards) fits the target type; conversions to OffsT are the documented 65,535 limit", ruleN},
		},
		Assumptions: []string{"int is at least 32 bits (upper bounds are checked against 32-bit int)", "offsets fit OffsT (documented 65,535-byte limit)"},
		NotDecided:  "that the number equals the digit string it points to (field/number pairing); only wrap-freedom and range tests are decided",
	})
}

// qScaleProof: relational argument for `pf.Q = uint16(u*1000 + d)`:
// d was parsed from k = HIGH-LOW digits (so d < 10^k), the switch on that same k
// multiplies d by m with (10^k-1)*m <= 999, and the enclosing else-branch has u <= 1, d <= 999.
func qScaleProof(c *Ctx, cv *ssa.Convert, env *rangeEnv) (string, bool) {
	fd := c.Decls["setFromParamVal"]
	if fd == nil {
		return "", false
	}
	var proof string
	okAll := false
	stmtLists(fd.Body, func(list []ast.Stmt) {
		for i, s := range list {
			as, ok := s.(*ast.AssignStmt)
			if !ok || len(as.Rhs) != 1 || i == 0 {
				continue
			}
			call, ok := as.Rhs[0].(*ast.CallExpr)
			if !ok || call.Lparen != cv.Pos() && call.Pos() != cv.Pos() {
				continue
			}
			sum, ok := unparen(call.Args[0]).(*ast.BinaryExpr)
			if !ok || sum.Op != token.ADD {
				return
			}
			mul, ok := unparen(sum.X).(*ast.BinaryExpr)
			if !ok || mul.Op != token.MUL {
				return
			}
			kk, _ := c.constInt(mul.Y)
			uName, dName := c.src(mul.X), c.src(sum.Y)
			if kk != 1000 {
				return
			}
			sw, ok := list[i-1].(*ast.SwitchStmt)
			if !ok || sw.Tag == nil {
				return
			}
			// scaling cases
			for _, cc := range sw.Body.List {
				cl := cc.(*ast.CaseClause)
				if cl.List == nil {
					for _, st := range cl.Body {
						if strings.Contains(c.src(st), dName+" =") {
							return
						}
					}
					continue
				}
				if len(cl.List) != 1 || len(cl.Body) != 1 {
					return
				}
				k, ok1 := c.constInt(cl.List[0])
				a, ok2 := cl.Body[0].(*ast.AssignStmt)
				if !ok1 || !ok2 || c.src(a.Lhs[0]) != dName {
					return
				}
				m, ok3 := unparen(a.Rhs[0]).(*ast.BinaryExpr)
				if !ok3 || m.Op != token.MUL || c.src(m.X) != dName {
					return
				}
				mv, ok4 := c.constInt(m.Y)
				if !ok4 || k < 1 || k > 3 {
					return
				}
				p10 := int64(1)
				for j := int64(0); j < k; j++ {
					p10 *= 10
				}
				if (p10-1)*mv > 999 {
					return
				}
			}
			// the tag is the digit count of the slice d was parsed from
			tagT := map[string]int{}
			sumTerms(c, sw.Tag, 1, nil, tagT)
			found := false
			ast.Inspect(fd.Body, func(n ast.Node) bool {
				a, ok := n.(*ast.AssignStmt)
				if !ok || len(a.Lhs) != 2 || len(a.Rhs) != 1 || c.src(a.Lhs[0]) != dName {
					return true
				}
				pc, ok := a.Rhs[0].(*ast.CallExpr)
				if !ok || c.calleeName(pc) != "pUInt64Val" {
					return true
				}
				se, ok := pc.Args[0].(*ast.SliceExpr)
				if !ok || se.Low == nil || se.High == nil {
					return true
				}
				lt := map[string]int{}
				sumTerms(c, se.High, 1, nil, lt)
				sumTerms(c, se.Low, -1, nil, lt)
				if termsStr(lt) == termsStr(tagT) {
					found = true
				}
				return true
			})
			if !found {
				return
			}
			// u <= 1 and d <= 999 from dominating guards (SSA facts at the conversion)
			add, ok := cv.X.(*ssa.BinOp)
			if !ok {
				return
			}
			mulv, ok := add.X.(*ssa.BinOp)
			if !ok {
				return
			}
			_, uh := env.rng(mulv.X, cv.Block())
			if uh.Cmp(bigOf(1)) > 0 {
				return
			}
			okAll = true
			proof = fmt.Sprintf("q scaling: %s <= 1 (guard), %s parsed from k=%s digits so < 10^k, scaled by m with (10^k-1)*m <= 999 in the switch on the same k, unscaled %s <= 999 (guard): value <= 1999 fits uint16", uName, dName, c.src(sw.Tag), dName)
		}
	})
	return proof, okAll
}

// condAtoms flattens a condition over && / || into its leaves.
func condLeaves(e ast.Expr, out *[]ast.Expr) {
	e = unparen(e)
	if b, ok := e.(*ast.BinaryExpr); ok && (b.Op == token.LAND || b.Op == token.LOR) {
		condLeaves(b.X, out)
		condLeaves(b.Y, out)
		return
	}
	*out = append(*out, e)
}

// ruleR: the documented ranges that are not implied by a type width.
func ruleR(c *Ctx) {
	// Content-Length: <= 9 digits and <= 2^24, checked on the success path of ParseCLenVal
	fd := c.Decls["ParseCLenVal"]
	if fd == nil {
		c.fail("R", "ParseCLenVal", token.NoPos, "not found")
	} else {
		var digOK, valOK, errOK, retOK bool
		ast.Inspect(fd.Body, func(n ast.Node) bool {
			is, ok := n.(*ast.IfStmt)
			if !ok {
				return true
			}
			var leaves []ast.Expr
			condLeaves(is.Cond, &leaves)
			for _, l := range leaves {
				b, ok := l.(*ast.BinaryExpr)
				if !ok {
					continue
				}
				ls := c.src(b.X)
				k, isC := c.constInt(b.Y)
				switch {
				case b.Op == token.EQL && isC && k == 0:
					errOK = true
				case b.Op == token.GTR && isC && strings.HasSuffix(ls, ".SVal.Len") && k <= 9:
					digOK = true
				case b.Op == token.GTR && isC && strings.HasSuffix(ls, ".UIVal") && k <= 1<<24:
					valOK = true
				}
			}
			for _, s := range is.Body.List {
				if r, ok := s.(*ast.ReturnStmt); ok && len(r.Results) == 2 {
					if k, isC := c.constInt(r.Results[1]); isC && k != 0 {
						retOK = true
					}
				}
			}
			return true
		})
		// shape: (err == 0) && (digits > 9 || value > 2^24) -> error return
		c.check(digOK && valOK && errOK && retOK, "R", "ParseCLenVal:limits", fd.Pos(),
			"a successfully parsed Content-Length is rejected when it has more than 9 digits or exceeds 2^24")
	}
	for name, want := range map[string]int64{"MaxCLenValueSize": 9, "MaxClenValue": 1 << 24, "MaxCSeqNValue": 1<<32 - 1, "MaxCSeqNValueSize": 10} {
		v, ok := c.namedConstInt(name)
		c.check(ok && v == want, "R", "const:"+name, token.NoPos, fmt.Sprintf("%s == %d (got %d)", name, want, v))
	}
	// Contact expires saturates at 2^32-1: the else branch of the range test stores the constant
	fs := c.Decls["setFromParamVal"]
	sat := false
	if fs != nil {
		ast.Inspect(fs.Body, func(n ast.Node) bool {
			is, ok := n.(*ast.IfStmt)
			if !ok || is.Else == nil {
				return true
			}
			thenConv := false
			for _, s := range is.Body.List {
				if as, ok := s.(*ast.AssignStmt); ok && len(as.Lhs) == 1 && strings.HasSuffix(c.src(as.Lhs[0]), ".Expires") && strings.HasPrefix(c.src(as.Rhs[0]), "uint32(") {
					thenConv = true
				}
			}
			if eb, ok := is.Else.(*ast.BlockStmt); ok && thenConv {
				for _, s := range eb.List {
					if as, ok := s.(*ast.AssignStmt); ok && len(as.Lhs) == 1 && strings.HasSuffix(c.src(as.Lhs[0]), ".Expires") {
						if k, isC := c.constInt(as.Rhs[0]); isC && k == 1<<32-1 {
							sat = true
						}
					}
				}
			}
			return true
		})
	}
	c.check(sat, "R", "setFromParamVal:expires-saturation", token.NoPos, "out-of-range contact expires is stored as the constant 2^32-1")
	// q: more than three decimals is flagged (ParamErr) and Q left unset
	qflag := false
	if fs != nil {
		ast.Inspect(fs.Body, func(n ast.Node) bool {
			is, ok := n.(*ast.IfStmt)
			if !ok || is.Else == nil {
				return true
			}
			b, ok := is.Cond.(*ast.BinaryExpr)
			if !ok || b.Op != token.LEQ {
				return true
			}
			if k, isC := c.constInt(b.Y); !isC || k != 4 {
				return true
			}
			if eb, ok := is.Else.(*ast.BlockStmt); ok {
				s := c.src(eb)
				if strings.Contains(s, ".ParamErr = ") && !strings.Contains(s, ".Q = ") {
					qflag = true
				}
			}
			return true
		})
	}
	ruleRWho(c)
	c.check(qflag, "R", "setFromParamVal:q-decimals", token.NoPos, "a q value with more than three decimals ('.'+3 digits) is flagged in ParamErr and Q is not stored")
}

// ruleRWho: the Content-Length body object is only ever parsed by ParseCLenVal (so that a parsed
// CLen.UIVal carries the 2^24 bound that rule W relies on).
func ruleRWho(c *Ctx) {
	n := 0
	for k, fn := range c.SFuncs {
		for _, b := range fn.Blocks {
			for _, ins := range b.Instrs {
				call, ok := ins.(*ssa.Call)
				if !ok {
					continue
				}
				cal := call.Call.StaticCallee()
				if cal == nil || cal.Pkg != c.SSA {
					continue
				}
				for _, a := range call.Call.Args {
					if !strings.HasSuffix(a.Type().String(), ".PUIntBody") {
						continue
					}
					origin := ""
					var originOf func(v ssa.Value, depth int) string
					originOf = func(v ssa.Value, depth int) string {
						switch o := v.(type) {
						case *ssa.Call:
							if o.Call.IsInvoke() {
								return o.Call.Method.Name()
							} else if sc := o.Call.StaticCallee(); sc != nil {
								return sc.Name()
							}
						case *ssa.FieldAddr:
							return addrPath(o)
						case *ssa.Parameter:
							return "param"
						case *ssa.Phi:
							// a body chosen at run time: it is the Content-Length body if any alternative is
							if depth < 4 {
								for _, e := range o.Edges {
									if og := originOf(e, depth+1); og == "GetCLen" || strings.HasSuffix(og, ".CLen") {
										return og
									}
								}
							}
						}
						return ""
					}
					origin = originOf(a, 0)
					isCLen := origin == "GetCLen" || strings.HasSuffix(origin, ".CLen")
					if !isCLen {
						continue
					}
					n++
					c.check(cal.Name() == "ParseCLenVal" || cal.Name() == "Parsed" || cal.Name() == "Reset" || cal.Name() == "Empty" || cal.Name() == "Pending",
						"R", "clen-parser:"+k+":"+cal.Name(), call.Pos(), "the Content-Length body ("+origin+") is parsed only by ParseCLenVal, which enforces <= 9 digits and <= 2^24")
				}
			}
		}
	}
	c.check(n >= 2, "R", "clen-parser:count", token.NoPos, fmt.Sprintf("%d parse calls on the Content-Length body found (frozen minimum 2)", n))
}

// ruleAR: the port accumulator is 0 whenever a state that accumulates port digits is entered
// (abstract interpretation of the extracted ParseURI automaton x {portNo==0, portNo!=0}).
func ruleAR(c *Ctx) {
	r := fsmOf(c, "ParseURI")
	if r == nil || r.head == nil || r.capped {
		c.fail("AR", "ParseURI:fsm", token.NoPos, "state machine could not be extracted")
		return
	}
	g := r.grouped(r.trans)
	// which states accumulate?
	acc := map[int64]bool{}
	accN := uriAccName(g)
	for _, t := range g {
		if v := t.Locals[accN]; strings.Contains(v, "10*"+accN) {
			acc[t.From] = true
		}
	}
	c.check(len(acc) >= 2, "AR", "accumulating-states", token.NoPos, fmt.Sprintf("%d states accumulate port digits", len(acc)))
	type cfg struct {
		st   int64
		zero bool
	}
	reach := map[cfg]bool{}
	var work []cfg
	for _, k := range r.states {
		if strings.HasPrefix(r.name(k), "uInit") && r.name(k) != "uInit" {
			work = append(work, cfg{k, true})
			reach[cfg{k, true}] = true
		}
	}
	bad := map[string]string{}
	for len(work) > 0 {
		cur := work[len(work)-1]
		work = work[:len(work)-1]
		for _, t := range g {
			if t.From != cur.st || t.Exit != "" || t.To < 0 {
				continue
			}
			z := cur.zero
			switch v := t.Locals[accN]; {
			case v == "+0":
				z = true
			case v == "=" || v == "":
			default:
				z = false
			}
			if t.To != t.From && acc[t.To] && !z {
				bad[r.name(t.From)+"->"+r.name(t.To)+" on "+t.Bytes.String()] = "entered with a possibly non-zero accumulator"
			}
			n := cfg{t.To, z}
			if !reach[n] {
				reach[n] = true
				work = append(work, n)
			}
		}
	}
	c.check(len(bad) == 0, "AR", "ParseURI:portNo-zero-on-entry", token.NoPos,
		fmt.Sprintf("over the %d reachable (state, accumulator-is-zero) configurations, every entry into a digit-accumulating state happens with portNo == 0, so PortNo is the value of the digits of Port only %v", len(reach), bad))
}

// uriAccName: the loop-carried local that accumulates decimal digits (x = 10*x + digit), found by its update.
func uriAccName(g []fsmTrans) string {
	for _, t := range g {
		for k, v := range t.Locals {
			if strings.Contains(v, "10*"+k) {
				return k
			}
		}
	}
	return ""
}
