package main

import (
	"go/constant"
	"go/types"
	"fmt"
	"go/ast"
	"go/token"
	"sort"
	"strings"

	"golang.org/x/tools/go/ssa"
)

// B: the documented range is the range. Every comparison of an accumulated number (the accumulator cell or the step
// result, E-ACC taint) with a constant in the four parsers below draws the line exactly at the documented bound:
// normalised to "accepted iff value <= B", B is 65535 for the URI port, 2^32-1 for CSeq and the unsigned-integer
// headers, 255 for an IPv4 group. A guard one short of the bound rejects a value the property says is reported.
func ruleB(c *Ctx) {
	steps := findAccSteps(c.Prog)
	taint := computeAccTaint(c.Prog, steps)
	want := map[string]int64{"ParseURI": 65535, "ParseCSeqVal": 1<<32 - 1, "ParseUIntVal": 1<<32 - 1, "IP4Prefix": 255}
	n := 0
	var names []string
	for k := range want {
		names = append(names, k)
	}
	sort.Strings(names)
	for _, name := range names {
		fn := c.SFuncs[name]
		if fn == nil {
			c.fail("B", name, token.NoPos, "not found")
			continue
		}
		cnt := 0
		for _, b := range fn.Blocks {
			for _, ins := range b.Instrs {
				bo, ok := ins.(*ssa.BinOp)
				if !ok {
					continue
				}
				var k int64
				var isC, flipped bool
				var tv ssa.Value
				if kk, okc := constIntOf(bo.Y); okc && taint.vals[stripWiden(bo.X)] {
					k, isC, tv = kk, true, bo.X
				} else if kk, okc := constIntOf(bo.X); okc && taint.vals[stripWiden(bo.Y)] {
					k, isC, tv, flipped = kk, true, bo.Y, true
				}
				if !isC || tv == nil {
					continue
				}
				op := bo.Op
				if flipped {
					switch op {
					case token.LSS:
						op = token.GTR
					case token.GTR:
						op = token.LSS
					case token.LEQ:
						op = token.GEQ
					case token.GEQ:
						op = token.LEQ
					}
				}
				var bound int64
				switch op {
				case token.GTR, token.LEQ:
					bound = k
				case token.GEQ, token.LSS:
					bound = k - 1
				default:
					continue
				}
				if bound < 16 {
					continue // digit-count and small structural tests, not the value range
				}
				cnt++
				n++
				c.check(bound == want[name], "B", fmt.Sprintf("%s:range-test#%d", name, cnt), bo.Pos(), fmt.Sprintf("the accumulated number is accepted exactly up to the documented bound %d (this test draws the line at %d)", want[name], bound))
			}
		}
	}
	c.check(n >= 5, "B", "range-tests", token.NoPos, fmt.Sprintf("%d range tests on accumulated numbers inspected (frozen minimum 5)", n))
}

// ET: the verdict survives its conversions. Every package-level table that is indexed with an ErrorHdr value (found by
// use on SSA: err2ErrorVal in ErrorConv, errHdrStr in Error) has an explicit element for every declared ErrorHdr
// constant; in a table of error values the element for the constant k is the constant k itself (nil only for 0), in a
// table of strings it is non-empty. A hole turns "number too big" into "no error" for the callers that go through
// ErrorConv(), while the value holds the truncated digits.
func ruleET(c *Ctx) {
	var enum []*types.Const
	sc := c.Prog.Types.Scope()
	for _, nm := range sc.Names() {
		if k, ok := sc.Lookup(nm).(*types.Const); ok {
			if n, ok := k.Type().(*types.Named); ok && n.Obj().Name() == "ErrorHdr" {
				enum = append(enum, k)
			}
		}
	}
	sort.Slice(enum, func(i, j int) bool { return constant.Compare(enum[i].Val(), token.LSS, enum[j].Val()) })
	c.check(len(enum) >= 18, "ET", "enum", token.NoPos, fmt.Sprintf("%d declared ErrorHdr constants (frozen minimum 18)", len(enum)))
	tables := map[string]bool{}
	var keys []string
	for k := range c.Prog.SFuncs {
		keys = append(keys, k)
	}
	sort.Strings(keys)
	for _, k := range keys {
		fn := c.Prog.SFuncs[k]
		if fn == nil {
			continue
		}
		for _, b := range fn.Blocks {
			for _, ins := range b.Instrs {
				ia, ok := ins.(*ssa.IndexAddr)
				if !ok {
					continue
				}
				g, ok := ia.X.(*ssa.Global)
				if !ok {
					continue
				}
				idx := ia.Index
				for i := 0; i < 3; i++ {
					if cv, ok := idx.(*ssa.Convert); ok {
						idx = cv.X
					}
				}
				if n, ok := idx.Type().(*types.Named); ok && n.Obj().Name() == "ErrorHdr" {
					tables[g.Name()] = true
				}
			}
		}
	}
	var tns []string
	for t := range tables {
		tns = append(tns, t)
	}
	sort.Strings(tns)
	c.check(len(tns) >= 2, "ET", "tables", token.NoPos, fmt.Sprintf("tables indexed by an ErrorHdr value: %v (frozen minimum 2)", tns))
	for _, tn := range tns {
		var lit *ast.CompositeLit
		for _, f := range c.Prog.Pkg.Syntax {
			for _, d := range f.Decls {
				gd, ok := d.(*ast.GenDecl)
				if !ok || gd.Tok != token.VAR {
					continue
				}
				for _, sp := range gd.Specs {
					vs := sp.(*ast.ValueSpec)
					for i, nm := range vs.Names {
						if nm.Name == tn && i < len(vs.Values) {
							lit, _ = vs.Values[i].(*ast.CompositeLit)
						}
					}
				}
			}
		}
		if lit == nil {
			c.fail("ET", tn+":literal", token.NoPos, "the table is not initialised by a composite literal in its declaration")
			continue
		}
		elems := map[int64]ast.Expr{}
		next := int64(0)
		for _, e := range lit.Elts {
			v := e
			if kv, ok := e.(*ast.KeyValueExpr); ok {
				if ki, ok := c.Prog.constInt(kv.Key); ok {
					next = ki
				}
				v = kv.Value
			}
			elems[next] = v
			next++
		}
		for _, k := range enum {
			kv, _ := constant.Int64Val(constant.ToInt(k.Val()))
			e, has := elems[kv]
			good, why := false, "no element"
			if has {
				tv := c.Prog.Info.Types[e]
				switch {
				case tv.IsNil():
					good, why = kv == 0, "nil"
				case tv.Value != nil && tv.Value.Kind() == constant.String:
					good, why = constant.StringVal(tv.Value) != "", "string"
				case tv.Value != nil:
					ev, _ := constant.Int64Val(constant.ToInt(tv.Value))
					good, why = ev == kv && kv != 0, fmt.Sprintf("constant %d", ev)
				default:
					why = "not a constant"
				}
			}
			c.check(good, "ET", tn+":"+k.Name(), lit.Pos(), fmt.Sprintf("table %s has for %s (=%d) an element that is the constant itself / a non-empty text (found: %s)", tn, k.Name(), kv, why))
		}
	}
}

// PV: a number is used only once it is complete. UIVal is accumulated digit by digit and left at the truncated prefix
// when the value is rejected as too big, so between two chunks, and after a rejection, it holds a number that was
// never in the message. Outside the functions that write it, every read of a UIVal field is dominated by the true
// edge of Parsed() on the same object (not by a weaker test such as !Empty(), which is already true while the value
// is pending or after it failed).
func rulePV(c *Ctx) {
	var keys []string
	for k := range c.Prog.SFuncs {
		keys = append(keys, k)
	}
	sort.Strings(keys)
	isUIVal := func(fa *ssa.FieldAddr) bool {
		sd := derefStruct(fa.X.Type())
		return sd != nil && sd.Field(fa.Field).Name() == "UIVal"
	}
	writers := map[string]bool{}
	for _, k := range keys {
		fn := c.Prog.SFuncs[k]
		if fn == nil {
			continue
		}
		for _, b := range fn.Blocks {
			for _, ins := range b.Instrs {
				if st, ok := ins.(*ssa.Store); ok {
					if fa, ok := st.Addr.(*ssa.FieldAddr); ok && isUIVal(fa) {
						writers[k] = true
					}
				}
			}
		}
	}
	n := 0
	for _, k := range keys {
		fn := c.Prog.SFuncs[k]
		if fn == nil || writers[k] {
			continue
		}
		ord := 0
		for _, b := range fn.Blocks {
			for _, ins := range b.Instrs {
				u, ok := ins.(*ssa.UnOp)
				if !ok || u.Op != token.MUL {
					continue
				}
				fa, ok := u.X.(*ssa.FieldAddr)
				if !ok || !isUIVal(fa) {
					continue
				}
				obj := addrPath(fa.X)
				n++
				ord++
				guarded := false
				for _, gb := range fn.Blocks {
					iff, ok := gb.Instrs[len(gb.Instrs)-1].(*ssa.If)
					if !ok {
						continue
					}
					call, ok := iff.Cond.(*ssa.Call)
					if !ok {
						continue
					}
					cal := call.Call.StaticCallee()
					if cal == nil || cal.Name() != "Parsed" || len(call.Call.Args) != 1 || obj == "" || addrPath(call.Call.Args[0]) != obj {
						continue
					}
					t := gb.Succs[0]
					if len(t.Preds) == 1 && t != gb.Succs[1] && t.Dominates(b) {
						guarded = true
					}
				}
				// or: under the zero verdict of the parser call that was handed the same object
				for _, gb := range fn.Blocks {
					iff, ok := gb.Instrs[len(gb.Instrs)-1].(*ssa.If)
					if !ok || guarded {
						continue
					}
					bo, ok := iff.Cond.(*ssa.BinOp)
					if !ok || bo.Op != token.EQL {
						continue
					}
					if kz, isK := constIntOf(bo.Y); !isK || kz != 0 {
						continue
					}
					ex, ok := bo.X.(*ssa.Extract)
					if !ok {
						continue
					}
					call, ok := ex.Tuple.(*ssa.Call)
					if !ok || call.Call.StaticCallee() == nil || !writers[ssaKey(call.Call.StaticCallee())] {
						continue
					}
					same := false
					for _, a := range call.Call.Args {
						if obj != "" && addrPath(a) == obj {
							same = true
						}
					}
					t := gb.Succs[0]
					if same && len(t.Preds) == 1 && t != gb.Succs[1] && t.Dominates(b) {
						guarded = true
					}
				}
				c.check(guarded, "PV", fmt.Sprintf("%s:UIVal-read#%d", k, ord), u.Pos(), fmt.Sprintf("%s reads %s.UIVal only where the true edge of %s.Parsed() dominates the read", k, obj, obj))
			}
		}
	}
	c.check(n >= 4, "PV", "instances", token.NoPos, fmt.Sprintf("%d reads of UIVal outside its writers (frozen minimum 4)", n))
}

// SAT: a number helper that gives up on a too-big / too-long digit string hands back the saturated value. The caller
// of pUInt64Val for the Contact expires parameter stores min(result, 2^32-1) whatever the verdict; that is the
// documented saturation only if every return whose verdict says "does not fit" (ErrHdrNumTooBig, ErrHdrValTooLong)
// carries the all-ones constant. A return of the initial 0 (or of the truncated prefix) makes a huge expires a
// successful 0 — a de-registration.
func ruleSAT(c *Ctx) {
	fn := c.SFuncs["pUInt64Val"]
	if fn == nil {
		c.fail("SAT", "pUInt64Val", token.NoPos, "not found")
		return
	}
	ei := errResultIndex(fn)
	if ei != 1 {
		c.fail("SAT", "pUInt64Val:shape", fn.Pos(), "expected results (number, verdict)")
		return
	}
	big, _ := c.namedConstInt("ErrHdrNumTooBig")
	long, _ := c.namedConstInt("ErrHdrValTooLong")
	e := newErrAnalysis(c.Prog)
	n := 0
	for _, b := range fn.Blocks {
		ret, ok := b.Instrs[len(b.Instrs)-1].(*ssa.Return)
		if !ok {
			continue
		}
		vs := e.at(ret.Results[ei], b)
		if !vs.has(big) && !vs.has(long) {
			continue
		}
		n++
		good := false
		if kc, ok := ret.Results[0].(*ssa.Const); ok && kc.Value != nil {
			if u, exact := constant.Uint64Val(constant.ToInt(kc.Value)); exact && u == ^uint64(0) {
				good = true
			}
		}
		c.check(good, "SAT", fmt.Sprintf("pUInt64Val:does-not-fit-return#%d", n), ret.Pos(), fmt.Sprintf("a return of pUInt64Val with verdict %s carries the all-ones constant (the expires caller saturates min(result, 2^32-1) regardless of the verdict)", e.setName("ErrorHdr", vs)))
	}
	c.check(n >= 1, "SAT", "instances", token.NoPos, fmt.Sprintf("%d does-not-fit returns (frozen minimum 1)", n))
}

func init() {
	register(&PropDef{
		ID: "C10",
		Rules: []Rule{
			{"A", "every decimal accumulation step x*10+d (discovered on SSA) is wrap-free: interval analysis over ideal integers with byte-set digit ranges and dominating guards, or an A2 pre-check x > (MAX-d)/10, or an A1 widened check of the same cells that dominates the step", ruleA},
			{"B", "the documented range is the range: every comparison of an accumulated number with a constant in ParseURI (port), ParseCSeqVal, ParseUIntVal and IP4Prefix, normalised to 'accepted iff value <= B', has B = 65535 / 2^32-1 / 2^32-1 / 255 — a guard one short of the bound rejects a value the property says is reported exactly", ruleB},
			{"AR", "number/field pairing for the URI port: in the extracted ParseURI automaton, every entry into a state that accumulates port digits happens with the accumulator at 0 (reachability over state x {zero, non-zero})", ruleAR},
			{"W", "every other +,-,*,<< on an accumulator-derived value (q scaling, combined range expressions) is wrap-free at the point where it is computed", ruleW},
			{"R", "documented ranges not implied by a type width: Content-Length <= 9 digits and <= 2^24 on its success path, the limit constants, contact expires saturating at the constant 2^32-1, q with more than three decimals flagged", ruleR},
			{"ET", "an out-of-range verdict survives its conversions: every package-level table indexed with an ErrorHdr value (err2ErrorVal in ErrorConv, errHdrStr in Error; found by use on SSA) has an explicit element for every declared ErrorHdr constant, which is that constant itself (nil only for 0) or a non-empty text", ruleET},
			{"PV", "a number is used only once it is complete: outside the functions that write it, every read of a UIVal field (Content-Length, Expires: accumulated digit by digit, left at the truncated prefix on a too-big rejection) is dominated by the true edge of Parsed() on the same object, or by the zero verdict of the writing parser called on that object", rulePV},
			{"AM", "the port number keeps its digits under relocation (shared with C18-M1): AdjustOffs rebases every component, Port included, as Offs - oldStart + newStart", func(c *Ctx) {
				t := &Ctx{Prog: c.Prog, Prop: c.Prop}
				ruleM1(t)
				for _, o := range t.obls {
					o.Key = "AM:" + strings.TrimPrefix(o.Key, "M1:")
					o.Rule = "AM"
					c.obls = append(c.obls, o)
				}
				c.expectMin("AM", 6)
			}},
			{"SAT", "saturation reaches the caller: every return of pUInt64Val whose verdict says the digits do not fit (ErrHdrNumTooBig, ErrHdrValTooLong) carries the all-ones constant, because the Contact expires caller stores min(result, 2^32-1) whatever the verdict", ruleSAT},
			{"N", "every narrowing integer conversion outside init has an operand whose range (intervals + dominating guards) fits the target type; conversions to OffsT are the documented 65,535 limit", ruleN},
		},
		Assumptions: []string{"int is at least 32 bits (upper bounds are checked against 32-bit int)", "offsets fit OffsT (documented 65,535-byte limit)"},
		NotDecided:  "that the number equals the digit string it points to (field/number pairing); only wrap-freedom and range tests are decided",
	})
}

// qScaleProof: relational argument for `pf.Q = uint16(u*1000 + d)`:
// d was parsed from k = HIGH-LOW digits (so d < 10^k), the switch on that same k
// multiplies d by m with (10^k-1)*m <= 999, and the enclosing else-branch has u <= 1, d <= 999.
func qScaleProof(c *Ctx, cv *ssa.Convert, env *rangeEnv) (string, bool) {
	fd := c.Decls["setFromParamVal"]
	if fd == nil {
		return "", false
	}
	var proof string
	okAll := false
	stmtLists(fd.Body, func(list []ast.Stmt) {
		for i, s := range list {
			as, ok := s.(*ast.AssignStmt)
			if !ok || len(as.Rhs) != 1 || i == 0 {
				continue
			}
			call, ok := as.Rhs[0].(*ast.CallExpr)
			if !ok || call.Lparen != cv.Pos() && call.Pos() != cv.Pos() {
				continue
			}
			sum, ok := unparen(call.Args[0]).(*ast.BinaryExpr)
			if !ok || sum.Op != token.ADD {
				return
			}
			mul, ok := unparen(sum.X).(*ast.BinaryExpr)
			if !ok || mul.Op != token.MUL {
				return
			}
			kk, _ := c.constInt(mul.Y)
			uName, dName := c.src(mul.X), c.src(sum.Y)
			if kk != 1000 {
				return
			}
			sw, ok := list[i-1].(*ast.SwitchStmt)
			if !ok || sw.Tag == nil {
				return
			}
			// scaling cases
			for _, cc := range sw.Body.List {
				cl := cc.(*ast.CaseClause)
				if cl.List == nil {
					for _, st := range cl.Body {
						if strings.Contains(c.src(st), dName+" =") {
							return
						}
					}
					continue
				}
				if len(cl.List) != 1 || len(cl.Body) != 1 {
					return
				}
				k, ok1 := c.constInt(cl.List[0])
				a, ok2 := cl.Body[0].(*ast.AssignStmt)
				if !ok1 || !ok2 || c.src(a.Lhs[0]) != dName {
					return
				}
				m, ok3 := unparen(a.Rhs[0]).(*ast.BinaryExpr)
				if !ok3 || m.Op != token.MUL || c.src(m.X) != dName {
					return
				}
				mv, ok4 := c.constInt(m.Y)
				if !ok4 || k < 1 || k > 3 {
					return
				}
				p10 := int64(1)
				for j := int64(0); j < k; j++ {
					p10 *= 10
				}
				if (p10-1)*mv > 999 {
					return
				}
			}
			// the tag is the digit count of the slice d was parsed from
			tagT := map[string]int{}
			sumTerms(c, sw.Tag, 1, nil, tagT)
			found := false
			ast.Inspect(fd.Body, func(n ast.Node) bool {
				a, ok := n.(*ast.AssignStmt)
				if !ok || len(a.Lhs) != 2 || len(a.Rhs) != 1 || c.src(a.Lhs[0]) != dName {
					return true
				}
				pc, ok := a.Rhs[0].(*ast.CallExpr)
				if !ok || c.calleeName(pc) != "pUInt64Val" {
					return true
				}
				se, ok := pc.Args[0].(*ast.SliceExpr)
				if !ok || se.Low == nil || se.High == nil {
					return true
				}
				lt := map[string]int{}
				sumTerms(c, se.High, 1, nil, lt)
				sumTerms(c, se.Low, -1, nil, lt)
				if termsStr(lt) == termsStr(tagT) {
					found = true
				}
				return true
			})
			if !found {
				return
			}
			// u <= 1 and d <= 999 from dominating guards (SSA facts at the conversion)
			add, ok := cv.X.(*ssa.BinOp)
			if !ok {
				return
			}
			mulv, ok := add.X.(*ssa.BinOp)
			if !ok {
				return
			}
			_, uh := env.rng(mulv.X, cv.Block())
			if uh.Cmp(bigOf(1)) > 0 {
				return
			}
			okAll = true
			proof = fmt.Sprintf("q scaling: %s <= 1 (guard), %s parsed from k=%s digits so < 10^k, scaled by m with (10^k-1)*m <= 999 in the switch on the same k, unscaled %s <= 999 (guard): value <= 1999 fits uint16", uName, dName, c.src(sw.Tag), dName)
		}
	})
	return proof, okAll
}

// condAtoms flattens a condition over && / || into its leaves.
func condLeaves(e ast.Expr, out *[]ast.Expr) {
	e = unparen(e)
	if b, ok := e.(*ast.BinaryExpr); ok && (b.Op == token.LAND || b.Op == token.LOR) {
		condLeaves(b.X, out)
		condLeaves(b.Y, out)
		return
	}
	*out = append(*out, e)
}

// ruleR: the documented ranges that are not implied by a type width.
func ruleR(c *Ctx) {
	// Content-Length: <= 9 digits and <= 2^24, checked on the success path of ParseCLenVal
	fd := c.Decls["ParseCLenVal"]
	if fd == nil {
		c.fail("R", "ParseCLenVal", token.NoPos, "not found")
	} else {
		var digOK, valOK, errOK, retOK bool
		ast.Inspect(fd.Body, func(n ast.Node) bool {
			is, ok := n.(*ast.IfStmt)
			if !ok {
				return true
			}
			var leaves []ast.Expr
			condLeaves(is.Cond, &leaves)
			for _, l := range leaves {
				b, ok := l.(*ast.BinaryExpr)
				if !ok {
					continue
				}
				ls := c.src(b.X)
				k, isC := c.constInt(b.Y)
				switch {
				case b.Op == token.EQL && isC && k == 0:
					errOK = true
				case b.Op == token.GTR && isC && strings.HasSuffix(ls, ".SVal.Len") && k <= 9:
					digOK = true
				case b.Op == token.GTR && isC && strings.HasSuffix(ls, ".UIVal") && k <= 1<<24:
					valOK = true
				}
			}
			for _, s := range is.Body.List {
				if r, ok := s.(*ast.ReturnStmt); ok && len(r.Results) == 2 {
					if k, isC := c.constInt(r.Results[1]); isC && k != 0 {
						retOK = true
					}
				}
			}
			return true
		})
		// shape: (err == 0) && (digits > 9 || value > 2^24) -> error return
		c.check(digOK && valOK && errOK && retOK, "R", "ParseCLenVal:limits", fd.Pos(),
			"a successfully parsed Content-Length is rejected when it has more than 9 digits or exceeds 2^24")
	}
	for name, want := range map[string]int64{"MaxCLenValueSize": 9, "MaxClenValue": 1 << 24, "MaxCSeqNValue": 1<<32 - 1, "MaxCSeqNValueSize": 10} {
		v, ok := c.namedConstInt(name)
		c.check(ok && v == want, "R", "const:"+name, token.NoPos, fmt.Sprintf("%s == %d (got %d)", name, want, v))
	}
	// Contact expires saturates at 2^32-1: the else branch of the range test stores the constant
	fs := c.Decls["setFromParamVal"]
	sat := false
	if fs != nil {
		ast.Inspect(fs.Body, func(n ast.Node) bool {
			is, ok := n.(*ast.IfStmt)
			if !ok || is.Else == nil {
				return true
			}
			thenConv := false
			for _, s := range is.Body.List {
				if as, ok := s.(*ast.AssignStmt); ok && len(as.Lhs) == 1 && strings.HasSuffix(c.src(as.Lhs[0]), ".Expires") && strings.HasPrefix(c.src(as.Rhs[0]), "uint32(") {
					thenConv = true
				}
			}
			if eb, ok := is.Else.(*ast.BlockStmt); ok && thenConv {
				for _, s := range eb.List {
					if as, ok := s.(*ast.AssignStmt); ok && len(as.Lhs) == 1 && strings.HasSuffix(c.src(as.Lhs[0]), ".Expires") {
						if k, isC := c.constInt(as.Rhs[0]); isC && k == 1<<32-1 {
							sat = true
						}
					}
				}
			}
			return true
		})
	}
	c.check(sat, "R", "setFromParamVal:expires-saturation", token.NoPos, "out-of-range contact expires is stored as the constant 2^32-1")
	// q: more than three decimals is flagged (ParamErr) and Q left unset
	qflag := false
	if fs != nil {
		ast.Inspect(fs.Body, func(n ast.Node) bool {
			is, ok := n.(*ast.IfStmt)
			if !ok || is.Else == nil {
				return true
			}
			b, ok := is.Cond.(*ast.BinaryExpr)
			if !ok || b.Op != token.LEQ {
				return true
			}
			if k, isC := c.constInt(b.Y); !isC || k != 4 {
				return true
			}
			if eb, ok := is.Else.(*ast.BlockStmt); ok {
				s := c.src(eb)
				if strings.Contains(s, ".ParamErr = ") && !strings.Contains(s, ".Q = ") {
					qflag = true
				}
			}
			return true
		})
	}
	ruleRWho(c)
	c.check(qflag, "R", "setFromParamVal:q-decimals", token.NoPos, "a q value with more than three decimals ('.'+3 digits) is flagged in ParamErr and Q is not stored")
}

// ruleRWho: the Content-Length body object is only ever parsed by ParseCLenVal (so that a parsed
// CLen.UIVal carries the 2^24 bound that rule W relies on).
func ruleRWho(c *Ctx) {
	n := 0
	for k, fn := range c.SFuncs {
		for _, b := range fn.Blocks {
			for _, ins := range b.Instrs {
				call, ok := ins.(*ssa.Call)
				if !ok {
					continue
				}
				cal := call.Call.StaticCallee()
				if cal == nil || cal.Pkg != c.SSA {
					continue
				}
				for _, a := range call.Call.Args {
					if !strings.HasSuffix(a.Type().String(), ".PUIntBody") {
						continue
					}
					origin := ""
					var originOf func(v ssa.Value, depth int) string
					originOf = func(v ssa.Value, depth int) string {
						switch o := v.(type) {
						case *ssa.Call:
							if o.Call.IsInvoke() {
								return o.Call.Method.Name()
							} else if sc := o.Call.StaticCallee(); sc != nil {
								return sc.Name()
							}
						case *ssa.FieldAddr:
							return addrPath(o)
						case *ssa.Parameter:
							return "param"
						case *ssa.Phi:
							// a body chosen at run time: it is the Content-Length body if any alternative is
							if depth < 4 {
								for _, e := range o.Edges {
									if og := originOf(e, depth+1); og == "GetCLen" || strings.HasSuffix(og, ".CLen") {
										return og
									}
								}
							}
						}
						return ""
					}
					origin = originOf(a, 0)
					isCLen := origin == "GetCLen" || strings.HasSuffix(origin, ".CLen")
					if !isCLen {
						continue
					}
					n++
					c.check(cal.Name() == "ParseCLenVal" || cal.Name() == "Parsed" || cal.Name() == "Reset" || cal.Name() == "Empty" || cal.Name() == "Pending",
						"R", "clen-parser:"+k+":"+cal.Name(), call.Pos(), "the Content-Length body ("+origin+") is parsed only by ParseCLenVal, which enforces <= 9 digits and <= 2^24")
				}
			}
		}
	}
	c.check(n >= 2, "R", "clen-parser:count", token.NoPos, fmt.Sprintf("%d parse calls on the Content-Length body found (frozen minimum 2)", n))
}

// ruleAR: the port accumulator is 0 whenever a state that accumulates port digits is entered
// (abstract interpretation of the extracted ParseURI automaton x {portNo==0, portNo!=0}).
func ruleAR(c *Ctx) {
	r := fsmOf(c, "ParseURI")
	if r == nil || r.head == nil || r.capped {
		c.fail("AR", "ParseURI:fsm", token.NoPos, "state machine could not be extracted")
		return
	}
	g := r.grouped(r.trans)
	// which states accumulate?
	acc := map[int64]bool{}
	accN := uriAccName(g)
	for _, t := range g {
		if v := t.Locals[accN]; strings.Contains(v, "10*"+accN) {
			acc[t.From] = true
		}
	}
	c.check(len(acc) >= 2, "AR", "accumulating-states", token.NoPos, fmt.Sprintf("%d states accumulate port digits", len(acc)))
	type cfg struct {
		st   int64
		zero bool
	}
	reach := map[cfg]bool{}
	var work []cfg
	for _, k := range r.states {
		if strings.HasPrefix(r.name(k), "uInit") && r.name(k) != "uInit" {
			work = append(work, cfg{k, true})
			reach[cfg{k, true}] = true
		}
	}
	bad := map[string]string{}
	for len(work) > 0 {
		cur := work[len(work)-1]
		work = work[:len(work)-1]
		for _, t := range g {
			if t.From != cur.st || t.Exit != "" || t.To < 0 {
				continue
			}
			z := cur.zero
			switch v := t.Locals[accN]; {
			case v == "+0":
				z = true
			case v == "=" || v == "":
			default:
				z = false
			}
			if t.To != t.From && acc[t.To] && !z {
				bad[r.name(t.From)+"->"+r.name(t.To)+" on "+t.Bytes.String()] = "entered with a possibly non-zero accumulator"
			}
			n := cfg{t.To, z}
			if !reach[n] {
				reach[n] = true
				work = append(work, n)
			}
		}
	}
	c.check(len(bad) == 0, "AR", "ParseURI:portNo-zero-on-entry", token.NoPos,
		fmt.Sprintf("over the %d reachable (state, accumulator-is-zero) configurations, every entry into a digit-accumulating state happens with portNo == 0, so PortNo is the value of the digits of Port only %v", len(reach), bad))
}

// uriAccName: the loop-carried local that accumulates decimal digits (x = 10*x + digit), found by its update.
func uriAccName(g []fsmTrans) string {
	for _, t := range g {
		for k, v := range t.Locals {
			if strings.Contains(v, "10*"+k) {
				return k
			}
		}
	}
	return ""
}
