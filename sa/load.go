package main

import (
	"fmt"
	"go/ast"
	"go/token"
	"go/types"
	"os"
	"sort"
	"strings"

	"golang.org/x/tools/go/packages"
	"golang.org/x/tools/go/ssa"
	"golang.org/x/tools/go/ssa/ssautil"
)

const sipspPath = "github.com/intuitivelabs/sipsp"

// Prog is one loaded + type-checked + SSA-built build configuration of /repo.
type Prog struct {
	Cfg   string // "debug" (default tags), "nodebug" or "386" (default tags, GOARCH=386)
	Dir   string
	Fset  *token.FileSet
	Pkg   *packages.Package
	Info  *types.Info
	Types *types.Package
	SSA   *ssa.Package
	SProg *ssa.Program
	NPkgs int

	Decls  map[string]*ast.FuncDecl // "Recv.Name" or "Name"
	SFuncs map[string]*ssa.Function // same keys (+ "Outer$1" for closures)
	Files  map[*ast.File]string
}

func loadProg(dir, cfg string) (*Prog, error) {
	flags := []string{}
	if cfg == "nodebug" {
		flags = append(flags, "-tags=nodebug")
	}
	env := append(os.Environ(), "GOFLAGS=-mod=mod", "GOPROXY=off", "GOSUMDB=off",
		"GOTOOLCHAIN=local", "GOWORK=off")
	if cfg == "386" {
		// 32-bit target: int is 32 bits wide for the type checker (constant overflow becomes a load error)
		env = append(env, "GOARCH=386", "CGO_ENABLED=0")
	}
	conf := &packages.Config{
		Mode:       packages.LoadAllSyntax,
		Dir:        dir,
		Env:        env,
		BuildFlags: flags,
		Tests:      false,
	}
	pkgs, err := packages.Load(conf, ".")
	if err != nil {
		return nil, fmt.Errorf("load %s [%s]: %v", dir, cfg, err)
	}
	if len(pkgs) != 1 {
		return nil, fmt.Errorf("load %s [%s]: %d root packages, want 1", dir, cfg, len(pkgs))
	}
	root := pkgs[0]
	nerr := 0
	n := 0
	packages.Visit(pkgs, nil, func(p *packages.Package) {
		n++
		for _, e := range p.Errors {
			fmt.Fprintf(os.Stderr, "load error: %v\n", e)
			nerr++
		}
	})
	if nerr > 0 {
		return nil, fmt.Errorf("load %s [%s]: %d type/parse errors", dir, cfg, nerr)
	}
	if root.PkgPath != sipspPath {
		return nil, fmt.Errorf("unexpected package path %q", root.PkgPath)
	}
	if n < 5 {
		return nil, fmt.Errorf("only %d packages loaded", n)
	}
	sprog, spkgs := ssautil.AllPackages(pkgs, ssa.InstantiateGenerics|ssa.GlobalDebug)
	sprog.Build()
	p := &Prog{Cfg: cfg, Dir: dir, Fset: root.Fset, Pkg: root, Info: root.TypesInfo,
		Types: root.Types, SSA: spkgs[0], SProg: sprog, NPkgs: n,
		Decls: map[string]*ast.FuncDecl{}, SFuncs: map[string]*ssa.Function{},
		Files: map[*ast.File]string{}}
	for _, f := range root.Syntax {
		p.Files[f] = p.Fset.Position(f.Pos()).Filename
		for _, d := range f.Decls {
			fd, ok := d.(*ast.FuncDecl)
			if !ok {
				continue
			}
			name := declKey(fd)
			if fd.Name.Name == "init" {
				name = fmt.Sprintf("init@%s", shortFile(p.Fset.Position(fd.Pos()).Filename))
			}
			p.Decls[name] = fd
		}
	}
	// lengths of package-level []byte("literal") variables (read-only after init by C04-I1)
	globalConstLen = map[string]int64{}
	for _, f := range root.Syntax {
		for _, d := range f.Decls {
			gd, ok := d.(*ast.GenDecl)
			if !ok || gd.Tok != token.VAR {
				continue
			}
			for _, sp := range gd.Specs {
				vs := sp.(*ast.ValueSpec)
				for i, n := range vs.Names {
					if i < len(vs.Values) {
						if str, ok := p.byteSliceLit(vs.Values[i]); ok {
							if _, isSlice := root.TypesInfo.TypeOf(vs.Values[i]).Underlying().(*types.Slice); isSlice {
								globalConstLen[n.Name] = int64(len(str))
							}
						}
					}
				}
			}
		}
	}
	for fn := range ssautil.AllFunctions(sprog) {
		if fn.Pkg != p.SSA {
			continue
		}
		p.SFuncs[ssaKey(fn)] = fn
	}
	return p, nil
}

func shortFile(f string) string {
	if i := strings.LastIndex(f, "/"); i >= 0 {
		return f[i+1:]
	}
	return f
}

func declKey(fd *ast.FuncDecl) string {
	if fd.Recv != nil && len(fd.Recv.List) == 1 {
		t := fd.Recv.List[0].Type
		if s, ok := t.(*ast.StarExpr); ok {
			t = s.X
		}
		if id, ok := t.(*ast.Ident); ok {
			return id.Name + "." + fd.Name.Name
		}
	}
	return fd.Name.Name
}

func ssaKey(fn *ssa.Function) string {
	if fn.Parent() != nil {
		return ssaKey(fn.Parent()) + "$" + strings.TrimPrefix(fn.Name(), fn.Parent().Name()+"$")
	}
	if recv := fn.Signature.Recv(); recv != nil {
		t := recv.Type()
		if pt, ok := t.(*types.Pointer); ok {
			t = pt.Elem()
		}
		if nt, ok := t.(*types.Named); ok {
			return nt.Obj().Name() + "." + fn.Name()
		}
	}
	if strings.HasPrefix(fn.Name(), "init#") {
		if fn.Syntax() != nil {
			return "init@" + shortFile(fn.Prog.Fset.Position(fn.Syntax().Pos()).Filename)
		}
	}
	return fn.Name()
}

func (p *Prog) pos(pos token.Pos) string {
	if !pos.IsValid() {
		return "-"
	}
	ps := p.Fset.Position(pos)
	return fmt.Sprintf("%s:%d", shortFile(ps.Filename), ps.Line)
}

// sorted function keys with source
func (p *Prog) funcKeys() []string {
	var ks []string
	for k := range p.Decls {
		ks = append(ks, k)
	}
	sort.Strings(ks)
	return ks
}

func (p *Prog) constOf(name string) *types.Const {
	o := p.Types.Scope().Lookup(name)
	if c, ok := o.(*types.Const); ok {
		return c
	}
	return nil
}
