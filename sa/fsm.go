package main

import (
	"fmt"
	"go/constant"
	"go/token"
	"go/types"
	"sort"
	"strings"

	"golang.org/x/tools/go/ssa"
)

// E-FSM: state-machine extraction by path-wise abstract interpretation of one loop iteration.
// Abstract store: the automaton state (a constant, tracked through stores / phi resolution along the
// path), the current input byte (exact byte set, split at every comparison), verdict sets of callee
// results (refined at tests). Conditions it cannot decide fork the path and are recorded.

type fsmSpec struct {
	fn        *ssa.Function
	stateFld  string // name of the state field ("" = local variable)
	stateVar  string // name of the local state variable (phi comment) when stateFld == ""
	constName map[int64]string
}

type fsmTrans struct {
	From   int64
	Bytes  *ByteSet
	To     int64 // -1 unknown
	Exit   string // "" = next iteration, "return" = function returns
	Verd   VSet   // verdict set at return
	Calls  []string
	Conds  []string
	Stores []string // "field=value" stores to tracked plain fields / locals of interest
	Locals map[string]string // loop-carried locals at the end of the iteration: name -> new value ("=" if unchanged)
	RetPos token.Pos
	RetOffs string // returned offset (first int result), rendered with source names
	AtPos  token.Pos
}

func (t fsmTrans) has(call string) bool {
	for _, c := range t.Calls {
		if c == call || strings.HasPrefix(c, call+"(") {
			return true
		}
	}
	return false
}

type fsmResult struct {
	spec   fsmSpec
	head   *ssa.BasicBlock
	body   *ssa.BasicBlock
	states []int64
	trans  []fsmTrans
	post   []fsmTrans // paths from the loop exit (buffer exhausted) to a return, per state
	steps  int
	capped bool
}

func (r *fsmResult) name(k int64) string {
	if n, ok := r.spec.constName[k]; ok {
		return n
	}
	return fmt.Sprint(k)
}

// stateConsts: constants (package- or function-level) whose names share the given prefix set / type uint8|uint32 iota block.
func stateConstsOf(c *Ctx, fnKey string, prefixes ...string) map[int64]string {
	out := map[int64]string{}
	var all []*types.Const
	add := func(obj types.Object) {
		k, ok := obj.(*types.Const)
		if !ok {
			return
		}
		for _, p := range prefixes {
			if strings.HasPrefix(k.Name(), p) {
				all = append(all, k)
			}
		}
	}
	defer func() {
		// the states are the constants of one declared type: that of the initial state (<prefix>Init); other
		// constants that merely share the prefix (named limits, masks) are not states
		var ref types.Type
		for _, k := range all {
			for _, p := range prefixes {
				if k.Name() == p+"Init" {
					ref = k.Type()
				}
			}
		}
		sort.Slice(all, func(i, j int) bool { return all[i].Pos() < all[j].Pos() })
		for _, k := range all {
			if ref != nil && !types.Identical(k.Type(), ref) {
				continue
			}
			v, _ := constant.Int64Val(constant.ToInt(k.Val()))
			if _, dup := out[v]; !dup {
				out[v] = k.Name()
			}
		}
	}()
	sc := c.Types.Scope()
	for _, n := range sc.Names() {
		add(sc.Lookup(n))
	}
	if fd := c.Decls[fnKey]; fd != nil {
		if fs := c.Info.Scopes[fd.Type]; fs != nil {
			var walk func(s *types.Scope)
			walk = func(s *types.Scope) {
				for _, n := range s.Names() {
					add(s.Lookup(n))
				}
				for i := 0; i < s.NumChildren(); i++ {
					walk(s.Child(i))
				}
			}
			walk(fs)
		}
	}
	return out
}

// mainLoop: the loop `for i < len(buf)` of fn: returns (head, bodyEntry).
func mainLoop(fn *ssa.Function) (*ssa.BasicBlock, *ssa.BasicBlock) {
	h, b, _ := mainLoop3(fn)
	return h, b
}

// mainLoop3: the scanning loop of fn — a loop head whose own branch compares a loop-carried integer with len(buf).
// Both spellings are recognised: `for i < len(buf) { body }` (body on the true edge) and
// `for { if i >= len(buf) { break }; body }` (body on the false edge). Returns head, body entry, exit.
func mainLoop3(fn *ssa.Function) (head, body, exit *ssa.BasicBlock) {
	bp := anyBufParam(fn)
	if bp == nil {
		return nil, nil, nil
	}
	env := newLinEnv(linOpts{})
	lenKey := "len(" + env.sliceKey(bp) + ")"
	for _, b := range fn.Blocks {
		iff, ok := b.Instrs[len(b.Instrs)-1].(*ssa.If)
		if !ok || len(b.Succs) != 2 {
			continue
		}
		isHead := false
		for _, p := range b.Preds {
			if b.Dominates(p) {
				isHead = true
			}
		}
		if !isHead {
			continue
		}
		for _, truth := range []bool{true, false} {
			for _, f := range env.condFacts(iff.Cond, truth) {
				// index - len(buf) + 1 <= 0 on the edge into the body
				if f.L.T[lenKey] == -1 && len(f.L.T) == 2 && f.L.C == 1 {
					in, out := b.Succs[0], b.Succs[1]
					if !truth {
						in, out = out, in
					}
					// the body edge must stay in the loop (reach a back edge), the other one leaves it or not
					return b, in, out
				}
			}
		}
	}
	return nil, nil, nil
}

type fsmPath struct {
	st      int64 // tracked automaton state (-1 unknown)
	bytes   *ByteSet
	verd    map[ssa.Value]VSet
	calls   []string
	conds   []string
	stores  []string
	prev    *ssa.BasicBlock
	visited map[*ssa.BasicBlock]int
	phis    map[*ssa.Phi]ssa.Value // phi -> value chosen on this path
}

func (p fsmPath) clone() fsmPath {
	q := p
	q.verd = map[ssa.Value]VSet{}
	for k, v := range p.verd {
		q.verd[k] = v
	}
	q.calls = append([]string{}, p.calls...)
	q.conds = append([]string{}, p.conds...)
	q.stores = append([]string{}, p.stores...)
	q.visited = map[*ssa.BasicBlock]int{}
	for k, v := range p.visited {
		q.visited[k] = v
	}
	q.phis = map[*ssa.Phi]ssa.Value{}
	for k, v := range p.phis {
		q.phis[k] = v
	}
	return q
}

type fsmRunner struct {
	c     *Ctx
	e     *errAnalysis
	spec  fsmSpec
	res   *fsmResult
	byteV ssa.Value // c := buf[i]
	stPhi *ssa.Phi  // local state variable at loop head (local-state automata)
}

func (r *fsmRunner) isStateLoad(v ssa.Value) bool {
	if r.spec.stateFld == "" {
		return false
	}
	u, ok := v.(*ssa.UnOp)
	if !ok || u.Op != token.MUL {
		return false
	}
	fa, ok := u.X.(*ssa.FieldAddr)
	if !ok {
		return false
	}
	st := derefStruct(fa.X.Type())
	return st != nil && st.Field(fa.Field).Name() == r.spec.stateFld && addrRoot(fa) != "" && strings.HasPrefix(addrRoot(fa), "param:")
}

func (r *fsmRunner) isStateStore(s *ssa.Store) bool {
	fa, ok := s.Addr.(*ssa.FieldAddr)
	if !ok || r.spec.stateFld == "" {
		return false
	}
	st := derefStruct(fa.X.Type())
	return st != nil && st.Field(fa.Field).Name() == r.spec.stateFld && strings.HasPrefix(addrRoot(fa), "param:")
}

// resolve: concrete value of v on this path (constants, phis by predecessor, the tracked state); ok=false if unknown.
func (r *fsmRunner) resolve(v ssa.Value, p *fsmPath, at *ssa.BasicBlock) (int64, bool) {
	for i := 0; i < 8; i++ {
		if k, ok := constIntOf(v); ok {
			return k, true
		}
		if r.isStateLoad(v) {
			return p.st, p.st >= 0
		}
		switch a := v.(type) {
		case *ssa.Phi:
			if a == r.stPhi {
				return p.st, p.st >= 0
			}
			if nv, ok := p.phis[a]; ok && nv != ssa.Value(a) {
				v = nv
				continue
			}
			return 0, false
		case *ssa.Convert:
			v = a.X
			continue
		}
		return 0, false
	}
	return 0, false
}

func (r *fsmRunner) isByte(v ssa.Value) bool {
	if v == r.byteV {
		return true
	}
	return false
}

func callLabel(call *ssa.Call) string { return callLabelP(call, nil) }

// callLabelP: pretty, when given, renders an integer argument with the phis resolved along the walked path.
func callLabelP(call *ssa.Call, pretty func(ssa.Value) string) string {
	cal := call.Call.StaticCallee()
	if cal == nil {
		if call.Call.IsInvoke() {
			return "invoke." + call.Call.Method.Name()
		}
		if b, ok := call.Call.Value.(*ssa.Builtin); ok {
			return "builtin." + b.Name()
		}
		return "dynamic"
	}
	name := ssaKey(cal)
	if (name == "PField.Set" || name == "PField.Extend" || name == "PField.Reset") && len(call.Call.Args) > 0 {
		p := addrPath(call.Call.Args[0])
		if i := strings.Index(p, "."); i >= 0 {
			p = p[i+1:]
		}
		le := newLinEnv(linOpts{})
		var as []string
		for _, a := range call.Call.Args[1:] {
			if pretty != nil {
				as = append(as, pretty(a))
			} else {
				as = append(as, le.pretty(le.norm(a)))
			}
		}
		return p + "." + cal.Name() + "(" + strings.Join(as, ",") + ")"
	}
	return name
}

const fsmStepCap = 400000

// walk explores from block b (instruction index start) until the iteration ends or the function returns.
func (r *fsmRunner) walk(b *ssa.BasicBlock, p fsmPath, from int64, out *[]fsmTrans, stopAtHead bool) {
	r.res.steps++
	if r.res.steps > fsmStepCap {
		r.res.capped = true
		return
	}
	if p.visited[b] >= 2 {
		return // inner loops: bounded unrolling
	}
	p.visited[b]++
	// resolve the phis of this block by the predecessor we came from (all at once, using the old values)
	if p.prev != nil {
		idx := -1
		for i, pr := range b.Preds {
			if pr == p.prev {
				idx = i
			}
		}
		if idx >= 0 && !(stopAtHead && b == r.res.head) {
			nv := map[*ssa.Phi]ssa.Value{}
			for _, ins := range b.Instrs {
				ph, ok := ins.(*ssa.Phi)
				if !ok {
					break
				}
				e := ph.Edges[idx]
				if ep, ok := e.(*ssa.Phi); ok {
					if v, has := p.phis[ep]; has {
						e = v
					}
				}
				nv[ph] = e
			}
			if len(nv) > 0 {
				np := map[*ssa.Phi]ssa.Value{}
				for k, v := range p.phis {
					np[k] = v
				}
				for k, v := range nv {
					np[k] = v
				}
				p.phis = np
			}
		}
	}
	// phi resolution for the local state variable happens when we arrive at the head
	if stopAtHead && b == r.res.head {
		to := p.st
		if r.stPhi != nil {
			for i, pr := range b.Preds {
				if pr == p.prev {
					if k, ok := r.resolve2(r.stPhi.Edges[i], &p, pr); ok {
						to = k
					} else {
						to = -1
					}
				}
			}
		}
		locals := map[string]string{}
		for _, ins := range b.Instrs {
			ph, ok := ins.(*ssa.Phi)
			if !ok {
				break
			}
			if ph.Comment == "" || ph == r.stPhi {
				continue
			}
			for i, pr := range b.Preds {
				if pr != p.prev {
					continue
				}
				e := ph.Edges[i]
				for k := 0; k < 6; k++ {
					ep, ok := e.(*ssa.Phi)
					if !ok {
						break
					}
					nv, has := p.phis[ep]
					if !has || nv == e {
						break
					}
					e = nv
				}
				if e == ssa.Value(ph) {
					locals[phiName(ph)] = "="
				} else if isIntType(e.Type()) {
					le := newLinEnv(linOpts{})
					locals[phiName(ph)] = le.pretty(le.norm(e))
				} else {
					locals[phiName(ph)] = srcName(e)
				}
			}
		}
		// merge phis met on the way (e.g. prologue selections): the latest phi of each variable wins
		latest := map[string]*ssa.Phi{}
		for ph := range p.phis {
			if ph.Comment == "" || ph.Block() == b {
				continue
			}
			if _, isHead := locals[phiName(ph)]; isHead {
				continue
			}
			if cur, ok := latest[phiName(ph)]; !ok || ph.Block().Index > cur.Block().Index {
				latest[phiName(ph)] = ph
			}
		}
		for name, ph := range latest {
			v := p.phis[ph]
			if isIntType(v.Type()) {
				le := newLinEnv(linOpts{})
				locals[name] = le.pretty(le.norm(stripWiden(v)))
			} else {
				locals[name] = srcName(v)
			}
		}
		*out = append(*out, fsmTrans{From: from, Bytes: p.bytes, To: to, Calls: p.calls, Conds: p.conds, Stores: p.stores, Locals: locals})
		return
	}
	for _, ins := range b.Instrs {
		switch x := ins.(type) {
		case *ssa.Store:
			if r.isStateStore(x) {
				if k, ok := r.resolve(x.Val, &p, b); ok {
					p.st = k
				} else {
					p.st = -1
				}
				continue
			}
			if pth := addrPath(x.Addr); pth != "" {
				if i := strings.Index(pth, "."); i >= 0 {
					pth = pth[i+1:]
				}
				le := newLinEnv(linOpts{})
				p.stores = append(p.stores, pth+"="+le.pretty(le.norm(stripNarrow(x.Val))))
			}
		case *ssa.Call:
			if _, isB := x.Call.Value.(*ssa.Builtin); isB {
				continue
			}
			{
				pp := p
				p.calls = append(p.calls, callLabelP(x, func(v ssa.Value) string { return r.prettyOnPath(v, &pp) }))
			}
			if cal := x.Call.StaticCallee(); cal != nil {
				if ei := errResultIndex(cal); ei >= 0 {
					for _, ref := range *x.Referrers() {
						if ex, ok := ref.(*ssa.Extract); ok && ex.Index == ei {
							p.verd[ex] = r.e.ret[cal][ei]
						}
					}
					if cal.Signature.Results().Len() == 1 {
						p.verd[x] = r.e.ret[cal][0]
					}
				}
			}
		case *ssa.Return:
			t := fsmTrans{From: from, Bytes: p.bytes, To: p.st, Exit: "return", Calls: p.calls, Conds: p.conds, Stores: p.stores, RetPos: x.Pos()}
			if len(x.Results) > 0 && isIntType(x.Results[0].Type()) {
				t.RetOffs = r.prettyOnPath(x.Results[0], &p)
			}
			if ei := errResultIndex(r.spec.fn); ei >= 0 {
				rv := x.Results[ei]
				if k, ok := constIntOf(rv); ok {
					t.Verd = 1 << uint(k)
				} else if vs, ok := p.verd[rv]; ok {
					t.Verd = vs
				} else if ph, ok := rv.(*ssa.Phi); ok {
					if nv, has := p.phis[ph]; has {
						if k, ok := constIntOf(nv); ok {
							t.Verd = 1 << uint(k)
						} else if vs, ok := p.verd[nv]; ok {
							t.Verd = vs
						} else {
							t.Verd = r.phiVerdict(ph, &p, b)
						}
					} else {
						t.Verd = r.phiVerdict(ph, &p, b)
					}
				} else {
					t.Verd = r.e.at(rv, b)
				}
			}
			*out = append(*out, t)
			return
		case *ssa.If:
			r.branch(b, x, p, from, out, stopAtHead)
			return
		case *ssa.Jump:
			q := p
			q.prev = b
			r.walk(b.Succs[0], q, from, out, stopAtHead)
			return
		case *ssa.Panic:
			return
		}
	}
}

// resolve2: like resolve but follows merge phis by the path predecessor.
func (r *fsmRunner) resolve2(v ssa.Value, p *fsmPath, at *ssa.BasicBlock) (int64, bool) {
	if k, ok := constIntOf(v); ok {
		return k, true
	}
	if ph, ok := v.(*ssa.Phi); ok {
		if ph == r.stPhi {
			return p.st, p.st >= 0
		}
		if k, ok := p.verdConst(ph); ok {
			return k, true
		}
	}
	return r.resolve(v, p, at)
}

func (p *fsmPath) verdConst(v ssa.Value) (int64, bool) { return 0, false }

// phiVerdict: verdict of a phi error variable, resolved along the recorded path when possible.
func (r *fsmRunner) phiVerdict(ph *ssa.Phi, p *fsmPath, at *ssa.BasicBlock) VSet {
	var s VSet
	for _, e := range ph.Edges {
		if k, ok := constIntOf(e); ok {
			s |= 1 << uint(k)
		} else if vs, ok := p.verd[e]; ok {
			s |= vs
		} else if e != ssa.Value(ph) {
			s |= r.e.at(e, at)
		}
	}
	if vs, ok := p.verd[ph]; ok {
		s &= vs
	}
	return s
}

func (r *fsmRunner) branch(b *ssa.BasicBlock, iff *ssa.If, p fsmPath, from int64, out *[]fsmTrans, stopAtHead bool) {
	take := func(idx int, q fsmPath) {
		q.prev = b
		r.walk(b.Succs[idx], q, from, out, stopAtHead)
	}
	cond := iff.Cond
	neg := false
	for {
		u, ok := cond.(*ssa.UnOp)
		if !ok || u.Op != token.NOT {
			break
		}
		cond = u.X
		neg = !neg
	}
	tIdx, fIdx := 0, 1
	if neg {
		tIdx, fIdx = 1, 0
	}
	// a boolean that remembers an earlier test (`isDigit := c >= '0' && c <= '9'`): on this path the phi has the
	// value of the edge that was taken
	for k := 0; k < 6; k++ {
		ph, ok := cond.(*ssa.Phi)
		if !ok {
			break
		}
		v, has := p.phis[ph]
		if !has || v == ssa.Value(ph) {
			break
		}
		cond = v
		for {
			u, ok := cond.(*ssa.UnOp)
			if !ok || u.Op != token.NOT {
				break
			}
			cond = u.X
			tIdx, fIdx = fIdx, tIdx
		}
	}
	if kc, ok := cond.(*ssa.Const); ok && kc.Value != nil && (kc.Value.String() == "true" || kc.Value.String() == "false") {
		if kc.Value.String() == "true" {
			take(tIdx, p)
		} else {
			take(fIdx, p)
		}
		return
	}
	if bo, ok := cond.(*ssa.BinOp); ok {
		// byte comparisons: split the byte set
		var bv ssa.Value
		if r.isByte(bo.X) {
			bv = bo.X
		} else if r.isByte(bo.Y) {
			bv = bo.Y
		}
		if bv != nil {
			is := func(o ssa.Value) bool { return o == bv }
			ts := refineByCond(p.bytes, bo, true, is)
			fs := refineByCond(p.bytes, bo, false, is)
			if ts.count()+fs.count() == p.bytes.count() {
				if !ts.empty() {
					q := p.clone()
					q.bytes = ts
					take(tIdx, q)
				}
				if !fs.empty() {
					q := p.clone()
					q.bytes = fs
					take(fIdx, q)
				}
				return
			}
		}
		// comparisons of resolvable values (state tests)
		if bo.Op == token.EQL || bo.Op == token.NEQ {
			x, okx := r.resolve(bo.X, &p, b)
			y, oky := r.resolve(bo.Y, &p, b)
			if okx && oky {
				res := (x == y) == (bo.Op == token.EQL)
				if res {
					take(tIdx, p)
				} else {
					take(fIdx, p)
				}
				return
			}
			// verdict tests (a verdict variable merged at a join is the callee verdict of the edge taken)
			var ev ssa.Value
			var k int64
			var okk bool
			viaPhi := func(v ssa.Value) ssa.Value {
				for n := 0; n < 6; n++ {
					ph, ok := v.(*ssa.Phi)
					if !ok {
						break
					}
					nv, has := p.phis[ph]
					if !has || nv == v {
						break
					}
					v = nv
				}
				return v
			}
			bx, by := viaPhi(bo.X), viaPhi(bo.Y)
			if _, has := p.verd[bx]; has {
				ev = bx
				k, okk = constIntOf(bo.Y)
			} else if _, has := p.verd[by]; has {
				ev = by
				k, okk = constIntOf(bo.X)
			}
			if ev != nil && okk {
				vs := p.verd[ev]
				eq := vs & (1 << uint(k))
				ne := vs &^ (1 << uint(k))
				tset, fset := eq, ne
				if bo.Op == token.NEQ {
					tset, fset = ne, eq
				}
				if tset != 0 {
					q := p.clone()
					q.verd[ev] = tset
					take(tIdx, q)
				}
				if fset != 0 {
					q := p.clone()
					q.verd[ev] = fset
					take(fIdx, q)
				}
				return
			}
		}
	}
	// undecidable: fork, recording the condition
	label := condLabel(r.c, cond)
	tl, fl := label, "!"+label
	// option-bit tests are recorded in one canonical spelling ((flags&K) != 0, with the polarity of the branch),
	// whether the source says `flags&K != 0` or `flags&K == 0`
	if bo, ok := cond.(*ssa.BinOp); ok && bo.Op == token.EQL {
		if m, ok := bo.X.(*ssa.BinOp); ok && m.Op == token.AND {
			if k, isC := constIntOf(bo.Y); isC && k == 0 {
				l, _ := flagLabel(r.c, bo)
				tl, fl = "!"+l, l
			}
		}
	}
	q := p.clone()
	q.conds = append(q.conds, tl)
	take(tIdx, q)
	q2 := p.clone()
	q2.conds = append(q2.conds, fl)
	take(fIdx, q2)
}

func condLabel(c *Ctx, cond ssa.Value) string {
	switch x := cond.(type) {
	case *ssa.Call:
		if cal := x.Call.StaticCallee(); cal != nil {
			return ssaKey(cal) + "()"
		}
	case *ssa.BinOp:
		le := newLinEnv(linOpts{pathLoads: true})
		return le.pretty(le.norm(x.X)) + x.Op.String() + le.pretty(le.norm(x.Y))
	}
	return srcName(cond)
}

// extractFSM runs the extraction for every state constant x the full byte set.
func extractFSM(c *Ctx, e *errAnalysis, spec fsmSpec) *fsmResult {
	res := &fsmResult{spec: spec}
	head, body, exit := mainLoop3(spec.fn)
	if head == nil {
		return res
	}
	res.head, res.body = head, body
	r := &fsmRunner{c: c, e: e, spec: spec, res: res}
	// the input byte: first load of buf[i] in the body entry block
	bp := anyBufParam(spec.fn)
	for _, ins := range body.Instrs {
		if u, ok := ins.(*ssa.UnOp); ok && u.Op == token.MUL {
			if ia, ok := u.X.(*ssa.IndexAddr); ok && ia.X == ssa.Value(bp) {
				r.byteV = u
				break
			}
		}
	}
	if spec.stateFld == "" {
		for _, ins := range head.Instrs {
			if ph, ok := ins.(*ssa.Phi); ok && ph.Comment == spec.stateVar {
				r.stPhi = ph
			}
		}
	}
	for k := range spec.constName {
		res.states = append(res.states, k)
	}
	sort.Slice(res.states, func(i, j int) bool { return res.states[i] < res.states[j] })
	for _, k := range res.states {
		p := fsmPath{st: k, bytes: fullSet(), verd: map[ssa.Value]VSet{}, visited: map[*ssa.BasicBlock]int{}, prev: head, phis: map[*ssa.Phi]ssa.Value{}}
		r.walk(body, p, k, &res.trans, true)
		// buffer exhausted in state k
		p2 := fsmPath{st: k, bytes: fullSet(), verd: map[ssa.Value]VSet{}, visited: map[*ssa.BasicBlock]int{}, prev: head, phis: map[*ssa.Phi]ssa.Value{}}
		r.walk(exit, p2, k, &res.post, false)
	}
	return res
}

// grouped merges transitions that differ only in the input byte.
func (r *fsmResult) grouped(ts []fsmTrans) []fsmTrans {
	idx := map[string]int{}
	var out []fsmTrans
	for _, t := range ts {
		k := fmt.Sprintf("%d|%d|%s|%d|%v|%v|%v|%v|%s", t.From, t.To, t.Exit, t.Verd, t.Calls, t.Conds, t.Stores, t.Locals, t.RetOffs)
		if i, ok := idx[k]; ok {
			out[i].Bytes = out[i].Bytes.union(t.Bytes)
			continue
		}
		idx[k] = len(out)
		out = append(out, t)
	}
	return out
}

// prettyOnPath renders an integer value with merge phis replaced by the values they take on this path.
func (r *fsmRunner) prettyOnPath(v ssa.Value, p *fsmPath) string {
	var sub func(v ssa.Value, depth int) ssa.Value
	sub = func(v ssa.Value, depth int) ssa.Value {
		for i := 0; i < 8; i++ {
			ph, ok := v.(*ssa.Phi)
			if !ok {
				return v
			}
			nv, has := p.phis[ph]
			if !has || nv == v {
				return v
			}
			v = nv
		}
		return v
	}
	v = sub(v, 0)
	if b, ok := v.(*ssa.BinOp); ok && (b.Op == token.ADD || b.Op == token.SUB) {
		x, y := sub(b.X, 0), sub(b.Y, 0)
		le := newLinEnv(linOpts{})
		l := le.norm(x)
		if b.Op == token.ADD {
			l = l.add(le.norm(y), 1)
		} else {
			l = l.add(le.norm(y), -1)
		}
		return le.pretty(l)
	}
	le := newLinEnv(linOpts{})
	return le.pretty(le.norm(v))
}

// enumPaths: all paths of a loop-free function from its entry to a return, with the automaton state
// fixed to `state` (decides `switch x.state`), forking on every other condition.
func enumPaths(c *Ctx, e *errAnalysis, spec fsmSpec, state int64) []fsmTrans {
	res := &fsmResult{spec: spec}
	r := &fsmRunner{c: c, e: e, spec: spec, res: res}
	var out []fsmTrans
	p := fsmPath{st: state, bytes: fullSet(), verd: map[ssa.Value]VSet{}, visited: map[*ssa.BasicBlock]int{}, phis: map[*ssa.Phi]ssa.Value{}}
	r.walk(spec.fn.Blocks[0], p, state, &out, false)
	return out
}
