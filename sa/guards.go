package main

import (
	"math/big"
	"fmt"
	"go/ast"
	"os"
	"go/constant"
	"go/token"
	"go/types"
	"sort"
	"strings"

	"golang.org/x/tools/go/ssa"
)

// C04-G: every index / slice expression is discharged by a proof rule.

type idxSite struct {
	fn   *ssa.Function
	ins  ssa.Instruction
	x    ssa.Value   // indexed operand
	idx  []ssa.Value // index (1) or slice bounds (low, high)
	kind string      // "index" | "slice"
}

func collectIdxSites(p *Prog) []idxSite {
	var out []idxSite
	var keys []string
	for k := range p.SFuncs {
		keys = append(keys, k)
	}
	sort.Strings(keys)
	for _, k := range keys {
		fn := p.SFuncs[k]
		for _, b := range fn.Blocks {
			for _, ins := range b.Instrs {
				switch x := ins.(type) {
				case *ssa.IndexAddr:
					out = append(out, idxSite{fn, ins, x.X, []ssa.Value{x.Index}, "index"})
				case *ssa.Index:
					out = append(out, idxSite{fn, ins, x.X, []ssa.Value{x.Index}, "index"})
				case *ssa.Slice:
					out = append(out, idxSite{fn, ins, x.X, []ssa.Value{x.Low, x.High}, "slice"})
				}
			}
		}
	}
	return out
}

// staticLen: fixed length of an array / pointer-to-array operand, -1 for slices and strings.
func staticLen(v ssa.Value) int64 {
	t := v.Type().Underlying()
	if pt, ok := t.(*types.Pointer); ok {
		t = pt.Elem().Underlying()
	}
	if at, ok := t.(*types.Array); ok {
		return at.Len()
	}
	return -1
}

// operandName: stable description of the indexed operand.
func operandName(v ssa.Value) string {
	if p := valuePath(v); p != "" {
		return p
	}
	if p := addrPath(v); p != "" {
		return p
	}
	return srcName(v)
}

// noStoreBetweenGuardAndUse: path-keyed loads (x.N, len(x.S)) are only comparable between a
// guard and a use when nothing in between can write them: same block or single-pred chain,
// with no Store / Call instruction in between.
func straightNoWrite(guard *ssa.BasicBlock, use ssa.Instruction) bool {
	if curEffects != nil && fnHeapReadOnly(use.Parent()) {
		return true // the function writes through none of its parameters: field loads are stable throughout
	}
	harmless := func(ins ssa.Instruction) bool {
		switch st := ins.(type) {
		case *ssa.MapUpdate:
			return false
		case *ssa.Store:
			// a store to a known field that is not one of the guarded index/length fields is harmless
			p := addrPath(st.Addr)
			if p == "" || strings.HasPrefix(p, "L:") {
				if addrRootIsLocal(st.Addr) {
					return true
				}
				return false
			}
			f := p[strings.LastIndex(p, ".")+1:]
			if savedIndexFields[f] || f == "N" || strings.HasSuffix(p, "[*]") || isSliceField(st.Addr) {
				return false
			}
		case *ssa.Call:
			if !pureCall(st) {
				return false
			}
		}
		return true
	}
	// every path from the guard's edge target (which dominates the use) to the use must be write-free
	seen := map[*ssa.BasicBlock]bool{}
	var back func(b *ssa.BasicBlock, upto ssa.Instruction) bool
	back = func(b *ssa.BasicBlock, upto ssa.Instruction) bool {
		for _, ins := range b.Instrs {
			if ins == upto {
				break
			}
			if !harmless(ins) {
				return false
			}
		}
		if b == guard {
			return true
		}
		for _, p := range b.Preds {
			if seen[p] {
				continue
			}
			seen[p] = true
			if !guard.Dominates(p) {
				return false
			}
			if !back(p, nil) {
				return false
			}
		}
		return true
	}
	return back(use.Block(), use)
}

func addrRootIsLocal(v ssa.Value) bool {
	for {
		switch a := v.(type) {
		case *ssa.FieldAddr:
			v = a.X
		case *ssa.IndexAddr:
			v = a.X
		case *ssa.Alloc:
			return true
		default:
			return false
		}
	}
}

func fnHeapReadOnly(fn *ssa.Function) bool {
	if curEffects == nil || curEffects.mayWrite[fn] == nil {
		return false
	}
	for _, w := range curEffects.mayWrite[fn] {
		if w {
			return false
		}
	}
	return true
}

func isSliceField(addr ssa.Value) bool {
	if pt, ok := addr.Type().Underlying().(*types.Pointer); ok {
		_, isSl := pt.Elem().Underlying().(*types.Slice)
		return isSl
	}
	return false
}

// pureCall: builtin, known read-only external, or in-package callee that writes through none of its arguments.
var curEffects *effects

func pureCall(call *ssa.Call) bool {
	if _, isB := call.Call.Value.(*ssa.Builtin); isB {
		return true
	}
	cal := call.Call.StaticCallee()
	if cal == nil {
		return false
	}
	if readOnlyExternal[extName(cal)] {
		return true
	}
	if curEffects == nil || curEffects.mayWrite[cal] == nil {
		return false
	}
	for _, w := range curEffects.mayWrite[cal] {
		if w {
			return false
		}
	}
	return true
}

// proofCtx gathers everything usable to discharge a goal at one instruction.
type proofResult struct {
	how     string
	ok      bool
	assumed string // non-empty when a named assumption (axiom) was needed
}

// lenLinFor: length of the indexed operand in the given environment.
func lenLinFor(env *linEnv, x ssa.Value) Lin {
	if n := staticLen(x); n >= 0 {
		return linConst(n)
	}
	// x is a load of a field that was stored from y[lo:hi] earlier in the same block: len = hi - lo
	if u, ok := x.(*ssa.UnOp); ok && u.Op == token.MUL {
		if p := addrPath(u.X); p != "" {
			var found *ssa.Slice
			for _, ins := range u.Block().Instrs {
				if ins == ssa.Instruction(u) {
					break
				}
				switch st := ins.(type) {
				case *ssa.Store:
					if addrPath(st.Addr) == p {
						found, _ = st.Val.(*ssa.Slice)
					}
				case *ssa.Call:
					if !pureCall(st) {
						found = nil
					}
				}
			}
			if found != nil {
				return env.lenLinOfValue(found)
			}
		}
	}
	if c, ok := x.(*ssa.Const); ok && c.Value != nil && c.Value.Kind() == constant.String {
		return linConst(int64(len(constant.StringVal(c.Value))))
	}
	return env.lenLin(x)
}

// usableFacts: facts of dominating edges; path-keyed facts only when nothing can write in between.
func usableFacts(env *linEnv, ins ssa.Instruction, pathKeyed bool) []Fact {
	b := ins.Block()
	if !pathKeyed {
		return env.factsAt(b)
	}
	var out []Fact
	for cur := b; cur != nil; cur = cur.Idom() {
		d := cur.Idom()
		if d == nil {
			break
		}
		iff, ok := d.Instrs[len(d.Instrs)-1].(*ssa.If)
		if !ok || len(cur.Preds) != 1 || cur.Preds[0] != d {
			continue
		}
		if !fnHeapReadOnly(ins.Parent()) && !straightNoWrite(cur, ins) {
			break // a write may have happened between this guard and the use: older guards are stale too
		}
		out = append(out, env.condFacts(iff.Cond, d.Succs[0] == cur)...)
	}
	return out
}

// axioms: always-true facts about atoms: callee postconditions and the saved-index invariant.
func axiomsFor(c *Ctx, env *linEnv, fn *ssa.Function, at ssa.Instruction) (facts []Fact, assumed map[string]bool) {
	assumed = map[string]bool{}
	bp := bufParam(fn)
	// same invariant for PFields reached through a local pointer: loads of base.Offs and base.Len with equal base
	if bp != nil {
		for k1, v1 := range env.vals {
			u1, ok := v1.(*ssa.UnOp)
			if !ok || u1.Op != token.MUL || typeShort(u1.Type()) != "OffsT" {
				continue
			}
			f1, ok := u1.X.(*ssa.FieldAddr)
			if !ok || derefStruct(f1.X.Type()).Field(f1.Field).Name() != "Offs" || addrPath(u1.X) != "" {
				continue
			}
			for k2, v2 := range env.vals {
				u2, ok := v2.(*ssa.UnOp)
				if !ok || u2.Op != token.MUL {
					continue
				}
				f2, ok := u2.X.(*ssa.FieldAddr)
				if !ok || derefStruct(f2.X.Type()).Field(f2.Field).Name() != "Len" || !sameAddr(f1.X, f2.X) {
					continue
				}
				src := "PField end invariant Offs+Len <= len(buf) (P2)"
				facts = append(facts, Fact{Lin{T: map[string]int64{k1: 1, k2: 1, "len(param:" + bp.Name() + ")": -1}}, src})
				assumed[src] = true
			}
		}
	}
	// PField end invariant: X.Offs + X.Len <= len(buf) for a field whose Offs and Len are both loaded
	if bp != nil {
		for k, v := range env.vals {
			u, ok := v.(*ssa.UnOp)
			if !ok {
				continue
			}
			p := addrPath(u.X)
			if !strings.HasSuffix(p, ".Offs") || typeShort(u.Type()) != "OffsT" {
				continue
			}
			lk := "load:" + strings.TrimSuffix(p, ".Offs") + ".Len"
			if _, has := env.vals[lk]; has {
				src := "PField end invariant " + strings.TrimSuffix(p, ".Offs") + ".Offs+Len <= len(buf) (P2)"
				facts = append(facts, Fact{Lin{T: map[string]int64{k: 1, lk: 1, "len(param:" + bp.Name() + ")": -1}}, src})
				assumed[src] = true
			}
		}
	}
	for k, v := range env.vals {
		// small constant ranges of callee results (e.g. the line-end length 0..2)
		if ex, ok := v.(*ssa.Extract); ok && isIntType(ex.Type()) {
			re := newRangeEnv(fn)
			lo, hi := re.rng(ex, nil)
			if lo.IsInt64() && hi.IsInt64() && hi.Int64()-lo.Int64() <= 16 {
				facts = append(facts, Fact{Lin{T: map[string]int64{k: 1}, C: -hi.Int64()}, "callee result range"}, Fact{Lin{T: map[string]int64{k: -1}, C: lo.Int64()}, "callee result range"})
			}
		}
		switch x := v.(type) {
		case *ssa.UnOp:
			// saved scan index <= len(buf)   (P2 provenance: only ever stored a past index)
			if p := addrPath(x.X); bp != nil && p != "" {
				f := p[strings.LastIndex(p, ".")+1:]
				if savedIndexFields[f] || (f == "Offs" && typeShort(x.Type()) == "OffsT") {
					src := "saved index " + p + " <= len(buf) (P2)"
					facts = append(facts, Fact{Lin{T: map[string]int64{k: 1, "len(param:" + bp.Name() + ")": -1}}, src})
					assumed[src] = true
				}
			}
		case *ssa.Parameter:
			// API precondition: the start offset lies inside the buffer
			if bp != nil && isIntType(x.Type()) && (fn.Parent() == nil || closurePreOK[ssaKey(fn)]) {
				for i, p := range fn.Params {
					if p == bp && i+1 < len(fn.Params) && fn.Params[i+1] == x {
						src := "API precondition " + x.Name() + " <= len(" + bp.Name() + ")"
						facts = append(facts, Fact{Lin{T: map[string]int64{k: 1, "len(param:" + bp.Name() + ")": -1}}, src})
						assumed[src] = true
					}
				}
			}
		case *ssa.Call:
			if cal := x.Call.StaticCallee(); cal != nil && offsetPostHolds(c, cal) && cal.Signature.Results().Len() == 1 {
				if gb := bufParam(cal); gb != nil {
					for i, p := range cal.Params {
						if p == gb && i < len(x.Call.Args) {
							if lowerPost[ssaKey(cal)] && i+1 < len(x.Call.Args) {
								facts = append(facts, Fact{env.norm(x.Call.Args[i+1]).add(Lin{T: map[string]int64{k: 1}}, -1), cal.Name() + "() offset >= its start offset (rule O3)"})
							}
							facts = append(facts, Fact{Lin{T: map[string]int64{k: 1}}.add(env.lenLin(x.Call.Args[i]), -1), cal.Name() + "() offset <= len(buf) (rule O1)"})
						}
					}
				}
			}
			if cal := x.Call.StaticCallee(); cal != nil && cal.Pkg == fn.Pkg && len(x.Call.Args) > 0 {
				// min-helper postcondition: result <= len(recv.<field>)
				if fld, ok := minHelperPost(c, cal); ok {
					recv := x.Call.Args[0]
					if rp := valuePath(recv); rp != "" || addrPath(recv) != "" {
						if rp == "" {
							rp = addrPath(recv)
						}
						var ln Lin
						if n, isArr := minHelperArrayLen(cal, fld); isArr {
							ln = linConst(n)
						} else {
							ln = Lin{T: map[string]int64{"len(load:" + rp + "." + fld + ")": 1}}
						}
						facts = append(facts, Fact{Lin{T: map[string]int64{k: 1}}.add(ln, -1), cal.Name() + "() <= len(" + fld + ") (callee postcondition, proved)"})
					}
				}
			}
		case *ssa.Extract:
			// offset postcondition of streaming parsers: result#0 <= len(buf)   (rule O1)
			if call, ok := x.Tuple.(*ssa.Call); ok && x.Index == 0 {
				if cal := call.Call.StaticCallee(); cal != nil && offsetPostHolds(c, cal) {
					if gb := bufParam(cal); gb != nil {
						for i, p := range cal.Params {
							if p == gb && i < len(call.Call.Args) {
								ln := env.lenLin(call.Call.Args[i])
								facts = append(facts, Fact{Lin{T: map[string]int64{k: 1}}.add(ln, -1), cal.Name() + "() offset <= len(buf) (rule O1)"})
								// lower postcondition: the result is not before the offset passed in (rule O3)
								if lowerPost[ssaKey(cal)] && i+1 < len(call.Call.Args) {
									facts = append(facts, Fact{env.norm(call.Call.Args[i+1]).add(Lin{T: map[string]int64{k: 1}}, -1), cal.Name() + "() offset >= its start offset (rule O3)"})
								}
								// verdict-conditional postcondition: Ok => offset < len(buf)
								if okStrictPost[ssaKey(cal)] && at != nil && dominatedByOkOf(call, at) {
									facts = append(facts, Fact{Lin{T: map[string]int64{k: 1}}.add(ln, -1).add(linConst(1), 1), cal.Name() + "() == Ok => offset < len(buf) (rule O1)"})
								}
							}
						}
					}
				}
			}
		}
	}
	return
}

// prove: goal(env) <= 0 at instruction ins.
func prove(c *Ctx, fn *ssa.Function, ins ssa.Instruction, goal func(env *linEnv) Lin) proofResult {
	return proveH(c, fn, ins, goal, nil, 0)
}

type hypo struct {
	phi  *ssa.Phi
	goal func(env *linEnv) Lin
}

// proveH: prove with induction hypotheses (each usable where its phi dominates) and a depth budget.
func proveH(c *Ctx, fn *ssa.Function, ins ssa.Instruction, goal func(env *linEnv) Lin, hyps []hypo, depth int) proofResult {
	for _, pk := range []bool{false, true} {
		env := newLinEnv(linOpts{pathLoads: pk})
		g := goal(env)
		facts := usableFacts(env, ins, pk)
		for _, h := range hyps {
			if h.phi.Block().Dominates(ins.Block()) {
				facts = append(facts, Fact{h.goal(env), "induction hypothesis on " + srcName(h.phi)})
			}
		}
		if ok, why := entails(facts, g); ok {
			tag := "G3"
			if pk {
				tag = "G3p"
			}
			return proofResult{how: tag + " " + env.pretty(g) + "<=0 [" + why + "]", ok: true}
		}
		ax, assumed := axiomsFor(c, env, fn, ins)
		// auxiliary loop invariants of this function (proved once by induction): offs <= index <= len(buf)
		if !inInvariantSearch {
			for _, inv := range loopInvariants(c, fn) {
				if inv.phi.Block().Dominates(ins.Block()) {
					ax = append(ax, Fact{inv.goal(env), inv.src})
					if inv.assumed != "" {
						assumed[inv.src] = true
					}
				}
			}
		}
		if len(ax) > 0 {
			if ok, why := entails(append(facts, ax...), g); ok {
				as := ""
				for a := range assumed {
					if strings.Contains(why, a) {
						as = a
					}
				}
				return proofResult{how: "G3+axiom " + env.pretty(g) + "<=0 [" + why + "]", ok: true, assumed: as}
			}
		}
	}
	if depth < 5 {
		if r := proveByCases(c, fn, ins, goal, hyps, depth); r.ok {
			return r
		}
	}
	env := newLinEnv(linOpts{})
	return proofResult{how: env.pretty(goal(env)) + "<=0 not established by any dominating guard"}
}

// proveByCases: the goal mentions a phi. Prove it for every incoming value at the end of the corresponding
// predecessor; for a loop-carried phi the goal itself is the induction hypothesis.
func proveByCases(c *Ctx, fn *ssa.Function, ins ssa.Instruction, goal func(env *linEnv) Lin, hyps []hypo, depth int) proofResult {
	env := newLinEnv(linOpts{})
	g := goal(env)
	var keys []string
	for k := range g.T {
		keys = append(keys, k)
	}
	sort.Strings(keys)
	for _, key := range keys {
		phi, ok := env.vals[key].(*ssa.Phi)
		if !ok {
			continue
		}
		for _, h := range hyps {
			if h.phi == phi {
				ok = false
			}
		}
		if !ok {
			continue
		}
		nh := append(append([]hypo{}, hyps...), hypo{phi, goal})
		allOK := true
		assumed := ""
		for i, e := range phi.Edges {
			if e == ssa.Value(phi) {
				continue
			}
			pred := phi.Block().Preds[i]
			last := pred.Instrs[len(pred.Instrs)-1]
			edgeIdx := i
			sub := func(env2 *linEnv) Lin {
				g2 := goal(env2)
				// simultaneous substitution of every phi of this block by its value on this edge
				for k2, cf := range g2.T {
					if ph2, ok := env2.vals[k2].(*ssa.Phi); ok && ph2.Block() == phi.Block() {
						delete(g2.T, k2)
						g2 = g2.add(env2.norm(ph2.Edges[edgeIdx]).scale(cf), 1)
					}
				}
				return g2
			}
			_ = e
			r := proveH(c, fn, last, sub, nh, depth+1)
			if !r.ok {
				if d := os.Getenv("SA_DEBUG"); d != "" && (d == "1" || d == fn.Name()) {
					fmt.Fprintf(os.Stderr, "DEBUG depth=%d cases on %s: edge %d (%s) from block %d fails: %s\n", depth, srcName(phi), i, srcName(e), pred.Index, r.how)
				}
				allOK = false
				break
			}
			if r.assumed != "" {
				assumed = r.assumed
			}
		}
		if allOK {
			return proofResult{how: "G3i " + env.pretty(g) + "<=0 by cases/induction on " + srcName(phi), ok: true, assumed: assumed}
		}
	}
	return proofResult{}
}

// proveUpper: idx <= len(x) - 1 + slack (slack 0 for index, 1 for slice bounds).
func proveUpper(c *Ctx, s idxSite, idx ssa.Value, slack int64) proofResult {
	b := s.ins.Block()
	n := staticLen(s.x)
	if cs, ok := s.x.(*ssa.Const); ok && cs.Value != nil && cs.Value.Kind() == constant.String {
		n = int64(len(constant.StringVal(cs.Value)))
	}
	if n >= 0 {
		env := newRangeEnv(s.fn)
		lo, hi := env.rng(idx, b)
		if hi.Cmp(bigOf(n-1+slack)) <= 0 && lo.Sign() >= 0 {
			return proofResult{how: fmt.Sprintf("G2 index range %s within fixed length %d", rangeStr(lo, hi), n), ok: true}
		}
		// G5: enum-typed index, every declared constant of the type is below the table length
		if nt, ok := stripWiden(idx).Type().(*types.Named); ok && slack == 0 && !disableG5 {
			if mx, cnt := enumMax(c, nt); cnt >= 2 && mx < n {
				return proofResult{how: fmt.Sprintf("G5 enum index %s: all %d declared constants <= %d < table length %d", nt.Obj().Name(), cnt, mx, n), ok: true, assumed: "enum values are declared constants"}
			}
		}
	}
	r := prove(c, s.fn, s.ins, func(env *linEnv) Lin {
		return env.norm(idx).add(lenLinFor(env, s.x), -1).add(linConst(1-slack), 1)
	})
	return r
}

func enumMax(c *Ctx, nt *types.Named) (max int64, count int) {
	if nt.Obj().Pkg() != c.Types {
		return 0, 0
	}
	sc := c.Types.Scope()
	for _, n := range sc.Names() {
		if k, ok := sc.Lookup(n).(*types.Const); ok && types.Identical(k.Type(), nt) {
			v, _ := constant.Int64Val(constant.ToInt(k.Val()))
			if v > max {
				max = v
			}
			count++
		}
	}
	return
}

// minHelperPost: does every return of fn satisfy result <= len(recv.<field>)? returns the field.
var minHelperMemo = map[*ssa.Function]string{}

func minHelperPost(c *Ctx, fn *ssa.Function) (string, bool) {
	if f, ok := minHelperMemo[fn]; ok {
		return f, f != ""
	}
	minHelperMemo[fn] = ""
	if fn.Signature.Recv() == nil || fn.Signature.Results().Len() != 1 || !isIntType(fn.Signature.Results().At(0).Type()) || len(fn.Blocks) == 0 || len(fn.Blocks) > 6 {
		return "", false
	}
	st := derefStruct(fn.Params[0].Type())
	if st == nil {
		return "", false
	}
	recvName := fn.Params[0].Name()
	for i := 0; i < st.NumFields(); i++ {
		f := st.Field(i)
		var ln func(env *linEnv) Lin
		switch u := f.Type().Underlying().(type) {
		case *types.Slice:
			name := f.Name()
			ln = func(env *linEnv) Lin { return Lin{T: map[string]int64{"len(load:" + recvName + "." + name + ")": 1}} }
		case *types.Array:
			n := u.Len()
			ln = func(env *linEnv) Lin { return linConst(n) }
		default:
			continue
		}
		all, nret := true, 0
		for _, b := range fn.Blocks {
			ret, ok := b.Instrs[len(b.Instrs)-1].(*ssa.Return)
			if !ok {
				continue
			}
			nret++
			env := newLinEnv(linOpts{pathLoads: true})
			g := env.norm(ret.Results[0]).add(ln(env), -1)
			if ok, _ := entails(usableFacts(env, ret, true), g); !ok {
				all = false
			}
		}
		if all && nret > 0 {
			// must actually depend on the field (not a constant function)
			minHelperMemo[fn] = f.Name()
			return f.Name(), true
		}
	}
	return "", false
}

func minHelperArrayLen(fn *ssa.Function, fld string) (int64, bool) {
	st := derefStruct(fn.Params[0].Type())
	for i := 0; i < st.NumFields(); i++ {
		if st.Field(i).Name() == fld {
			if at, ok := st.Field(i).Type().Underlying().(*types.Array); ok {
				return at.Len(), true
			}
		}
	}
	return 0, false
}

// okStrictPost: functions whose every return that may carry verdict Ok has offset <= len(buf)-1.
var okStrictPost = map[string]bool{}
var closurePreOK = map[string]bool{}

// dominatedByOkOf: is `at` dominated by the true edge of (err-result-of-call == 0)?
func dominatedByOkOf(call *ssa.Call, at ssa.Instruction) bool {
	cal := call.Call.StaticCallee()
	ei := errResultIndex(cal)
	if ei < 0 {
		return false
	}
	var errv ssa.Value
	for _, r := range *call.Referrers() {
		if ex, ok := r.(*ssa.Extract); ok && ex.Index == ei {
			errv = ex
		}
	}
	if errv == nil {
		return false
	}
	for cur := at.Block(); cur != nil; cur = cur.Idom() {
		d := cur.Idom()
		if d == nil {
			break
		}
		iff, ok := d.Instrs[len(d.Instrs)-1].(*ssa.If)
		if !ok || len(cur.Preds) != 1 || cur.Preds[0] != d {
			continue
		}
		if b, ok := iff.Cond.(*ssa.BinOp); ok && (b.X == errv || b.Y == errv) {
			k, isC := constIntOf(b.Y)
			if !isC {
				k, isC = constIntOf(b.X)
			}
			if isC && k == 0 && ((b.Op == token.EQL && d.Succs[0] == cur) || (b.Op == token.NEQ && d.Succs[1] == cur)) {
				return true
			}
		}
	}
	return false
}

// disableG5: when set, enum-typed indices are not accepted on the strength of their declared constants.
var disableG5 bool

// offsetPostHolds: set by rule O1 (returned offset <= len(buf) for streaming functions).
var offsetPost = map[string]bool{}

func offsetPostHolds(c *Ctx, fn *ssa.Function) bool { return offsetPost[ssaKey(fn)] }

func isTrustedAccessor(fn *ssa.Function) bool {
	k := ssaKey(fn)
	return k == "GetPField"
}

// named, reasoned exceptions (one construct each)
var idxExceptions = map[string]string{
	// keyed by construct = function : type path of the indexed operand # ordinal (neutral to renaming of locals)
	"IP6Prefix:[8]uint16#1":         "IPv6 group index bounded by the colon count (<= 7 colons are accepted before the group index can reach 8): a relational value invariant of IP6Prefix, read and accepted, not re-proved",
	"IP6Prefix:[8]uint16#2":         "same cell (read-modify-write of one group)",
	"IP6Prefix:[8]uint16#4":         "number of groups after '::' bounded by the colon count (same invariant)",
	"GetMsgSig:MsgSig.HdrSig#1":     "write index bounded by the early return: HdrSigLen starts at 0 and every increment is immediately followed by `if HdrSigLen >= len(HdrSig) { return }` (checked structurally)",
	"MsgSig.String:MsgSig.HdrSig#1": "i < s.HdrSigLen, and HdrSigLen is stored only by GetMsgSig where it stays <= len(HdrSig) (who-writes checked); a caller that forges HdrSigLen in the exported struct is outside the property",
	"MsgSig.String:MsgSig.HdrSig#2": "same loop",
	"MsgSig.String:MsgSig.HdrSig#3": "same loop",
}

var idxExceptionChecks = map[string]func(c *Ctx) (string, bool){
	"GetMsgSig:MsgSig.HdrSig#1":     hdrSigLenBounded,
	"MsgSig.String:MsgSig.HdrSig#1": hdrSigLenBounded,
	"MsgSig.String:MsgSig.HdrSig#2": hdrSigLenBounded,
	"MsgSig.String:MsgSig.HdrSig#3": hdrSigLenBounded,
}

// hdrSigLenBounded: HdrSigLen is stored only in GetMsgSig; every store is 0 or an increment that is
// immediately followed by the `>= len(HdrSig)` early return.
func hdrSigLenBounded(c *Ctx) (string, bool) {
	nst := 0
	for k, fn := range c.SFuncs {
		for _, b := range fn.Blocks {
			for i, ins := range b.Instrs {
				st, ok := ins.(*ssa.Store)
				if !ok {
					continue
				}
				fa, ok := st.Addr.(*ssa.FieldAddr)
				if !ok || fieldCell(fa) != "MsgSig.HdrSigLen" {
					continue
				}
				nst++
				if k != "GetMsgSig" {
					return "HdrSigLen stored in " + k, false
				}
				if kk, isC := constIntOf(st.Val); isC && kk == 0 {
					continue
				}
				inc, ok := st.Val.(*ssa.BinOp)
				if !ok || inc.Op != token.ADD {
					return "HdrSigLen store is not an increment", false
				}
				// the block must end in an If on (load HdrSigLen) >= 8 whose true edge returns
				iff, ok := b.Instrs[len(b.Instrs)-1].(*ssa.If)
				if !ok {
					return "increment not followed by the bound test", false
				}
				cond, ok := iff.Cond.(*ssa.BinOp)
				if !ok || cond.Op != token.GEQ {
					return "bound test is not >=", false
				}
				lim, isC := constIntOf(cond.Y)
				ld, isLd := cond.X.(*ssa.UnOp)
				if !isC || lim > 8 || !isLd {
					return "bound test constant", false
				}
				if lfa, ok := ld.X.(*ssa.FieldAddr); !ok || fieldCell(lfa) != "MsgSig.HdrSigLen" {
					return "bound test not on HdrSigLen", false
				}
				for _, between := range b.Instrs[i+1 : len(b.Instrs)-1] {
					if _, isSt := between.(*ssa.Store); isSt {
						return "store between increment and test", false
					}
				}
				if _, isRet := b.Succs[0].Instrs[len(b.Succs[0].Instrs)-1].(*ssa.Return); !isRet {
					return "bound test true edge does not return", false
				}
			}
		}
	}
	if nst < 2 {
		return "HdrSigLen stores not found", false
	}
	return "", true
}

// callerEstablished: an index on a parameter of an unexported function, discharged at every call site.
func callerEstablished(c *Ctx, s idxSite) (string, bool, string) {
	p, ok := s.x.(*ssa.Parameter)
	if !ok || ast.IsExported(s.fn.Name()) || s.fn.Parent() != nil {
		return "", false, ""
	}
	k, isC := constIntOf(s.idx[0])
	if !isC {
		return "", false, ""
	}
	pi := -1
	for i, q := range s.fn.Params {
		if q == p {
			pi = i
		}
	}
	n, assumed := 0, ""
	for ck, g := range c.SFuncs {
		for _, b := range g.Blocks {
			for _, ins := range b.Instrs {
				call, ok := ins.(*ssa.Call)
				if !ok || call.Call.StaticCallee() != s.fn {
					continue
				}
				n++
				if strings.HasPrefix(ck, "init@") {
					assumed = "init-time callers pass the (non-empty, C16-H1) table literals"
					continue
				}
				arg := call.Call.Args[pi]
				r := prove(c, g, call, func(env *linEnv) Lin { return linConst(k+1).add(env.lenLin(arg), -1) })
				if !r.ok {
					return "", false, ""
				}
			}
		}
	}
	if n == 0 {
		return "", false, ""
	}
	return fmt.Sprintf("G3c len(%s) >= %d established at each of the %d call sites of unexported %s", p.Name(), k+1, n, s.fn.Name()), true, assumed
}

func ruleG(c *Ctx) { ruleGFor(c, "G", nil) }

// ruleGFor runs the index-guard rule under another rule id, restricted to the named functions.
func ruleGFor(c *Ctx, rule string, only map[string]bool) {
	curEffects = computeEffects(c.Prog)
	if len(offsetPost) == 0 {
		t := &Ctx{Prog: c.Prog, Prop: c.Prop}
		ruleO1(t)
	}
	sites := collectIdxSites(c.Prog)
	cnt := map[string]int{}
	shapeCnt := map[string]int{}
	for _, s := range sites {
		fk := ssaKey(s.fn)
		if isInitFn(s.fn) || (only != nil && !only[fk]) {
			continue
		}
		base := fk + ":" + operandName(s.x)
		lenv := newLinEnv(linOpts{})
		switch s.kind {
		case "index":
			base += "[" + lenv.pretty(lenv.norm(s.idx[0])) + "]"
		default:
			lo, hi := "", ""
			if s.idx[0] != nil {
				lo = lenv.pretty(lenv.norm(s.idx[0]))
			}
			if s.idx[1] != nil {
				hi = lenv.pretty(lenv.norm(s.idx[1]))
			}
			base += "[" + lo + ":" + hi + "]"
		}
		cnt[base]++
		key := base
		if cnt[base] > 1 {
			key += "#" + itoa(cnt[base])
		}
		pos := s.ins.Pos()
		if isTrustedAccessor(s.fn) {
			c.excepted(rule, key, pos, "trusted accessor: buf[f.Offs:f.Offs+f.Len] is safe iff the field is contained in the buffer (C05 containment, a value property)")
			continue
		}
		tp := typedPath(s.x)
		if tp == "" {
			tp = typeShort(s.x.Type())
		}
		shapeCnt[fk+":"+tp]++
		shape := fmt.Sprintf("%s:%s#%d", fk, tp, shapeCnt[fk+":"+tp])
		if why, ok := idxExceptions[shape]; ok {
			if chk := idxExceptionChecks[shape]; chk != nil {
				if msg, good := chk(c); !good {
					c.fail(rule, key, pos, "named exception no longer justified: "+msg)
					continue
				}
			}
			c.excepted(rule, key, pos, why)
			continue
		}
		var msgs, assumedBy []string
		ok := true
		switch s.kind {
		case "index":
			r := proveUpper(c, s, s.idx[0], 0)
			msgs = append(msgs, r.how)
			ok = ok && r.ok
			if r.assumed != "" {
				assumedBy = append(assumedBy, r.assumed)
			}
		case "slice":
			lo, hi := s.idx[0], s.idx[1]
			if hi != nil {
				r := proveUpper(c, s, hi, 1)
				msgs = append(msgs, "high: "+r.how)
				ok = ok && r.ok
				if r.assumed != "" {
					assumedBy = append(assumedBy, r.assumed)
				}
				if lo != nil {
					// low <= high
					r2 := prove(c, s.fn, s.ins, func(env *linEnv) Lin { return env.norm(lo).add(env.norm(hi), -1) })
					if !r2.ok {
						if k, isC := constIntOf(lo); isC && k == 0 {
							r2 = proofResult{how: "0 <= position", ok: true, assumed: "positions are >= 0 (API precondition offs >= 0, monotone index P2)"}
						} else if p := valuePath(stripWiden(lo)); p != "" && savedIndexFields[p[strings.LastIndex(p, ".")+1:]] {
							r2 = proofResult{how: "saved start " + p + " <= current position", ok: true, assumed: "a saved index never exceeds the current scan position (monotone index, P2)"}
						}
					}
					msgs = append(msgs, "low<=high: "+r2.how)
					ok = ok && r2.ok
					if r2.assumed != "" {
						assumedBy = append(assumedBy, r2.assumed)
					}
				}
			} else if lo != nil {
				r := proveUpper(c, s, lo, 1)
				msgs = append(msgs, "low: "+r.how)
				ok = ok && r.ok
				if r.assumed != "" {
					assumedBy = append(assumedBy, r.assumed)
				}
			} else {
				msgs = append(msgs, "full slice")
			}
		}
		if !ok && s.kind == "index" {
			if how, good, as := callerEstablished(c, s); good {
				ok = true
				msgs = []string{how}
				if as != "" {
					assumedBy = append(assumedBy, as)
				}
			}
		}
		if ok && len(assumedBy) > 0 {
			c.assumed(rule, key, pos, strings.Join(msgs, "; ")+" — relies on: "+strings.Join(assumedBy, ", "))
		} else if ok {
			c.ok(rule, key, pos, strings.Join(msgs, "; "))
		} else {
			c.fail(rule, key, pos, "no proof rule discharges this "+s.kind+" [construct "+shape+"]: "+strings.Join(msgs, "; "))
		}
	}
	if only == nil {
		c.expectMin(rule, 100)
	} else {
		c.expectMin(rule, 3)
	}
}

var _ = token.NoPos

// savedIndexFields: parser state fields that only ever hold a past scan index (rule P2 checks their stores).
var savedIndexFields = map[string]bool{"soffs": true, "pstart": true, "pend": true, "vstart": true, "vend": true, "offs": true}

// offsetFuncs: functions f(buf []byte, offs int, ...) whose first result is an int offset.
func offsetFuncs(c *Ctx) []*ssa.Function {
	var out []*ssa.Function
	for _, f := range c.SFuncs {
		bp := bufParam(f)
		if bp == nil || f.Blocks == nil || f.Signature.Results().Len() == 0 || f.Signature.Results().At(0).Type().String() != "int" {
			continue
		}
		ok := false
		for i, p := range f.Params {
			if p == bp && i+1 < len(f.Params) && f.Params[i+1].Type().String() == "int" {
				ok = true
			}
		}
		if ok {
			out = append(out, f)
		}
	}
	sort.Slice(out, func(i, j int) bool { return ssaKey(out[i]) < ssaKey(out[j]) })
	return out
}

// ruleO1: every returned offset is <= len(buf) (greatest fixpoint over the offset-returning functions).
func ruleO1(c *Ctx) {
	curEffects = computeEffects(c.Prog)
	fns := offsetFuncs(c)
	offsetPost = map[string]bool{}
	for _, f := range fns {
		offsetPost[ssaKey(f)] = true
	}
	okStrictPost = map[string]bool{}
	closurePreOK = map[string]bool{}
	for _, f := range fns {
		if f.Parent() != nil {
			closurePreOK[ssaKey(f)] = true // optimistic start of the greatest fixpoint
		}
		okStrictPost[ssaKey(f)] = errResultIndex(f) >= 0
	}
	eAn := newErrAnalysis(c.Prog)
	type retRes struct {
		pos token.Pos
		key string
		r   proofResult
		rel bool
	}
	var results map[string][]retRes
	converged := false
	for iter := 0; iter < 10; iter++ {
		loopInvCache = map[*ssa.Function][]loopInv{}
		results = map[string][]retRes{}
		changed := false
		for _, f := range fns {
			fk := ssaKey(f)
			bp := bufParam(f)
			allOK := true
			cnt := map[string]int{}
			for _, b := range f.Blocks {
				ret, ok := b.Instrs[len(b.Instrs)-1].(*ssa.Return)
				if !ok {
					continue
				}
				v := ret.Results[0]
				le := newLinEnv(linOpts{})
				base := fk + ":return " + le.pretty(le.norm(v))
				cnt[base]++
				key := base
				if cnt[base] > 1 {
					key += "#" + itoa(cnt[base])
				}
				r := prove(c, f, ret, func(env *linEnv) Lin {
					return env.norm(v).add(Lin{T: map[string]int64{"len(param:" + bp.Name() + ")": 1}}, -1)
				})
				rel := false
				if !r.ok && isOffsetPlusCrl(v) {
					rel = true // offset + line-end length: needs the relational postcondition of the LWS/CRLF skippers
				}
				if !r.ok && !rel {
					allOK = false
				}
				results[fk] = append(results[fk], retRes{ret.Pos(), key, r, rel})
			}
			if !allOK && offsetPost[fk] {
				offsetPost[fk] = false
				changed = true
			}
			// Ok => offset <= len(buf)-1 ?
			strict := errResultIndex(f) >= 0
			ei := errResultIndex(f)
			for _, b := range f.Blocks {
				ret, ok := b.Instrs[len(b.Instrs)-1].(*ssa.Return)
				if !ok || !strict {
					continue
				}
				if !eAn.at(ret.Results[ei], b).has(0) {
					continue
				}
				v := ret.Results[0]
				r := prove(c, f, ret, func(env *linEnv) Lin {
					return env.norm(v).add(Lin{T: map[string]int64{"len(param:" + bp.Name() + ")": 1}}, -1).add(linConst(1), 1)
				})
				if os.Getenv("SA_DEBUG") != "" {
					fmt.Fprintf(os.Stderr, "DEBUG strict %s ret %s: ok=%v assumed=%q how=%s\n", fk, c.pos(ret.Pos()), r.ok, r.assumed, r.how)
				}
				if !r.ok || r.assumed != "" {
					strict = false
				}
			}
			if okStrictPost[fk] != strict {
				okStrictPost[fk] = strict
				changed = true
			}
		}
		// O2: in-package call sites establish the callee's precondition offs <= len(buf)
		for _, f := range fns {
			if f.Parent() == nil {
				continue
			}
			pre := true
			for _, g := range c.SFuncs {
				for _, b := range g.Blocks {
					for _, ins := range b.Instrs {
						call, ok := ins.(*ssa.Call)
						if !ok || call.Call.StaticCallee() != f {
							continue
						}
						bi := -1
						for i, p := range f.Params {
							if p == bufParam(f) {
								bi = i
							}
						}
						args := call.Call.Args
						r := prove(c, g, call, func(env *linEnv) Lin { return env.norm(args[bi+1]).add(env.lenLin(args[bi]), -1) })
						if !r.ok {
							pre = false
						}
					}
				}
			}
			if closurePreOK[ssaKey(f)] != pre {
				closurePreOK[ssaKey(f)] = pre
				changed = true
			}
		}
		if !changed {
			converged = true
			break
		}
	}
	c.check(converged, "O1", "fixpoint", token.NoPos, "postcondition fixpoint converged")
	n := 0
	for _, f := range fns {
		fk := ssaKey(f)
		for _, rr := range results[fk] {
			n++
			switch {
			case rr.r.ok && rr.r.assumed != "":
				c.assumed("O1", rr.key, rr.pos, rr.r.how+" — relies on: "+rr.r.assumed)
			case rr.r.ok:
				c.ok("O1", rr.key, rr.pos, rr.r.how)
			case rr.rel:
				c.assumed("O1", rr.key, rr.pos, "offset + line-end length: needs the relational postcondition 'offset+crl <= len(buf)' of skipLWS/skipCRLF/skipLine, which is not decided here")
			default:
				c.fail("O1", rr.key, rr.pos, "returned offset not provably <= len(buf): "+rr.r.how)
			}
		}
	}
	c.check(n >= 80, "O1", "return-count", token.NoPos, fmt.Sprintf("%d offset returns analysed in %d functions (frozen minimum 80)", n, len(fns)))
}

// isOffsetPlusCrl: v = n + crl where crl is a line-end length (0,1,2 constants or the #1 result of a skipper).
func isOffsetPlusCrl(v ssa.Value) bool {
	b, ok := v.(*ssa.BinOp)
	if !ok || b.Op != token.ADD {
		return false
	}
	isCrl := func(x ssa.Value) bool {
		seen := map[ssa.Value]bool{}
		var chk func(x ssa.Value) bool
		chk = func(x ssa.Value) bool {
			if seen[x] {
				return true
			}
			seen[x] = true
			switch a := x.(type) {
			case *ssa.Const:
				k, ok := constIntOf(a)
				return ok && k >= 0 && k <= 2
			case *ssa.Extract:
				if call, ok := a.Tuple.(*ssa.Call); ok && a.Index == 1 {
					if cal := call.Call.StaticCallee(); cal != nil {
						switch cal.Name() {
						case "skipLWS", "skipCRLF", "skipLine":
							return true
						}
					}
				}
			case *ssa.Phi:
				for _, e := range a.Edges {
					if !chk(e) {
						return false
					}
				}
				return true
			}
			return false
		}
		return chk(x)
	}
	return isCrl(b.Y) || isCrl(b.X)
}

// anyBufParam: first parameter whose underlying type is []byte (also matches the named SIPStr).
func anyBufParam(f *ssa.Function) *ssa.Parameter {
	for _, p := range f.Params {
		if sl, ok := p.Type().Underlying().(*types.Slice); ok {
			if b, ok := sl.Elem().Underlying().(*types.Basic); ok && b.Kind() == types.Uint8 {
				return p
			}
		}
	}
	return nil
}

// ruleP2: argument discipline of PField.Set/Extend and of the saved-index state fields.
//   - every end argument is provably <= len(buf)
//   - start <= end is proved, or (start is a saved past index) assumed by monotonicity
//   - every store to a saved-index field stores 0 or a value provably <= len(buf)  (this is the
//     inductive invariant the saved-index axiom of rules G/O1 relies on)
func ruleP2(c *Ctx) {
	curEffects = computeEffects(c.Prog)
	if len(offsetPost) == 0 {
		t := &Ctx{Prog: c.Prog, Prop: c.Prop}
		ruleO1(t)
	}
	var keys []string
	for k := range c.SFuncs {
		keys = append(keys, k)
	}
	sort.Strings(keys)
	nset, nst := 0, 0
	for _, k := range keys {
		fn := c.SFuncs[k]
		if isInitFn(fn) || k == "PField.Set" || k == "PField.Extend" || k == "PField.Reset" {
			continue
		}
		bp := anyBufParam(fn)
		cnt := map[string]int{}
		for _, b := range fn.Blocks {
			for _, ins := range b.Instrs {
				switch x := ins.(type) {
				case *ssa.Call:
					cal := x.Call.StaticCallee()
					if cal == nil || (ssaKey(cal) != "PField.Set" && ssaKey(cal) != "PField.Extend") {
						continue
					}
					nset++
					le := newLinEnv(linOpts{pathLoads: true})
					field := addrPath(x.Call.Args[0])
					args := x.Call.Args[1:]
					base := k + ":" + field + "." + cal.Name() + "("
					for i, a := range args {
						if i > 0 {
							base += ","
						}
						base += le.pretty(le.norm(a))
					}
					base += ")"
					cnt[base]++
					key := base
					if cnt[base] > 1 {
						key += "#" + itoa(cnt[base])
					}
					if bp == nil {
						c.assumed("P2", key, x.Pos(), "derived view over already-parsed components (no buffer in scope): start <= end relies on the component order of C14")
						continue
					}
					end := args[len(args)-1]
					lenBuf := func(env *linEnv) Lin { return env.lenLin(bp) }
					r := prove(c, fn, x, func(env *linEnv) Lin { return env.norm(end).add(lenBuf(env), -1) })
					var msgs, as []string
					ok := r.ok
					msgs = append(msgs, "end<=len(buf): "+r.how)
					if r.assumed != "" {
						as = append(as, r.assumed)
					}
					if cal.Name() == "Set" {
						start := args[0]
						r2 := prove(c, fn, x, func(env *linEnv) Lin { return env.norm(start).add(env.norm(end), -1) })
						if !r2.ok {
							// start is a saved past index (state field, local carrying it, or the field's own Offs)
							if isSavedIndexValue(start) {
								r2 = proofResult{how: "start is a saved past index", ok: true, assumed: "a saved index never exceeds the current scan position (monotone index, P2-i)"}
							}
						}
						ok = ok && r2.ok
						msgs = append(msgs, "start<=end: "+r2.how)
						if r2.assumed != "" {
							as = append(as, r2.assumed)
						}
					} else {
						as = append(as, "Extend: the field's own Offs is a saved past index <= newEnd (monotone index, P2-i)")
					}
					switch {
					case !ok:
						c.fail("P2", key, x.Pos(), "PField."+cal.Name()+" argument discipline not established: "+strings.Join(msgs, "; "))
					case len(as) > 0:
						c.assumed("P2", key, x.Pos(), strings.Join(msgs, "; ")+" — relies on: "+strings.Join(as, ", "))
					default:
						c.ok("P2", key, x.Pos(), strings.Join(msgs, "; "))
					}
				case *ssa.Store:
					fa, ok := x.Addr.(*ssa.FieldAddr)
					if !ok {
						continue
					}
					st := derefStruct(fa.X.Type())
					fname := st.Field(fa.Field).Name()
					isOffs := fname == "Offs" && typeShort(st.Field(fa.Field).Type()) == "OffsT"
					if !savedIndexFields[fname] && !isOffs {
						continue
					}
					if fname == "offs" && typeShort(derefNamed(fa.X.Type())) != "SIPMsgIState" {
						continue
					}
					if bp == nil || k == "PsipURI.AdjustOffs" {
						continue // URI-relative positions (relocation is C18)
					}
					nst++
					le := newLinEnv(linOpts{pathLoads: true})
					base := k + ":" + addrPath(fa) + "=" + le.pretty(le.norm(stripNarrow(x.Val)))
					cnt[base]++
					key := base
					if cnt[base] > 1 {
						key += "#" + itoa(cnt[base])
					}
					val := stripNarrow(x.Val)
					if kk, isC := constIntOf(val); isC && kk == 0 {
						c.ok("P2", key, x.Pos(), "reset to 0")
						continue
					}
					r := prove(c, fn, x, func(env *linEnv) Lin { return env.norm(val).add(env.lenLin(bp), -1) })
					switch {
					case !r.ok:
						c.fail("P2", key, x.Pos(), "a saved-index field is stored a value not provably <= len(buf): "+r.how)
					case r.assumed != "":
						c.assumed("P2", key, x.Pos(), r.how+" — relies on: "+r.assumed)
					default:
						c.ok("P2", key, x.Pos(), r.how)
					}
				}
			}
		}
	}
	c.check(nset >= 100, "P2", "set-count", token.NoPos, fmt.Sprintf("%d PField.Set/Extend call sites analysed (frozen minimum 100)", nset))
	c.check(nst >= 25, "P2", "store-count", token.NoPos, fmt.Sprintf("%d stores to saved-index fields analysed (frozen minimum 25)", nst))
}

func derefNamed(t types.Type) types.Type {
	if p, ok := t.Underlying().(*types.Pointer); ok {
		return p.Elem()
	}
	return t
}

// stripNarrow: see through OffsT(x) style conversions (documented 16-bit limit).
func stripNarrow(v ssa.Value) ssa.Value {
	for {
		c, ok := v.(*ssa.Convert)
		if !ok {
			return v
		}
		v = c.X
	}
}

// isSavedIndexValue: a load of a saved-index field / PField.Offs, or a local (phi) fed only by such loads,
// positions and constants 0.
func isSavedIndexValue(v ssa.Value) bool {
	seen := map[ssa.Value]bool{}
	var chk func(v ssa.Value) bool
	chk = func(v ssa.Value) bool {
		if seen[v] {
			return true
		}
		seen[v] = true
		v = stripNarrow(v)
		switch a := v.(type) {
		case *ssa.UnOp:
			if p := addrPath(a.X); p != "" {
				f := p[strings.LastIndex(p, ".")+1:]
				return savedIndexFields[f] || f == "Offs"
			}
		case *ssa.Phi:
			for _, e := range a.Edges {
				if !chk(e) {
					return false
				}
			}
			return true
		case *ssa.Const:
			k, ok := constIntOf(a)
			return ok && k == 0
		case *ssa.BinOp:
			// i+1 (skip one delimiter) / plain positions
			if a.Op == token.ADD {
				if k, ok := constIntOf(a.Y); ok && k >= 0 && k <= 1 {
					return chk(a.X) || isPositionLocal(a.X)
				}
			}
		}
		return isPositionLocal(v)
	}
	return chk(v)
}

// isPositionLocal: a scan position by structure: the int parameter following the buffer, a loop index
// (phi with an increment edge), the offset result of an offset-returning callee, or a phi of such values.
func isPositionLocal(v ssa.Value) bool {
	seen := map[ssa.Value]bool{}
	var chk func(v ssa.Value, top bool) bool
	chk = func(v ssa.Value, top bool) bool {
		if seen[v] {
			return true
		}
		seen[v] = true
		switch a := v.(type) {
		case *ssa.Parameter:
			f := a.Parent()
			bp := anyBufParam(f)
			for i, p := range f.Params {
				if p == bp && i+1 < len(f.Params) && f.Params[i+1] == a {
					return true
				}
			}
		case *ssa.Extract:
			if call, ok := a.Tuple.(*ssa.Call); ok && a.Index == 0 {
				if cal := call.Call.StaticCallee(); cal != nil && offsetPost[ssaKey(cal)] {
					return true
				}
			}
		case *ssa.Call:
			if cal := a.Call.StaticCallee(); cal != nil && offsetPost[ssaKey(cal)] {
				return true
			}
		case *ssa.BinOp:
			if a.Op == token.ADD {
				if k, ok := constIntOf(a.Y); ok && k >= 0 && k <= 2 {
					return chk(a.X, false)
				}
			}
		case *ssa.Const:
			k, ok := constIntOf(a)
			return ok && k == 0 && !top
		case *ssa.Phi:
			for _, e := range a.Edges {
				if !chk(e, false) {
					return false
				}
			}
			return true
		}
		return false
	}
	return chk(v, true)
}

// sameAddr: structurally equal addresses (same SSA value, or the same field of equal bases).
func sameAddr(a, b ssa.Value) bool {
	if a == b {
		return true
	}
	fa, ok1 := a.(*ssa.FieldAddr)
	fb, ok2 := b.(*ssa.FieldAddr)
	return ok1 && ok2 && fa.Field == fb.Field && sameAddr(fa.X, fb.X)
}

// lowerPost: functions whose every non-error return is >= the offset passed in (rule O3).
var lowerPost = map[string]bool{}

// ruleO3: a returned offset is never before the offset passed in, unless the verdict is an error
// (whose offset may point back at the offending text).
func ruleO3(c *Ctx) {
	curEffects = computeEffects(c.Prog)
	if len(offsetPost) == 0 {
		t := &Ctx{Prog: c.Prog, Prop: c.Prop}
		ruleO1(t)
	}
	e := newErrAnalysis(c.Prog)
	fns := offsetFuncs(c)
	lowerPost = map[string]bool{}
	for _, f := range fns {
		lowerPost[ssaKey(f)] = true
	}
	nonErr := VSet(0x1f) // Ok, EOH, Empty, MoreBytes, MoreValues
	type res struct {
		key string
		pos token.Pos
		r   proofResult
	}
	var results map[string][]res
	converged := false
	rootFail := map[string]bool{}
	for iter := 0; iter < 10; iter++ {
		results = map[string][]res{}
		changed := false
		loopInvCache = map[*ssa.Function][]loopInv{} // invariants depend on the current postcondition set
		for _, f := range fns {
			fk := ssaKey(f)
			ei := errResultIndex(f)
			var offsP *ssa.Parameter
			for i, p := range f.Params {
				if p == bufParam(f) && i+1 < len(f.Params) {
					offsP = f.Params[i+1]
				}
			}
			all := true
			cnt := map[string]int{}
			for _, b := range f.Blocks {
				ret, ok := b.Instrs[len(b.Instrs)-1].(*ssa.Return)
				if !ok {
					continue
				}
				if ei >= 0 && e.at(ret.Results[ei], b)&nonErr == 0 {
					continue // error verdicts only: the offset may point back
				}
				v := ret.Results[0]
				le := newLinEnv(linOpts{})
				base := fk + ":return " + le.pretty(le.norm(v))
				cnt[base]++
				key := base
				if cnt[base] > 1 {
					key += "#" + itoa(cnt[base])
				}
				var r proofResult
				lbUsedPre, lbUsedCell = false, false
				if lbOffs(v, f, offsP, map[ssa.Value]bool{}) {
					r = proofResult{ok: true, how: "O3s " + le.pretty(le.norm(v)) + " is built from " + offsP.Name() + " by non-negative steps and callee results that are >= their start offset"}
					if lbUsedPre {
						r.assumed = "API precondition " + offsP.Name() + " <= len(buf)"
					}
					if lbUsedCell {
						r.assumed = strings.TrimPrefix(r.assumed+"; Content-Length <= 2^24 (C10 rule R)", "; ")
					}
				} else {
					r = prove(c, f, ret, func(env *linEnv) Lin { return env.norm(offsP).add(env.norm(v), -1) })
				}
				if !r.ok {
					all = false
					if iter == 0 {
						rootFail[key] = true
					}
					if os.Getenv("SA_DEBUG_O3") != "" {
						fmt.Fprintf(os.Stderr, "O3 iter %d fail %s: %s\n", iter, key, r.how)
					}
				}
				results[fk] = append(results[fk], res{key, ret.Pos(), r})
			}
			if !all && lowerPost[fk] {
				lowerPost[fk] = false
				changed = true
			}
		}
		if !changed {
			converged = true
			break
		}
	}
	c.check(converged, "O3", "fixpoint", token.NoPos, "postcondition fixpoint converged")
	n := 0
	for _, f := range fns {
		for _, rr := range results[ssaKey(f)] {
			n++
			switch {
			case rr.r.ok && rr.r.assumed != "":
				c.assumed("O3", rr.key, rr.pos, rr.r.how+" — relies on: "+rr.r.assumed)
			case rr.r.ok:
				c.ok("O3", rr.key, rr.pos, rr.r.how)
			case !rootFail[rr.key]:
				c.fail("O3", rr.key, rr.pos, "consequence of a callee losing its offset>=start postcondition (see the other O3 reports): "+rr.r.how)
			default:
				c.fail("O3", rr.key, rr.pos, "ROOT: a non-error return may carry an offset before the one passed in: "+rr.r.how)
			}
		}
	}
	c.check(n >= 60, "O3", "return-count", token.NoPos, fmt.Sprintf("%d non-error offset returns analysed (frozen minimum 60)", n))
}

// lbOffs: v >= offsP on every execution, established structurally (greatest fixpoint over the SSA definitions:
// every member is defined from members by steps that cannot decrease it). in[] holds the phis assumed on the
// way (coinduction over loop-carried values).
var lbUsedPre, lbUsedCell bool

func lbOffs(v ssa.Value, fn *ssa.Function, offsP *ssa.Parameter, in map[ssa.Value]bool) bool {
	if offsP == nil {
		return false
	}
	return lbBase(v, fn, offsP, in)
}

// lbBase: v >= base, where base is the offs parameter or (rule PG) the loop-head phi of the current iteration.
func lbBase(v ssa.Value, fn *ssa.Function, offsP ssa.Value, in map[ssa.Value]bool) bool {
	if v == offsP {
		return true
	}
	if in[v] {
		return true
	}
	if os.Getenv("SA_DEBUG_LB") == fn.Name() {
		defer func() { fmt.Fprintf(os.Stderr, "LB %s = %T %s\n", v.Name(), v, v.String()) }()
	}
	nonNeg := func(y ssa.Value, at *ssa.BasicBlock) bool {
		if k, ok := y.(*ssa.Const); ok && k.Value != nil {
			n, ok := constant.Int64Val(constant.ToInt(k.Value))
			return ok && n >= 0
		}
		env := newRangeEnv(fn)
		lo, hi := env.rng(y, at)
		if lo == nil || lo.Sign() < 0 {
			// Content-Length cell: clamped to 2^24 by its only writers (C10 rule R), so int(cell) cannot be negative even in 32 bits
			env = newRangeEnv(fn)
			env.cellHi = map[string]*big.Int{"PV.CLen.UIVal": bigOf(1 << 24)}
			lo, hi = env.rng(y, at)
			if lo != nil && lo.Sign() >= 0 {
				lbUsedCell = true
			}
		}
		if os.Getenv("SA_DEBUG_LB") == fn.Name() {
			fmt.Fprintf(os.Stderr, "LB nonneg %s: %v %v\n", y.Name(), lo, hi)
		}
		return lo != nil && lo.Sign() >= 0
	}
	calleeLB := func(call *ssa.Call) bool {
		cal := call.Call.StaticCallee()
		if cal == nil || !lowerPost[ssaKey(cal)] {
			return false
		}
		gb := bufParam(cal)
		for i, p := range cal.Params {
			if p == gb && i+1 < len(call.Call.Args) {
				return lbBase(call.Call.Args[i+1], fn, offsP, in)
			}
		}
		return false
	}
	if _, isParam := offsP.(*ssa.Parameter); !isParam {
		// relative to a loop variable there is no such precondition
	} else if bp := bufParam(fn); bp != nil {
		// len(buf) >= offs is the API precondition (the same one rule O1 relies on)
		if call, ok := v.(*ssa.Call); ok {
			if b, ok := call.Call.Value.(*ssa.Builtin); ok && b.Name() == "len" && len(call.Call.Args) == 1 && call.Call.Args[0] == ssa.Value(bp) {
				lbUsedPre = true
				return true
			}
		}
	}
	switch x := v.(type) {
	case *ssa.Phi:
		in[x] = true
		for _, e := range x.Edges {
			if !lbBase(e, fn, offsP, in) {
				delete(in, x)
				return false
			}
		}
		return true
	case *ssa.BinOp:
		if x.Op == token.ADD {
			if lbBase(x.X, fn, offsP, in) && nonNeg(x.Y, x.Block()) {
				return true
			}
			if lbBase(x.Y, fn, offsP, in) && nonNeg(x.X, x.Block()) {
				return true
			}
		}
	case *ssa.Extract:
		if call, ok := x.Tuple.(*ssa.Call); ok && x.Index == 0 {
			return calleeLB(call)
		}
	case *ssa.Call:
		if x.Call.Signature().Results().Len() == 1 {
			return calleeLB(x)
		}
	}
	return false
}

// loop invariants: for every integer loop-head phi, "offs <= phi" and "phi <= len(buf)" when provable by
// induction on their own; they are then available as facts wherever the phi dominates.
type loopInv struct {
	phi     *ssa.Phi
	goal    func(env *linEnv) Lin
	src     string
	assumed string
}

var loopInvCache = map[*ssa.Function][]loopInv{}
var inInvariantSearch bool

func loopInvariants(c *Ctx, fn *ssa.Function) []loopInv {
	if v, ok := loopInvCache[fn]; ok {
		return v
	}
	loopInvCache[fn] = nil
	bp := bufParam(fn)
	if bp == nil {
		return nil
	}
	var offsP *ssa.Parameter
	for i, p := range fn.Params {
		if p == bp && i+1 < len(fn.Params) && isIntType(fn.Params[i+1].Type()) {
			offsP = fn.Params[i+1]
		}
	}
	inInvariantSearch = true
	defer func() { inInvariantSearch = false }()
	var out []loopInv
	for _, b := range fn.Blocks {
		isHead := false
		for _, p := range b.Preds {
			if b.Dominates(p) {
				isHead = true
			}
		}
		if !isHead {
			continue
		}
		for _, ins := range b.Instrs {
			ph, ok := ins.(*ssa.Phi)
			if !ok {
				break
			}
			if !isIntType(ph.Type()) || !isPositionLocal(ph) {
				continue
			}
			last := b.Instrs[len(b.Instrs)-1]
			phv := ph
			if offsP != nil {
				g := func(env *linEnv) Lin { return env.norm(offsP).add(env.norm(phv), -1) }
				if r := proveH(c, fn, last, g, nil, 0); r.ok {
					out = append(out, loopInv{phv, g, "loop invariant " + offsP.Name() + " <= " + phiName(phv), r.assumed})
				}
			}
			g2 := func(env *linEnv) Lin { return env.norm(phv).add(env.lenLin(bp), -1) }
			if r := proveH(c, fn, last, g2, nil, 0); r.ok {
				out = append(out, loopInv{phv, g2, "loop invariant " + phiName(phv) + " <= len(" + bp.Name() + ")", r.assumed})
			}
		}
	}
	loopInvCache[fn] = out
	return out
}
