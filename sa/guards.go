package main

import (
	"fmt"
	"go/token"
	"go/types"
	"sort"
	"strings"

	"golang.org/x/tools/go/ssa"
)

// C04-G: every index / slice expression is discharged by a proof rule.

type idxSite struct {
	fn   *ssa.Function
	ins  ssa.Instruction
	x    ssa.Value   // indexed operand
	idx  []ssa.Value // index (1) or slice bounds (low, high)
	kind string      // "index" | "slice"
}

func collectIdxSites(p *Prog) []idxSite {
	var out []idxSite
	var keys []string
	for k := range p.SFuncs {
		keys = append(keys, k)
	}
	sort.Strings(keys)
	for _, k := range keys {
		fn := p.SFuncs[k]
		for _, b := range fn.Blocks {
			for _, ins := range b.Instrs {
				switch x := ins.(type) {
				case *ssa.IndexAddr:
					out = append(out, idxSite{fn, ins, x.X, []ssa.Value{x.Index}, "index"})
				case *ssa.Index:
					out = append(out, idxSite{fn, ins, x.X, []ssa.Value{x.Index}, "index"})
				case *ssa.Slice:
					out = append(out, idxSite{fn, ins, x.X, []ssa.Value{x.Low, x.High}, "slice"})
				}
			}
		}
	}
	return out
}

// staticLen: fixed length of an array / pointer-to-array operand, -1 for slices and strings.
func staticLen(v ssa.Value) int64 {
	t := v.Type().Underlying()
	if pt, ok := t.(*types.Pointer); ok {
		t = pt.Elem().Underlying()
	}
	if at, ok := t.(*types.Array); ok {
		return at.Len()
	}
	return -1
}

// operandName: stable description of the indexed operand.
func operandName(v ssa.Value) string {
	if p := valuePath(v); p != "" {
		return p
	}
	if p := addrPath(v); p != "" {
		return p
	}
	return srcName(v)
}

// noStoreBetweenGuardAndUse: path-keyed loads (x.N, len(x.S)) are only comparable between a
// guard and a use when nothing in between can write them: same block or single-pred chain,
// with no Store / Call instruction in between.
func straightNoWrite(guard *ssa.BasicBlock, use ssa.Instruction) bool {
	b := use.Block()
	for cur := b; ; {
		for _, ins := range cur.Instrs {
			if ins == use {
				break
			}
			switch ins.(type) {
			case *ssa.Store, *ssa.MapUpdate:
				return false
			case *ssa.Call:
				if _, isB := ins.(*ssa.Call).Call.Value.(*ssa.Builtin); !isB {
					return false
				}
			}
		}
		if cur == guard {
			return true
		}
		if len(cur.Preds) != 1 {
			return false
		}
		cur = cur.Preds[0]
	}
}

// proveUpper: idx <= len(x) - 1 + slack (slack 0 for index, 1 for slice bounds).
func proveUpper(s idxSite, idx ssa.Value, slack int64) (string, bool) {
	b := s.ins.Block()
	if n := staticLen(s.x); n >= 0 {
		env := newRangeEnv(s.fn)
		lo, hi := env.rng(idx, b)
		if hi.Cmp(bigOf(n-1+slack)) <= 0 && lo.Sign() >= 0 {
			return fmt.Sprintf("G2 index range %s within fixed length %d", rangeStr(lo, hi), n), true
		}
		return fmt.Sprintf("index range %s vs fixed length %d", rangeStr(lo, hi), n), false
	}
	// dynamic length: guard dominance on the same SSA values
	env := newLinEnv(linOpts{})
	goal := env.norm(idx).add(Lin{T: map[string]int64{"len(" + env.sliceKey(s.x) + ")": 1}}, -1).add(linConst(1-slack), 1)
	if ok, why := entails(env.factsAt(b), goal); ok {
		return "G3 dominated by guard " + env.pretty(goal) + "<=0 [" + why + "]", true
	}
	// same, with loads keyed by access path (x.N < len(x.S)), requiring a write-free straight line
	penv := newLinEnv(linOpts{pathLoads: true})
	pgoal := penv.norm(idx).add(Lin{T: map[string]int64{"len(" + penv.sliceKey(s.x) + ")": 1}}, -1).add(linConst(1-slack), 1)
	for cur := b; cur != nil; cur = cur.Idom() {
		d := cur.Idom()
		if d == nil {
			break
		}
		iff, ok := d.Instrs[len(d.Instrs)-1].(*ssa.If)
		if !ok || len(cur.Preds) != 1 || cur.Preds[0] != d {
			continue
		}
		fs := penv.condFacts(iff.Cond, d.Succs[0] == cur)
		if ok, _ := entails(fs, pgoal); ok && straightNoWrite(cur, s.ins) {
			return "G3p dominated by guard on the same fields " + penv.pretty(pgoal) + "<=0 (no write in between)", true
		}
	}
	// constant / interval index against a constant-length string or similar
	return env.pretty(goal) + "<=0 not established by any dominating guard", false
}

func isTrustedAccessor(fn *ssa.Function) bool {
	k := ssaKey(fn)
	return k == "GetPField"
}

// named, reasoned exceptions (one construct each)
var idxExceptions = map[string]string{}

func ruleG(c *Ctx) {
	sites := collectIdxSites(c.Prog)
	cnt := map[string]int{}
	for _, s := range sites {
		fk := ssaKey(s.fn)
		if isInitFn(s.fn) {
			continue
		}
		base := fk + ":" + operandName(s.x)
		lenv := newLinEnv(linOpts{})
		switch s.kind {
		case "index":
			base += "[" + lenv.pretty(lenv.norm(s.idx[0])) + "]"
		default:
			lo, hi := "", ""
			if s.idx[0] != nil {
				lo = lenv.pretty(lenv.norm(s.idx[0]))
			}
			if s.idx[1] != nil {
				hi = lenv.pretty(lenv.norm(s.idx[1]))
			}
			base += "[" + lo + ":" + hi + "]"
		}
		cnt[base]++
		key := base
		if cnt[base] > 1 {
			key += "#" + itoa(cnt[base])
		}
		pos := s.ins.Pos()
		if isTrustedAccessor(s.fn) {
			c.excepted("G", key, pos, "trusted accessor: buf[f.Offs:f.Offs+f.Len] is safe iff the field is contained in the buffer (C05 containment, a value property)")
			continue
		}
		if why, ok := idxExceptions[key]; ok {
			c.excepted("G", key, pos, why)
			continue
		}
		var msgs []string
		ok := true
		switch s.kind {
		case "index":
			m, o := proveUpper(s, s.idx[0], 0)
			msgs = append(msgs, m)
			ok = ok && o
		case "slice":
			lo, hi := s.idx[0], s.idx[1]
			if hi != nil {
				m, o := proveUpper(s, hi, 1)
				msgs = append(msgs, "high: "+m)
				ok = ok && o
				if lo != nil {
					// low <= high
					env := newLinEnv(linOpts{})
					goal := env.norm(lo).add(env.norm(hi), -1)
					if g, why := entails(env.factsAt(s.ins.Block()), goal); g {
						msgs = append(msgs, "low<=high ["+why+"]")
					} else {
						msgs = append(msgs, "low<=high not established: "+env.pretty(goal)+"<=0")
						ok = false
					}
				}
			} else if lo != nil {
				m, o := proveUpper(s, lo, 1)
				msgs = append(msgs, "low: "+m)
				ok = ok && o
			} else {
				msgs = append(msgs, "full slice")
			}
		}
		if ok {
			c.ok("G", key, pos, strings.Join(msgs, "; "))
		} else {
			c.fail("G", key, pos, "no proof rule discharges this "+s.kind+": "+strings.Join(msgs, "; "))
		}
	}
	c.expectMin("G", 100)
}

var _ = token.NoPos
