package main

func fsmSpecFor(c *Ctx, fn string) (fsmSpec, bool) {
	f := c.SFuncs[fn]
	if f == nil {
		return fsmSpec{}, false
	}
	switch fn {
	case "ParseNameAddrPVal":
		return fsmSpec{fn: f, stateFld: "state", constName: stateConstsOf(c, fn, "fb")}, true
	case "ParseTokenParam":
		return fsmSpec{fn: f, stateFld: "state", constName: stateConstsOf(c, fn, "param")}, true
	case "ParseCSeqVal":
		return fsmSpec{fn: f, stateFld: "state", constName: stateConstsOf(c, fn, "cs")}, true
	case "ParseCallIDVal":
		return fsmSpec{fn: f, stateFld: "state", constName: stateConstsOf(c, fn, "ci")}, true
	case "ParseUIntVal":
		return fsmSpec{fn: f, stateFld: "state", constName: stateConstsOf(c, fn, "cl")}, true
	case "SkipQuoted", "skipLWS":
		// stateless scanners: one pseudo state
		return fsmSpec{fn: f, stateVar: "none", constName: map[int64]string{0: "scan"}}, true
	case "ParseHdrLine":
		m := stateConstsOf(c, fn, "h")
		for k, v := range m {
			if len(v) < 2 || !(v[1] >= 'A' && v[1] <= 'Z') {
				delete(m, k)
			}
		}
		return fsmSpec{fn: f, stateFld: "state", constName: m}, true
	case "ParseURI":
		m := stateConstsOf(c, fn, "u")
		for k, v := range m {
			if len(v) < 2 || !(v[1] >= 'A' && v[1] <= 'Z') {
				delete(m, k)
			}
		}
		return fsmSpec{fn: f, stateVar: "state", constName: m}, true
	}
	return fsmSpec{}, false
}
