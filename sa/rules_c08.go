package main

import (
	"fmt"
	"go/ast"
	"go/token"
	"sort"
	"strings"

	"golang.org/x/tools/go/ssa"
)

// S1: status arithmetic equals its own digit check.
func ruleS1(c *Ctx) {
	fn := c.SFuncs["ParseFLine"]
	if fn == nil {
		c.fail("S1", "ParseFLine", token.NoPos, "not found")
		return
	}
	bp := bufParam(fn)
	le := newLinEnv(linOpts{})
	env := newRangeEnv(fn)
	found := false
	for _, b := range fn.Blocks {
		for _, ins := range b.Instrs {
			st, ok := ins.(*ssa.Store)
			if !ok {
				continue
			}
			fa, ok := st.Addr.(*ssa.FieldAddr)
			if !ok || fieldCell(fa) != "PFLine.Status" {
				continue
			}
			found = true
			// collect the byte loads feeding the value and their weights
			type term struct {
				idx Lin
				w   int64
			}
			var terms []term
			var collect func(v ssa.Value, w int64) bool
			collect = func(v ssa.Value, w int64) bool {
				switch x := v.(type) {
				case *ssa.BinOp:
					switch x.Op {
					case token.ADD:
						return collect(x.X, w) && collect(x.Y, w)
					case token.MUL:
						if k, ok := constIntOf(x.Y); ok {
							return collect(x.X, w*k)
						}
						if k, ok := constIntOf(x.X); ok {
							return collect(x.Y, w*k)
						}
					case token.SUB:
						if k, ok := constIntOf(x.Y); ok && k == '0' {
							if u, ok := x.X.(*ssa.UnOp); ok {
								if ia, ok := u.X.(*ssa.IndexAddr); ok && ia.X == ssa.Value(bp) {
									terms = append(terms, term{le.norm(ia.Index), w})
									// digit check on this very cell at the store
									bs := env.byteSetOf(u, b)
									// exactly the ten digits: a narrower test would turn a reply whose status has
									// that digit (e.g. the 9 of 489) into a request line
									return bs != nil && bs.min() == '0' && bs.max() == '9' && bs.count() == 10
								}
							}
						}
					}
				case *ssa.Convert:
					return collect(x.X, w)
				}
				return false
			}
			okDigits := collect(st.Val, 1)
			okPoly := len(terms) == 3
			var base Lin
			if okPoly {
				// weights 100,10,1 at consecutive positions
				for _, t := range terms {
					if t.w == 100 {
						base = t.idx
					}
				}
				for _, t := range terms {
					d := t.idx.add(base, -1)
					want := map[int64]int64{100: 0, 10: 1, 1: 2}[t.w]
					if !d.isConst() || d.C != want {
						okPoly = false
					}
				}
			}
			c.check(okDigits, "S1", "digits-checked", st.Pos(), "each byte entering the status arithmetic is exactly in '0'..'9' at that point - all ten digits, nothing else (exact byte sets of the same cells)")
			c.check(okPoly, "S1", "polynomial", st.Pos(), "Status = 100*d0 + 10*d1 + d2 over three consecutive bytes")
			lo, hi := env.rng(st.Val, b)
			c.check(hi.Cmp(bigOf(999)) <= 0 && lo.Sign() >= 0 && len(env.wraps) == 0, "S1", "range", st.Pos(), "status value range "+rangeStr(lo, hi)+" fits uint16 without wrap")
			// StatusCode.Set(base, base+3) and the separator test at base+3
			okSet, okSp := false, false
			for _, b2 := range fn.Blocks {
				for _, i2 := range b2.Instrs {
					if call, ok := i2.(*ssa.Call); ok && call.Call.StaticCallee() != nil && ssaKey(call.Call.StaticCallee()) == "PField.Set" && strings.HasSuffix(addrPath(call.Call.Args[0]), ".StatusCode") {
						a, bnd := le.norm(call.Call.Args[1]), le.norm(call.Call.Args[2])
						if okPoly && a.add(base, -1).isConst() && a.add(base, -1).C == 0 && bnd.add(base, -1).isConst() && bnd.add(base, -1).C == 3 {
							okSet = true
						}
					}
					if u, ok := i2.(*ssa.UnOp); ok && okPoly {
						if ia, ok := u.X.(*ssa.IndexAddr); ok && ia.X == ssa.Value(bp) {
							d := le.norm(ia.Index).add(base, -1)
							if d.isConst() && d.C == 3 {
								bs := env.byteSetOf(u, b)
								if bs != nil && bs.eq(setOfString(" ")) {
									okSp = true
								}
							}
						}
					}
				}
			}
			c.check(okSet, "S1", "statuscode-span", st.Pos(), "StatusCode covers exactly the three digit positions")
			c.check(okSp, "S1", "separator", st.Pos(), "the byte after the three digits is a single space where the status is stored")
		}
	}
	c.check(found, "S1", "status-store", fn.Pos(), "store to PFLine.Status found")
}

// S3/S4/S5 on ParseFLine.
func ruleS3(c *Ctx) {
	fd := c.Decls["ParseFLine"]
	fn := c.SFuncs["ParseFLine"]
	if fd == nil || fn == nil {
		c.fail("S3", "ParseFLine", token.NoPos, "not found")
		return
	}
	// S3: MethodNo = GetMethodNo(Method.Get(buf)) after Method.Extend and the non-empty test
	okM := false
	stmtLists(fd.Body, func(list []ast.Stmt) {
		for i, s := range list {
			if !patEq(c.src(s), "@p.Method.Extend(@i)") {
				continue
			}
			rest := ""
			for _, t := range list[i+1:] {
				rest += c.src(t) + ";"
			}
			if patIn(rest, "if @p.Method.Empty() { goto @l };@p.MethodNo = GetMethodNo(@p.Method.Get(@b));") {
				okM = true
			}
		}
	})
	c.check(okM, "S3", "method-lookup", fd.Pos(), "the numeric method is GetMethodNo of exactly the method token, after the token is closed and found non-empty")
	// comparator of the method table (C16-H3)
	t := &Ctx{Prog: c.Prog, Prop: c.Prop}
	checkLookup(t, hashes[1])
	for _, o := range t.obls {
		if o.Rule == "H3" {
			o.Rule = "S3"
			o.Key = "S3:" + strings.TrimPrefix(o.Key, "H3:")
			c.obls = append(c.obls, o)
		}
	}
}

func ruleS4(c *Ctx) {
	fn := c.SFuncs["ParseFLine"]
	if fn == nil {
		c.fail("S4", "ParseFLine", token.NoPos, "not found")
		return
	}
	bp := bufParam(fn)
	env := newRangeEnv(fn)
	le := newLinEnv(linOpts{})
	want := map[string]*ByteSet{"Method": setOfString(" "), "URI": setOfString(" "), "Version": setOfString("\r\n")}
	seen := map[string]bool{}
	for _, b := range fn.Blocks {
		for _, ins := range b.Instrs {
			call, ok := ins.(*ssa.Call)
			if !ok || call.Call.StaticCallee() == nil || ssaKey(call.Call.StaticCallee()) != "PField.Extend" {
				continue
			}
			p := addrPath(call.Call.Args[0])
			fld := p[strings.LastIndex(p, ".")+1:]
			w, isTok := want[fld]
			if !isTok {
				continue
			}
			end := le.norm(call.Call.Args[1])
			// the delimiter byte: load of buf[end]
			var got *ByteSet
			for _, b2 := range fn.Blocks {
				for _, i2 := range b2.Instrs {
					if u, ok := i2.(*ssa.UnOp); ok {
						if ia, ok := u.X.(*ssa.IndexAddr); ok && ia.X == ssa.Value(bp) {
							d := le.norm(ia.Index).add(end, -1)
							if d.isConst() && d.C == 0 && b2.Dominates(b) {
								got = env.byteSetOf(u, b)
							}
						}
					}
				}
			}
			seen[fld] = true
			c.check(got != nil && got.eq(w), "S4", "delimiter:"+fld, call.Pos(), fmt.Sprintf("the %s token is closed only when the byte that ended it is in %s (exact byte set where Extend runs: %v)", fld, w.String(), got))
		}
	}
	for f := range want {
		c.check(seen[f], "S4", "token:"+f, fn.Pos(), "request token "+f+" is closed with Extend at its delimiter")
	}
	// S5: reply detection compares the 8-byte "SIP/2.0 " (space included), case-insensitively; Version excludes the space
	okPrefix, okVer := false, false
	for _, b := range fn.Blocks {
		for _, ins := range b.Instrs {
			call, ok := ins.(*ssa.Call)
			if !ok || call.Call.StaticCallee() == nil {
				continue
			}
			cal := call.Call.StaticCallee()
			if cal.Pkg != nil && cal.Pkg.Pkg.Name() == "bytescase" && cal.Name() == "Prefix" {
				if u, ok := call.Call.Args[0].(*ssa.UnOp); ok {
					if g, ok := u.X.(*ssa.Global); ok {
						if init, _ := c.globalVarInit(g.Name()); init != nil {
							if s, ok := c.byteSliceLit(init); ok && s == "SIP/2.0 " {
								okPrefix = true
							}
						}
					}
				}
			}
			if ssaKey(cal) == "PField.Set" && strings.HasSuffix(addrPath(call.Call.Args[0]), ".Version") {
				d := le.norm(call.Call.Args[2]).add(le.norm(call.Call.Args[1]), -1)
				// end - start == l - 1 (prefix length minus the space)
				if len(d.T) == 1 && d.C == -1 {
					okVer = true
				}
				if d.isConst() && d.C == 0 {
					okVer = okVer || false
				}
			}
		}
	}
	c.check(okPrefix, "S4", "reply-prefix", fn.Pos(), "a reply is recognised by the case-insensitive 8-byte prefix \"SIP/2.0 \" - the single space is part of the match")
	c.check(okVer, "S4", "reply-version-span", fn.Pos(), "the reply's Version field is the matched prefix without its trailing space")
}

// scannerSets: exact byte sets of the four token scanners. Each is a single loop over buf[offs]; the set of bytes
// on which the loop goes round (exact byte set of that cell at the back edge) must be precisely the documented one.
// Anything the byte-set engine cannot evaluate (a table lookup, a masked index, a helper it cannot inline) leaves
// the full set and fails the comparison: the rule never guesses.
func scannerSets(c *Ctx, rule string) {
	ws := func(i int) bool { return i == ' ' || i == '\t' || i == '\r' || i == '\n' }
	want := map[string]func(int) bool{
		"skipToken":      func(i int) bool { return !ws(i) },
		"skipTokenDelim": func(i int) bool { return !ws(i) }, // minus the delimiter parameter, checked structurally
		"skipWS":         func(i int) bool { return i == ' ' || i == '\t' },
		"skipLine":       func(i int) bool { return i != '\r' && i != '\n' },
	}
	var names []string
	for k := range want {
		names = append(names, k)
	}
	sort.Strings(names)
	for _, name := range names {
		fn := c.SFuncs[name]
		if fn == nil {
			c.fail(rule, "scanner:"+name, token.NoPos, "not found")
			continue
		}
		bp := bufParam(fn)
		loops := naturalLoops(fn)
		if bp == nil || len(loops) != 1 {
			c.fail(rule, "scanner:"+name, fn.Pos(), fmt.Sprintf("expected one scanning loop, found %d", len(loops)))
			continue
		}
		l := loops[0]
		var got *ByteSet
		for _, back := range l.back {
			// the element load that controls the loop
			for b := range l.body {
				for _, ins := range b.Instrs {
					ld, ok := ins.(*ssa.UnOp)
					if !ok || ld.Op != token.MUL {
						continue
					}
					ia, ok := ld.X.(*ssa.IndexAddr)
					if !ok || ia.X != ssa.Value(bp) {
						continue
					}
					re := newRangeEnv(fn)
					if s := re.byteSetOf(ld, back); s != nil {
						if got == nil {
							got = s
						} else {
							got = got.filter(func(i int) bool { return s.has(i) })
						}
					}
				}
			}
		}
		if got == nil {
			c.fail(rule, "scanner:"+name, fn.Pos(), "no byte of the buffer is tested in the loop")
			continue
		}
		exp := fullSet().filter(want[name])
		okSet := got.eq(exp)
		extra := ""
		if name == "skipTokenDelim" {
			// the delimiter: some loop condition compares the element with the byte parameter
			okD := false
			for b := range l.body {
				for _, ins := range b.Instrs {
					if bo, ok := ins.(*ssa.BinOp); ok && (bo.Op == token.NEQ || bo.Op == token.EQL) {
						_, px := bo.X.(*ssa.Parameter)
						_, py := bo.Y.(*ssa.Parameter)
						if px || py {
							okD = true
						}
					}
				}
			}
			okSet = okSet && okD
			extra = " and on the delimiter parameter"
		}
		c.check(okSet, rule, "scanner:"+name, fn.Pos(), fmt.Sprintf("%s goes on exactly over the bytes %s (expected %s)%s", name, got.String(), exp.String(), extra))
		// the loop is the only way forward: every returned offset (and every offset handed to an in-package line-end
		// helper) is built from the offs parameter, the loop's index and constants — not from a library search
		// (bytes.IndexByte and friends skip bytes the loop's byte test would have stopped at)
		inProg := map[ssa.Value]bool{}
		var allowed func(v ssa.Value, depth int) bool
		allowed = func(v ssa.Value, depth int) bool {
			if depth > 40 {
				return false
			}
			if inProg[v] {
				return true // coinductive: a loop-carried index is built from itself plus allowed steps
			}
			if _, isPhi := v.(*ssa.Phi); isPhi {
				inProg[v] = true
				defer delete(inProg, v)
			}
			switch x := v.(type) {
			case *ssa.Const:
				return true
			case *ssa.Parameter:
				return isIntType(x.Type())
			case *ssa.Phi:
				for _, e := range x.Edges {
					if e != ssa.Value(x) && !allowed(e, depth+1) {
						return false
					}
				}
				return true
			case *ssa.BinOp:
				return (x.Op == token.ADD || x.Op == token.SUB) && allowed(x.X, depth+1) && allowed(x.Y, depth+1)
			case *ssa.Convert:
				return allowed(x.X, depth+1)
			case *ssa.Extract:
				call, ok := x.Tuple.(*ssa.Call)
				if !ok {
					return false
				}
				cal := call.Call.StaticCallee()
				if cal == nil || cal.Pkg == nil || cal.Pkg.Pkg != c.Prog.Types {
					return false
				}
				for _, a := range call.Call.Args {
					if isIntType(a.Type()) && !allowed(a, depth+1) {
						return false
					}
				}
				return true
			}
			return false
		}
		okRet, nRet := true, 0
		var badPos token.Pos
		for _, b := range fn.Blocks {
			r, ok := b.Instrs[len(b.Instrs)-1].(*ssa.Return)
			if !ok {
				continue
			}
			for _, res := range r.Results {
				if isIntType(res.Type()) {
					nRet++
					if !allowed(res, 0) {
						okRet = false
						badPos = r.Pos()
					}
				}
			}
		}
		if !badPos.IsValid() {
			badPos = fn.Pos()
		}
		c.check(okRet && nRet > 0, rule, "scanner-offset:"+name, badPos, fmt.Sprintf("every integer result of %s (%d) is built from the offs parameter, the scanning loop's index, constants and in-package helpers applied to those; no other search advances the offset", name, nRet))
	}
}

func ruleS5(c *Ctx) { scannerSets(c, "S5") }

// S7: the reason ends before the terminator that was actually skipped. Every Reason.Extend in ParseFLine gets
// skipLine's offset minus the line-end length returned by the same skipLine call (1 for a lone CR or LF, 2 for CR LF)
// — not a literal 2 — on the one-shot and on the resumed path alike.
func ruleS7(c *Ctx) {
	fn := c.SFuncs["ParseFLine"]
	if fn == nil {
		c.fail("S7", "ParseFLine", token.NoPos, "not found")
		return
	}
	n := 0
	for _, b := range fn.Blocks {
		for _, ins := range b.Instrs {
			call, ok := ins.(*ssa.Call)
			if !ok {
				continue
			}
			cal := call.Call.StaticCallee()
			if cal == nil || ssaKey(cal) != "PField.Extend" || len(call.Call.Args) != 2 || !strings.HasSuffix(addrPath(call.Call.Args[0]), ".Reason") {
				continue
			}
			n++
			good, why := false, "not offset - line-end length of one skipLine call"
			if bo, ok := call.Call.Args[1].(*ssa.BinOp); ok && bo.Op == token.SUB {
				x, okx := bo.X.(*ssa.Extract)
				y, oky := bo.Y.(*ssa.Extract)
				if okx && oky && x.Tuple == y.Tuple && x.Index == 0 && y.Index == 1 {
					if sc, ok := x.Tuple.(*ssa.Call); ok && sc.Call.StaticCallee() != nil && sc.Call.StaticCallee().Name() == "skipLine" {
						good, why = true, "skipLine offset - its own line-end length"
					}
				}
			}
			c.check(good, "S7", fmt.Sprintf("ParseFLine:Reason.Extend#%d", n), call.Pos(), "the reason is extended to skipLine's offset minus the line-end length of the same call ("+why+")")
		}
	}
	c.check(n >= 2, "S7", "instances", fn.Pos(), fmt.Sprintf("%d Reason.Extend sites (one-shot and resumed; frozen minimum 2)", n))
}

func init() {
	register(&PropDef{
		ID: "C08",
		Rules: []Rule{
			{"S1", "status arithmetic = its own digit check: Status is 100*d0+10*d1+d2 over three consecutive bytes, each in '0'..'9' at the store (exact byte sets of the same cells), value within 0..999, StatusCode spans exactly those positions and the next byte is a single space", ruleS1},
			{"S2", "look-ahead budget: every index in ParseFLine is discharged by the index-guard rules (14-byte minimum, Prefix summary)", func(c *Ctx) { ruleGFor(c, "S2", map[string]bool{"ParseFLine": true}) }},
			{"S3", "MethodNo = GetMethodNo(Method.Get(buf)) right after the method token is closed and found non-empty; the method table is searched with bytes.Equal over the whole name (case-sensitive), miss = MOther", ruleS3},
			{"S6", "the per-state path table of ParseFLine (for every state every path to a return: verdict set, returned offset, state left in the object, field actions; variables abstracted, conditions merged) equals the reviewed reference table committed under sa/ref/", func(c *Ctx) { pathRefRule(c, "S6", "ParseFLine", "fl") }},
			{"S7", "the reason phrase ends before the terminator actually skipped: every Reason.Extend in ParseFLine (one-shot and resumed path) receives skipLine's offset minus the line-end length returned by the same call, so a lone CR or lone LF costs one byte, CR LF two", ruleS7},
			{"S5", "exact byte sets of the token scanners the first line is cut with: skipToken goes on over exactly the bytes other than SP HT CR LF, skipWS over exactly SP HT, skipLine over everything but CR LF, skipTokenDelim like skipToken minus its delimiter parameter (exact byte set of buf[offs] at the loop's back edge; an unevaluable test leaves the full set and fails); every offset they return is built from offs, the loop index and constants only, so no other search skips bytes", ruleS5},
			{"S4", "single-space grammar: Method and URI are closed only when the delimiter byte set is exactly {SP}, Version only on {CR, LF}; a reply is recognised by the 8-byte prefix \"SIP/2.0 \" including the space and its Version excludes that space", ruleS4},
		},
		Assumptions: []string{"skipToken stops at SP, HT, CR, LF or end of buffer (its loop condition)", "bytescase.Prefix summary"},
		NotDecided:  "token extents and reason trimming as values",
	})
}
