package main

import (
	"go/token"
	"sort"
	"go/types"
	"math/big"
	"strings"

	"golang.org/x/tools/go/ssa"
)

// Interval analysis over *ideal* (unbounded) integers, with wrap detection.
// rng(v, at) over-approximates the ideal value of v when control is in block `at`.

type ival struct {
	lo, hi *big.Int
	why    string
}

func typeRange(t types.Type) (lo, hi *big.Int, ok bool) {
	bits, uns := intBits(t)
	if bits == 0 {
		return nil, nil, false
	}
	if b, okb := t.Underlying().(*types.Basic); okb && (b.Kind() == types.Int || b.Kind() == types.Uint || b.Kind() == types.Uintptr) {
		bits = 32 // int may be 32 bits (GOARCH=386/arm): be conservative for upper bounds
	}
	one := big.NewInt(1)
	if uns {
		hi = new(big.Int).Sub(new(big.Int).Lsh(one, uint(bits)), one)
		return big.NewInt(0), hi, true
	}
	hi = new(big.Int).Sub(new(big.Int).Lsh(one, uint(bits-1)), one)
	lo = new(big.Int).Neg(new(big.Int).Lsh(one, uint(bits-1)))
	return lo, hi, true
}

type rangeEnv struct {
	fn       *ssa.Function
	lin      *linEnv
	bytesets map[string]map[*ssa.BasicBlock]*ByteSet
	wraps    []string // diagnostics about sub-expressions that may wrap
	storesTo map[string]bool
	assume     map[*ssa.Phi][2]*big.Int // inductive hypotheses lo <= phi <= hi
	phiMemo    map[*ssa.Phi][2]*big.Int
	thresholds []int64
	depth      int
	cellHi     map[string]*big.Int // value invariants of named struct cells (path suffix -> max), justified by other rules
}

func newRangeEnv(fn *ssa.Function) *rangeEnv {
	r := &rangeEnv{fn: fn, lin: newLinEnv(linOpts{}), bytesets: map[string]map[*ssa.BasicBlock]*ByteSet{}, storesTo: map[string]bool{},
		assume: map[*ssa.Phi][2]*big.Int{}, phiMemo: map[*ssa.Phi][2]*big.Int{}}
	for _, b := range fn.Blocks {
		for _, ins := range b.Instrs {
			if st, ok := ins.(*ssa.Store); ok {
				r.storesTo[addrRoot(st.Addr)] = true
			}
		}
	}
	return r
}

// addrRoot: name of the parameter / alloc / global an address is derived from.
func addrRoot(v ssa.Value) string {
	for {
		switch a := v.(type) {
		case *ssa.FieldAddr:
			v = a.X
		case *ssa.IndexAddr:
			v = a.X
		case *ssa.Slice:
			v = a.X
		case *ssa.Parameter:
			return "param:" + a.Name()
		case *ssa.Alloc:
			return "alloc:" + a.Name()
		case *ssa.Global:
			return "global:" + a.Name()
		case *ssa.UnOp:
			if a.Op == token.MUL {
				v = a.X
				continue
			}
			return "?" + a.Name()
		default:
			return "?" + v.Name()
		}
	}
}

// structKey: structural identity of an address (same key + no store to root => same cell).
func (r *rangeEnv) structKey(v ssa.Value) string {
	switch a := v.(type) {
	case *ssa.Parameter:
		return "param:" + a.Name()
	case *ssa.Alloc:
		return "alloc:" + a.Name()
	case *ssa.Global:
		return "global:" + a.Name()
	case *ssa.FieldAddr:
		k := r.structKey(a.X)
		if k == "" {
			return ""
		}
		return k + ".f" + itoa(a.Field)
	case *ssa.IndexAddr:
		k := r.structKey(a.X)
		if k == "" {
			return ""
		}
		return k + "[" + r.lin.norm(a.Index).String() + "]"
	}
	return ""
}

// sameCell: is o a load of the same memory cell as load v (read-only root)?
func (r *rangeEnv) loadKey(v ssa.Value) string {
	u, ok := v.(*ssa.UnOp)
	if !ok || u.Op != token.MUL {
		return ""
	}
	k := r.structKey(u.X)
	if k == "" {
		return ""
	}
	if r.storesTo[addrRoot(u.X)] {
		return "" // cell may change between loads
	}
	return k
}

func (r *rangeEnv) byteSetOf(v ssa.Value, at *ssa.BasicBlock) *ByteSet {
	bits, uns := intBits(v.Type())
	if !(bits == 8 && uns) {
		return nil
	}
	key := v.Name()
	lk := r.loadKey(v)
	if lk != "" {
		key = lk
	}
	m, ok := r.bytesets[key]
	if !ok {
		is := func(o ssa.Value) bool {
			if o == v {
				return true
			}
			return lk != "" && r.loadKey(o) == lk
		}
		// always start at the function entry with the full set: any path around a loop passes its
		// head, where the union with the (unrefined) entry path widens a stale refinement back to full
		m = byteSetsFor(r.fn, is, nil)
		r.bytesets[key] = m
	}
	return m[at]
}

func bigOf(i int64) *big.Int { return big.NewInt(i) }

func minBig(a, b *big.Int) *big.Int {
	if a.Cmp(b) <= 0 {
		return a
	}
	return b
}
func maxBig(a, b *big.Int) *big.Int {
	if a.Cmp(b) >= 0 {
		return a
	}
	return b
}

// rng: ideal range of v at block `at`. A sub-expression whose ideal range does not
// fit its type is recorded in r.wraps and replaced by the type's range.
func (r *rangeEnv) rng(v ssa.Value, at *ssa.BasicBlock) (lo, hi *big.Int) {
	tlo, thi, okT := typeRange(v.Type())
	if !okT {
		return bigOf(0), bigOf(0)
	}
	if c, ok := v.(*ssa.Const); ok {
		if k, ok := constIntOf(c); ok {
			return bigOf(k), bigOf(k)
		}
		if c.Value != nil {
			if bi, ok := new(big.Int).SetString(c.Value.ExactString(), 10); ok {
				return bi, bi
			}
		}
		return tlo, thi
	}
	lo, hi = tlo, thi
	fit := func(l, h *big.Int, what string) (*big.Int, *big.Int) {
		if l.Cmp(tlo) < 0 || h.Cmp(thi) > 0 {
			r.wraps = append(r.wraps, what+" may wrap in "+v.Type().String()+": ideal ["+l.String()+","+h.String()+"]")
			return tlo, thi
		}
		return l, h
	}
	// operands are evaluated where the instruction executes: the path facts that held there
	// constrain the (immutable) operand values the result was computed from
	useAt := at
	if ins, ok := v.(ssa.Instruction); ok && ins.Block() != nil {
		if _, isPhi := v.(*ssa.Phi); !isPhi {
			at = ins.Block()
		}
	}
	switch a := v.(type) {
	case *ssa.Convert:
		if isIntType(a.X.Type()) {
			l, h := r.rng(a.X, at)
			if l.Cmp(tlo) >= 0 && h.Cmp(thi) <= 0 {
				lo, hi = l, h
			}
		}
	case *ssa.ChangeType:
		if isIntType(a.X.Type()) {
			lo, hi = r.rng(a.X, at)
		}
	case *ssa.Extract:
		if call, ok := a.Tuple.(*ssa.Call); ok {
			if cal := call.Call.StaticCallee(); cal != nil && cal.Blocks != nil && cal.Pkg == r.fn.Pkg && cal != r.fn && r.depth < 3 {
				var l, h *big.Int
				sub := newRangeEnv(cal)
				sub.depth = r.depth + 1
				for _, cb := range cal.Blocks {
					if ret, ok := cb.Instrs[len(cb.Instrs)-1].(*ssa.Return); ok && a.Index < len(ret.Results) {
						rl, rh := sub.rng(ret.Results[a.Index], cb)
						if l == nil {
							l, h = rl, rh
						} else {
							l, h = minBig(l, rl), maxBig(h, rh)
						}
					}
				}
				if l != nil {
					lo, hi = maxBig(tlo, l), minBig(thi, h)
				}
			}
		}
	case *ssa.Call:
		if cal := a.Call.StaticCallee(); cal != nil && cal.Blocks != nil && cal.Pkg == r.fn.Pkg && cal != r.fn && r.depth < 2 {
			// callee summary: union of the ranges of its return expressions (no argument information)
			var l, h *big.Int
			sub := newRangeEnv(cal)
			sub.depth = r.depth + 1
			for _, cb := range cal.Blocks {
				if ret, ok := cb.Instrs[len(cb.Instrs)-1].(*ssa.Return); ok && len(ret.Results) == 1 {
					rl, rh := sub.rng(ret.Results[0], cb)
					if l == nil {
						l, h = rl, rh
					} else {
						l, h = minBig(l, rl), maxBig(h, rh)
					}
				}
			}
			if l != nil && len(sub.wraps) == 0 {
				lo, hi = maxBig(tlo, l), minBig(thi, h)
			}
		}
	case *ssa.BinOp:
		switch a.Op {
		case token.ADD:
			xl, xh := r.rng(a.X, at)
			yl, yh := r.rng(a.Y, at)
			lo, hi = fit(new(big.Int).Add(xl, yl), new(big.Int).Add(xh, yh), "+")
		case token.SUB:
			xl, xh := r.rng(a.X, at)
			yl, yh := r.rng(a.Y, at)
			lo, hi = fit(new(big.Int).Sub(xl, yh), new(big.Int).Sub(xh, yl), "-")
		case token.MUL:
			xl, xh := r.rng(a.X, at)
			yl, yh := r.rng(a.Y, at)
			if xl.Sign() >= 0 && yl.Sign() >= 0 {
				lo, hi = fit(new(big.Int).Mul(xl, yl), new(big.Int).Mul(xh, yh), "*")
			}
		case token.QUO:
			xl, xh := r.rng(a.X, at)
			yl, yh := r.rng(a.Y, at)
			if xl.Sign() >= 0 && yl.Sign() > 0 {
				lo, hi = new(big.Int).Quo(xl, yh), new(big.Int).Quo(xh, yl)
			}
		case token.AND:
			_, xh := r.rng(a.X, at)
			_, yh := r.rng(a.Y, at)
			xl, _ := r.rng(a.X, at)
			yl, _ := r.rng(a.Y, at)
			if xl.Sign() >= 0 && yl.Sign() >= 0 {
				lo, hi = bigOf(0), minBig(xh, yh)
			} else if yl.Sign() >= 0 {
				lo, hi = bigOf(0), yh
			} else if xl.Sign() >= 0 {
				lo, hi = bigOf(0), xh
			}
		case token.OR, token.XOR:
			xl, xh := r.rng(a.X, at)
			yl, yh := r.rng(a.Y, at)
			if xl.Sign() >= 0 && yl.Sign() >= 0 {
				m := maxBig(xh, yh)
				bits := m.BitLen()
				lo, hi = bigOf(0), new(big.Int).Sub(new(big.Int).Lsh(bigOf(1), uint(bits)), bigOf(1))
				if hi.Cmp(thi) > 0 {
					hi = thi
				}
			}
		case token.SHL:
			xl, xh := r.rng(a.X, at)
			yl, yh := r.rng(a.Y, at)
			if xl.Sign() >= 0 && yl.Sign() >= 0 && yh.IsInt64() && yh.Int64() < 64 {
				lo, hi = fit(new(big.Int).Lsh(xl, uint(yl.Int64())), new(big.Int).Lsh(xh, uint(yh.Int64())), "<<")
			}
		case token.SHR:
			xl, xh := r.rng(a.X, at)
			yl, _ := r.rng(a.Y, at)
			if xl.Sign() >= 0 && yl.Sign() >= 0 && yl.IsInt64() && yl.Int64() < 64 {
				lo, hi = bigOf(0), new(big.Int).Rsh(xh, uint(yl.Int64()))
			}
		case token.REM:
			xl, _ := r.rng(a.X, at)
			yl, yh := r.rng(a.Y, at)
			if xl.Sign() >= 0 && yl.Sign() > 0 {
				lo, hi = bigOf(0), new(big.Int).Sub(yh, bigOf(1))
			}
		}
	case *ssa.Phi:
		if as, ok := r.assume[a]; ok {
			lo, hi = maxBig(tlo, as[0]), minBig(thi, as[1])
			break
		}
		if m, ok := r.phiMemo[a]; ok && len(r.assume) == 0 {
			lo, hi = m[0], m[1]
			break
		}
		if len(r.assume) >= 3 {
			break // nesting limit: type range
		}
		try := func(l, h *big.Int) bool {
			sub := &rangeEnv{fn: r.fn, lin: r.lin, bytesets: r.bytesets, storesTo: r.storesTo, assume: map[*ssa.Phi][2]*big.Int{a: {l, h}}, phiMemo: r.phiMemo, thresholds: r.thresholds}
			for p, v := range r.assume {
				sub.assume[p] = v
			}
			for i, e := range a.Edges {
				if e == ssa.Value(a) {
					continue
				}
				el, eh := sub.rng(e, a.Block().Preds[i])
				if el.Cmp(l) < 0 || eh.Cmp(h) > 0 {
					return false
				}
			}
			return true
		}
		// inductive bounds: candidate lower bounds 0, -1 (range-loop index), candidate upper bounds from the
		// comparison constants of the function (ascending); pairs first, then one-sided
		found := false
		los := []*big.Int{tlo}
		if tlo.Sign() < 0 {
			los = []*big.Int{bigOf(0), bigOf(-1)}
		}
		for _, l := range los {
			for _, cand := range r.thresholdList() {
				cb := bigOf(cand)
				if cb.Cmp(l) < 0 || cb.Cmp(thi) >= 0 {
					continue
				}
				if try(l, cb) {
					lo, hi, found = l, cb, true
					break
				}
			}
			if found {
				break
			}
		}
		if !found && tlo.Sign() < 0 {
			for _, l := range los {
				if try(l, thi) {
					lo = l
					break
				}
			}
		}
		if len(r.assume) == 0 {
			r.phiMemo[a] = [2]*big.Int{lo, hi}
		}
	}
	// value invariants of named cells (e.g. a parsed Content-Length <= 2^24, rule R + who-parses)
	if u, ok := v.(*ssa.UnOp); ok && u.Op == token.MUL && r.cellHi != nil {
		p := addrPath(u.X)
		for suf, mx := range r.cellHi {
			if strings.HasSuffix(p, suf) {
				hi = minBig(hi, mx)
			}
		}
	}
	// refinement 1: byte sets
	at = useAt
	if at != nil {
		if bs := r.byteSetOf(v, at); bs != nil && !bs.empty() {
			lo, hi = maxBig(lo, bigOf(int64(bs.min()))), minBig(hi, bigOf(int64(bs.max())))
		}
		// refinement 2: dominating guards with a constant bound on this very value
		L := r.lin.norm(v)
		if len(L.T) > 0 {
			neg := L.scale(-1)
			for _, f := range r.lin.factsAt(at) {
				if f.L.sameTerms(L) { // terms + f.C <= 0  => v = terms + L.C <= L.C - f.C
					hi = minBig(hi, bigOf(L.C-f.L.C))
				} else if f.L.sameTerms(neg) { // -terms + f.C <= 0 => terms >= f.C => v >= f.C + L.C
					lo = maxBig(lo, bigOf(f.L.C+L.C))
				}
			}
		}
	}
	return lo, hi
}

func rangeStr(lo, hi *big.Int) string {
	return "[" + lo.String() + "," + hi.String() + "]"
}

func stripWiden(v ssa.Value) ssa.Value {
	for {
		c, ok := v.(*ssa.Convert)
		if !ok {
			return v
		}
		fb, fu := intBits(c.X.Type())
		tb, tu := intBits(c.Type())
		if fb > 0 && tb > 0 && ((fu && tb > fb) || (fu && tu && tb >= fb) || (!fu && !tu && tb >= fb)) {
			v = c.X
			continue
		}
		return v
	}
}

func isNarrowing(c *ssa.Convert) bool {
	fb, fu := intBits(c.X.Type())
	tb, tu := intBits(c.Type())
	if fb == 0 || tb == 0 {
		return false
	}
	if tb < fb {
		return true
	}
	if tb == fb && fu != tu {
		return true
	}
	if !fu && tu { // signed -> wider unsigned loses negatives
		return true
	}
	return false
}

func typeShort(t types.Type) string {
	return strings.TrimPrefix(t.String(), sipspPath+".")
}

// thresholdList: candidate bounds = integer constants compared against in the function (and +-1),
// and fixed array lengths; ascending, small values only.
func (r *rangeEnv) thresholdList() []int64 {
	if r.thresholds != nil {
		return r.thresholds
	}
	set := map[int64]bool{}
	add := func(k int64) {
		for _, d := range []int64{-1, 0, 1} {
			if k+d >= 0 && k+d <= 1<<20 {
				set[k+d] = true
			}
		}
	}
	for _, b := range r.fn.Blocks {
		for _, ins := range b.Instrs {
			if bo, ok := ins.(*ssa.BinOp); ok {
				switch bo.Op {
				case token.LSS, token.LEQ, token.GTR, token.GEQ, token.EQL, token.NEQ:
					if k, ok := constIntOf(bo.X); ok {
						add(k)
					}
					if k, ok := constIntOf(bo.Y); ok {
						add(k)
					}
				}
			}
			if ia, ok := ins.(*ssa.IndexAddr); ok {
				t := ia.X.Type().Underlying()
				if pt, ok := t.(*types.Pointer); ok {
					t = pt.Elem().Underlying()
				}
				if at, ok := t.(*types.Array); ok {
					add(at.Len())
				}
			}
		}
	}
	for k := range set {
		r.thresholds = append(r.thresholds, k)
	}
	sort.Slice(r.thresholds, func(i, j int) bool { return r.thresholds[i] < r.thresholds[j] })
	if r.thresholds == nil {
		r.thresholds = []int64{}
	}
	return r.thresholds
}
